#!/usr/bin/env python3
"""Robustness / sensitivity demonstration for part 16 of rs2coq (tools/rs2coq_fmap.py: regex_match, key_match2..5,
key_get2/3 of src/model/function_map.rs -> coq/Gen/FmapGen.v, with the run-time Regex::new = Gen/RegexSyntax.v;
obligations in coq/PinChecks/PcFmapGen.v).

For every variant: copy /repo/src to a scratch directory (tempfile.mkdtemp(), outside /repo and /verif), edit
src/model/function_map.rs there, run rs2coq_fmap on the scratch copy, rebuild PinChecks/PcFmapGen.vo and compare the
outcome with the expectation (meaning-preserving rewrite -> all proofs pass unchanged; change of meaning -> a proof fails
or the source leaves the translated subset).  For a failing variant that was translated, a battery of concrete inputs is
evaluated by vm_compute on the translated functions and on the hand model (Model/PathMatch.v), and the first input on
which the model answers Some x and the translated function does not is reported (so that a failed proof is seen to be a
change of meaning, not a weak tactic).  The pristine generated file is restored (and rebuilt) at the end; the scratch
directory is removed.

usage: python3 tools/rs2coq_demo_fmap.py [label-prefix ..]
"""
import os
import re
import shutil
import subprocess
import sys
import tempfile

HERE = os.path.dirname(os.path.abspath(__file__))
ROOT = os.path.dirname(HERE)
COQ = os.path.join(ROOT, "coq")
SCRATCH = tempfile.mkdtemp(prefix="rs2coq_demo_fmap_")
FMAP = "src/model/function_map.rs"

KM2_HEAD = """pub fn key_match2(key1: &str, key2: &str) -> bool {
    let mut key2: Cow<str> = if key2.contains("/*") {
        key2.replace("/*", "/.*").into()
    } else {
        key2.into()
    };
"""
KM2_TAIL = """    key2 = MAT_B.replace_all(&key2, "[^/]+").to_string().into();

    regex_match(key1, &format!("^{}$", key2))"""
KM3_HEAD = """pub fn key_match3(key1: &str, key2: &str) -> bool {
    let mut key2: Cow<str> = if key2.contains("/*") {
        key2.replace("/*", "/.*").into()
    } else {
        key2.into()
    };
"""
KM3_TAIL = """    key2 = MAT_P.replace_all(&key2, "[^/]+").to_string().into();

    regex_match(key1, &format!("^{}$", key2))"""
KG2_RE = """    let re = Regex::new(r":[^/]+").unwrap();
    let keys: Vec<_> = re.find_iter(&key2).collect();
    let key2 = re.replace_all(&key2, "([^/]+)").to_string();
    let key2 = format!("^{}$", key2);

    if let Ok(re2) = Regex::new(&key2) {
        if let Some(caps) = re2.captures(key1) {
            for (i, key) in keys.iter().enumerate() {
                if path_var == &key.as_str()[1..] {"""
KM5_CUT = """    let key1 = if let Some(i) = key1.find('?') {
        &key1[..i]
    } else {
        key1
    };
"""
KM4_IFLET = """    if let Some(caps) = re.captures(key1) {
        let matches: Vec<_> =
            caps.iter().skip(1).map(|m| m.unwrap().as_str()).collect();"""
KM4_END = """        true
    } else {
        false
    }
}"""
KM4_CMP = """                if *existing_value != value {
                    return false;
                }"""
KM4_PUSH = """            tokens.push(caps[0][1..caps[0].len() - 1].to_string());
            "([^/]+)".to_string()"""
RM = """    Regex::new(key2).unwrap().is_match(key1)"""
CACHE_ITEMS = """static RE_CACHE: Lazy<std::sync::Mutex<HashMap<String, Regex>>> =
    Lazy::new(|| std::sync::Mutex::new(HashMap::new()));
fn cached(pat: &str, rx: &str) -> Regex {
    RE_CACHE
        .lock()
        .unwrap()
        .entry(pat.to_string())
        .or_insert_with(|| Regex::new(rx).unwrap())
        .clone()
}

/// key_match2 determines"""

# (label, expectation, [(old text, new text)]) - every old text must occur exactly once in function_map.rs
VARIANTS = [
    ("P0 the unmodified source", "pass", []),
    ("P1 key_match2: slash-star replaced without the contains test (str::replace is the identity then)", "pass",
     [(KM2_HEAD, """pub fn key_match2(key1: &str, key2: &str) -> bool {
    let mut key2: Cow<str> = key2.replace("/*", "/.*").into();
""")]),
    ("P2 key_get2: the locals renamed (re -> rx, keys -> names, caps -> groups)", "pass",
     [(KG2_RE, """    let rx = Regex::new(r":[^/]+").unwrap();
    let names: Vec<_> = rx.find_iter(&key2).collect();
    let key2 = rx.replace_all(&key2, "([^/]+)").to_string();
    let key2 = format!("^{}$", key2);

    if let Ok(re2) = Regex::new(&key2) {
        if let Some(caps) = re2.captures(key1) {
            for (i, key) in names.iter().enumerate() {
                if path_var == &key.as_str()[1..] {""")]),
    ("P3 key_match4: `match re.captures(key1) { Some(caps) => { .. } None => false }` instead of if-let / else", "pass",
     [(KM4_IFLET, """    match re.captures(key1) { Some(caps) => {
        let matches: Vec<_> =
            caps.iter().skip(1).map(|m| m.unwrap().as_str()).collect();"""),
      (KM4_END, """        true
    } None => {
        false
    } }
}""")]),
    ("P4 key_match5: `match key1.find('?') { Some(i) => &key1[..i], None => key1 }` instead of if-let", "pass",
     [(KM5_CUT, """    let key1 = match key1.find('?') {
        Some(i) => &key1[..i],
        None => key1,
    };
""")]),
    ("P5 key_match5: the braces of the regex literal spelled as one-byte classes [{] [}]", "pass",
     [('Regex::new(r"(\\{[^/]+?\\})")', 'Regex::new(r"([{][^/]+?[}])")')]),
    ("P6 regex_match: the compiled expression bound to a local first", "pass",
     [(RM, """    let re = Regex::new(key2).unwrap();
    re.is_match(key1)""")]),
    ("P7 key_match4: the token bound to a local before the push", "pass",
     [(KM4_PUSH, """            let name = caps[0][1..caps[0].len() - 1].to_string();
            tokens.push(name);
            "([^/]+)".to_string()""")]),
    ("N1 (i) key_match2 without the `^` / `$` anchors", "fail",
     [(KM2_TAIL, """    key2 = MAT_B.replace_all(&key2, "[^/]+").to_string().into();

    regex_match(key1, &format!("{}", key2))""")]),
    ("N2 (ii) key_get2: `:[^/]+` -> `:[^/]*` (a lone colon becomes a placeholder)", "fail",
     [('let re = Regex::new(r":[^/]+").unwrap();', 'let re = Regex::new(r":[^/]*").unwrap();')]),
    ("N3 (iii) key_get2: the placeholder replaced by `(.+)` instead of `([^/]+)`", "fail",
     [('let key2 = re.replace_all(&key2, "([^/]+)").to_string();', 'let key2 = re.replace_all(&key2, "(.+)").to_string();')]),
    ("N4 (iv) key_match2: `/*` -> `/.+`", "fail",
     [(KM2_HEAD, KM2_HEAD.replace('"/.*"', '"/.+"'))]),
    ("N5 (v) key_match5 does not strip the query string", "fail", [(KM5_CUT, "")]),
    ("N6 (v') key_match5 strips at the LAST `?` (rfind: outside the translated subset)", "fail",
     [(KM5_CUT, KM5_CUT.replace("key1.find('?')", "key1.rfind('?')"))]),
    ("N7 (vi) key_match4 decides at the first repeated token", "fail",
     [(KM4_CMP, """                return *existing_value == value;""")]),
    ("N8 (vii) key_get2 returns the first capture whatever the name", "fail",
     [("""                if path_var == &key.as_str()[1..] {
                    return caps
                        .get(i + 1)""", """                if path_var == &key.as_str()[1..] {
                    return caps
                        .get(1)""")]),
    ("N9 (viii) regex_match with the arguments swapped", "fail",
     [(RM, "    Regex::new(key1).unwrap().is_match(key2)")]),
    ("N10 (ix) a compiled-regex cache keyed by the pattern text only, shared by key_match2 and key_match3", "fail",
     [("/// key_match2 determines", CACHE_ITEMS),
      (KM2_HEAD, KM2_HEAD.replace("-> bool {\n", "-> bool {\n    let pat = key2;\n")),
      (KM2_TAIL, KM2_TAIL.replace('regex_match(key1, &format!("^{}$", key2))', 'cached(pat, &format!("^{}$", key2)).is_match(key1)')),
      (KM3_HEAD, KM3_HEAD.replace("-> bool {\n", "-> bool {\n    let pat = key2;\n")),
      (KM3_TAIL, KM3_TAIL.replace('regex_match(key1, &format!("^{}$", key2))', 'cached(pat, &format!("^{}$", key2)).is_match(key1)'))]),
    ("N11 MAT_P lazy (stops at the FIRST closing brace)", "fail",
     [('Regex::new(r"\\{[^/]*\\}").unwrap()', 'Regex::new(r"\\{[^/]*?\\}").unwrap()')]),
    ("N12 key_match4: the token loses its first byte too (`{ab}` and `{cb}` become the same token)", "fail",
     [("tokens.push(caps[0][1..caps[0].len() - 1].to_string());", "tokens.push(caps[0][2..caps[0].len() - 1].to_string());")]),
]


def run(cmd, **kw):
    return subprocess.run(cmd, stdout=subprocess.PIPE, stderr=subprocess.STDOUT, text=True, **kw)


# (function, key1, key2[, path_var])
BATTERY = [
    ("key_match2", "/x/foo/1", "/foo/:id"), ("key_match2", "/foo/", "/foo/*"), ("key_match2", "/foo/bar", "/foo/*"),
    ("key_match2", "/foo/bar", "/foo/:"), ("key_match2", "/a/b", "/:x/:y"),
    ("key_match3", "/foo/a}b", "/foo/{x}b}"), ("key_match3", "/foo/baz", "/foo/{bar}"), ("key_match3", "/foo/bar", "/foo/*"),
    ("key_match5", "/foo/bar?status=1", "/foo/bar"), ("key_match5", "/a?b?c", "/a"), ("key_match5", "/p/c?x", "/p/{id}"),
    ("key_match4", "/parent/123/child/123/book/456", "/parent/{id}/child/{id}/book/{id}"),
    ("key_match4", "/parent/1/child/1", "/parent/{id}/child/{id}"), ("key_match4", "/a/b", "/{x}/{y}"), ("key_match4", "/1/2", "/{ab}/{cb}"),
    ("key_get2", "/alice/all", "/:/all", ""), ("key_get2", "/a/b/c", "/:x/c", "x"),
    ("key_get2", "/myid/using/myresid", "/:id/using/:resId", "resId"), ("key_get2", "/alice", "/:id", "id"),
    ("key_get3", "/myid/using/myresid", "/{id}/using/{resId}", "resId"), ("key_get3", "/a_b/c", "/{x}_{y}/c", "y"),
]
# regex_match against the class of PathMatch.parse_regex (its own model, regex_match_words, is refuted: see PcFmapGen.v)
RM_BATTERY = [("/foo/bar", "^/foo/[^/]+$"), ("/foo/bar/baz", "^/foo/[^/]+$"), ("/a", "^/.*$")]


def coq_text(s):
    return "(T \"%s\")" % s.replace('"', '""')


def witness():
    """first concrete input on which the hand model answers Some x and the translated function does not"""
    path = os.path.join(SCRATCH, "Witness.v")
    rows, descr = [], []
    for b in BATTERY:
        f, args = b[0], " ".join(coq_text(x) for x in b[1:])
        eq = "Bool.eqb" if f.startswith("key_match") else "teqb"
        rows.append("match PathMatch.%s %s with Some x => match gen_%s %s with Some y => %s x y | None => false end | None => true end"
                    % (f, args, f, args, eq))
        descr.append("%s(%s)" % (f, ", ".join(repr(x) for x in b[1:])))
    for k, p in RM_BATTERY:
        rows.append("match parse_regex %s with Some a => match gen_regex_match %s %s with Some y => Bool.eqb (is_some (amatch a %s)) y | None => false end | None => true end"
                    % (coq_text(p), coq_text(k), coq_text(p), coq_text(k)))
        descr.append("regex_match(%r, %r)" % (k, p))
    txt = ("From CV Require Import Model.Base Model.PathMatch Gen.Regex Gen.RegexSyntax Gen.FmapRt Gen.FmapGen.\n"
           "Eval vm_compute in [%s].\n" % ";\n ".join(rows))
    open(path, "w").write(txt)
    r = run(["timeout", "300", "coqc", "-Q", ".", "CV", path], cwd=COQ)
    m = re.search(r"=\s*\[([^\]]*)\]\s*:\s*list bool", r.stdout)
    if r.returncode != 0 or not m:
        em = re.search(r"Error:(.*?)(?:\n\n|\Z)", r.stdout, re.S)
        return "the battery does not typecheck any more (%s)" % (" ".join(em.group(1).split())[:110] if em else "?")
    vals = [x.strip() for x in m.group(1).split(";")]
    bad = [d for d, v in zip(descr, vals) if v == "false"]
    return ("translated code and hand model differ on " + bad[0]) if bad else "no difference on the fixed inputs"


def regenerate(repo):
    env = dict(os.environ, VERIF_REPO=repo)
    return run([sys.executable, os.path.join(HERE, "rs2coq_fmap.py"), os.path.join(COQ, "Gen")], env=env)


def main():
    only = sys.argv[1:]
    results = []
    part = "PcFmapGen"
    try:
        for label, expect, edits in VARIANTS:
            if only and not any(label.startswith(o) for o in only):
                continue
            shutil.rmtree(SCRATCH, ignore_errors=True)
            shutil.copytree("/repo/src", os.path.join(SCRATCH, "src"))
            path = os.path.join(SCRATCH, FMAP)
            src = open(path, encoding="utf-8").read()
            for old, new in edits:
                assert src.count(old) == 1, (label, old, src.count(old))
                src = src.replace(old, new)
            open(path, "w", encoding="utf-8").write(src)
            regenerate(SCRATCH)
            mk = run(["timeout", "1200", "make", "PinChecks/%s.vo" % part], cwd=COQ)
            ok = mk.returncode == 0
            why = ""
            if not ok:
                m = re.search(r'File "\./PinChecks/%s\.v", line (\d+).*?\n(Error:.*?)(?:\n\n|\nmake)' % part, mk.stdout, re.S)
                if m:
                    thm = ""
                    lines = open(os.path.join(COQ, "PinChecks", part + ".v")).read().split("\n")
                    for k in range(int(m.group(1)) - 1, -1, -1):
                        mm = re.match(r"(?:Theorem|Lemma|Example|Corollary)\s+(\w+)", lines[k])
                        if mm:
                            thm = mm.group(1)
                            break
                    why = "%s: %s" % (thm, " ".join(m.group(2).split())[:90])
                else:
                    why = " ".join(mk.stdout.strip().split("\n")[-3:])[:200]
            gen = open(os.path.join(COQ, "Gen", "FmapGen.v")).read()
            note = ""
            fm = re.search(r"\(\* translation of (\w+) failed: (.*?) \*\)", gen, re.S)
            if fm:
                note = " [untranslatable %s: %s]" % (fm.group(1), " ".join(fm.group(2).split())[:140])
            if not ok and not fm:
                note += " [witness: %s]" % witness()
            verdict = "pass" if ok else "fail"
            flag = "as expected" if verdict == expect else "UNEXPECTED"
            print("%-4s (%s) %s%s%s" % (verdict.upper(), flag, label, (" -> " + str(why)) if why else "", note))
            sys.stdout.flush()
            results.append(verdict == expect)
    finally:
        regenerate("/repo")
        mk = run(["timeout", "1200", "make", "PinChecks/PcFmapGen.vo"], cwd=COQ)
        print("restored from /repo:", "build ok" if mk.returncode == 0 else "BUILD FAILED")
        shutil.rmtree(SCRATCH, ignore_errors=True)
    print("%d/%d variants behaved as expected" % (sum(results), len(results)))
    return 0 if all(results) and mk.returncode == 0 else 1


if __name__ == "__main__":
    sys.exit(main())
