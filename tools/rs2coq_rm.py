#!/usr/bin/env python3
"""rs2coq, part 11: src/rbac/default_role_manager.rs (DefaultRoleManager, link_if_matches and the bounded BFS of
`mod matching_bfs`) -> coq/Gen/RoleManagerGen.v over the operations of coq/Gen/Petgraph.v (petgraph StableDiGraph,
FixedBitSet visit map, VecDeque, HashMap - the TRUSTED restatement of the third-party API in terms of the model's
`mgraph`), coq/Gen/RustIter.v (Option, iterator adaptors with closures, `while let`, Result, HashSet) and
coq/Gen/RustVec.v (`flow`, `rs_for`, `rs_fold`, `rs_fn`).  coq/PinChecks/PcRoleManagerGen.v proves the translated
functions equal to the role-manager model coq/Model/RoleGraphM.v (lemmas in coq/Proofs/PetgraphP.v).
Kept in its own module; rs2coq.py's main() calls main() here.

Re-read from /repo (VERIF_REPO) on every run.  Everything is translated from the source text: the two structs
(-> Records with one setter per field), the constant DEFAULT_DOMAIN, and every `fn` outside `#[cfg(test)]`.

`#[cfg(feature = "cached")]` (the has_link result cache, modelled separately in Model/RmCache.v): the cache field and
the statements `self.cache.clear()`, `self.cache.set(..)`, `let cache_key = {..}`, `if let Some(res) = self.cache.get(..)
{ return res; }` are no-ops on the graph state; each is replaced by a Coq comment at its position.  Any other
statement under that attribute is rejected.

Supported subset (anything else: Untranslatable -> `gen_rm_translated := false`)
  items        const X: &str = "..";   struct S { fields }   enum EdgeVariant { Link, Match }   fn / methods
  statements   let [mut] x [: T] = e;   place = e;   place |= e;  place += e;  place -= e;   e;
               return [e];  break;  continue;   for x in e { .. }   while let Some(x) = e { .. }
               if c { .. } [else ..]   if let Some(x) = e { .. } [else ..]   a final expression
  expressions  literals, variables, self.field, paths (EdgeVariant::X, petgraph::Direction::X, DEFAULT_DOMAIN)
               ! & &mut * == != < <= > >= + - && ||    e[i] (graph node / edge weight, HashMap)
               Some(e) None Ok(e) Err(e) RbacError::NotFound(e) () vec![..] format!("..{}..", e..) matches!(e, P)
               if / if let / match (on Option, EdgeVariant, hash_map::Entry) as values, { block }
               closures |x| e, |&x| e, |_, _| e, move |x| e, |mut acc, x| { ..; acc }  (arguments of adaptors)
               S { field [: e], .. }   calls of the translated functions / methods, f(a, b) for a MatchingFn f
  methods      Option: unwrap unwrap_or unwrap_or_default map map_or is_some
               iterators: filter filter_map flat_map map chain find any fold collect iter into_iter
               HashMap: entry(k).or_default() get get_mut(k).unwrap() contains_key keys clear [k], Entry match / insert
               StableDiGraph: add_node node_indices node_weights find_edge add_edge update_edge remove_edge
                 edges_directed neighbors_directed visit_map;  edge.weight() source() target()
               FixedBitSet visit;  VecDeque push_front push_back pop_front;  HashSet extend into_iter
               clone to_owned into to_string is_empty  (identity / emptiness on strings)

Translation.  A function without `&mut`, `let mut`, loops or assignments is a Gallina EXPRESSION (early `return` in
an `if` becomes the `then` branch); its type is `T`, or `option T` when some operation in it can panic.  Any other
function is a term `rs_fn (.. : flow unit R) : option R` in continuation-passing style as in part 3: mutable locals,
`self` of a `&mut self` method and `&mut` parameters are Coq variables re-bound by every assignment / mutating call;
the result of a `&mut self` method is `(self, value)`.  A `&mut` borrow of a map entry (`entry(k).or_default()`,
`get_mut(k).unwrap()`) is a local COPY that is written back to the map after every mutation (the borrow checker
guarantees that nothing else reads the entry meanwhile).  Loops carry the tuple of the variables they assign.
`None` / `LPanic` = a panic (invalid node index, missing key, unwrap of None, usize underflow) or, for `while let`,
more than `fuel` iterations.  Functions that iterate over a hash container take the iteration order `ord`."""
import os
import re
import sys

sys.path.insert(0, os.path.dirname(os.path.abspath(__file__)))
import pins  # noqa: E402

RM_FILE = "src/rbac/default_role_manager.rs"


class Untranslatable(Exception):
    pass


# ====================================================================== lexer
TOK = re.compile(r"""\s*(?:(//[^\n]*)|(/\*.*?\*/)|(\#!?\[(?:[^\[\]]|\[[^\]]*\])*\])|("(?:[^"\\]|\\.)*")|('(?:[^'\\]|\\.)')|(\d+)"""
                 r"""|([A-Za-z_]\w*(?:::[A-Za-z_]\w*)*!?)|(::<)"""
                 r"""|(\|\||&&|==|!=|<=|>=|\|=|\+=|-=|=>|->|\.\.|[{}()\[\];=!&.,<>*+\-:?|]))""", re.S)


def lex(src):
    out = []
    i = 0
    n = len(src)
    while i < n:
        if src[i:].strip() == "":
            break
        m = TOK.match(src, i)
        if not m:
            raise Untranslatable("cannot tokenise at: %r" % src[i:i + 30])
        i = m.end()
        if m.group(1) or m.group(2):
            continue
        for k, kind in ((3, "attr"), (4, "str"), (5, "chr"), (6, "int"), (7, "id"), (8, "turbo"), (9, "op")):
            if m.group(k) is not None:
                out.append((kind, m.group(k)))
                break
    return out


# ===================================================================== parser
# AST
#   block = ("block", [stmt], final-expression | None)
#   stmt  = ("let", pat, e) | ("expr", e) | ("assign", op, lhs, e) | ("ret", e | None) | ("break",) | ("continue",)
#         | ("for", pat, e, block) | ("whilelet", pat, e, block) | ("cfg", attr-text, stmt)
#   e     = ("lit", b) | ("int", n) | ("str", s) | ("unit",) | ("var", x) | ("path", p) | ("call", callee, [e])
#         | ("mcall", recv, name, [e]) | ("field", e, f) | ("index", e, i) | ("not", e) | ("bin", op, a, b)
#         | ("closure", [pat], body) | ("if", cond, block, block | None) | ("match", e, [(pat, e)]) | block
#         | ("struct", name, [(field, e)]) | ("vec", [e]) | ("format", s, [e]) | ("matches", e, pat)
#   cond  = ("cond", e) | ("iflet", pat, e)
#   pat   = ("pvar", x, mutable) | ("pwild",) | ("pctor", path, [pat]) | ("ppath", path)
KEYWORDS = ("let", "return", "else", "match", "while", "for", "loop", "mut", "fn", "move", "in", "if", "break", "continue")


class RP:
    def __init__(self, toks):
        self.t = toks
        self.i = 0

    def peek(self, k=0):
        return self.t[self.i + k] if self.i + k < len(self.t) else ("eof", "")

    def eat(self, val=None):
        tk = self.peek()
        if val is not None and tk[1] != val:
            raise Untranslatable("expected %r, found %r" % (val, tk[1]))
        if tk[0] == "eof":
            raise Untranslatable("unexpected end of the body")
        self.i += 1
        return tk

    def at(self, val):
        return self.peek()[1] == val and self.peek()[0] in ("op", "id")

    # ---- patterns
    def pattern(self):
        kind, v = self.peek()
        if (kind, v) == ("op", "&"):
            self.eat()
            return self.pattern()
        if (kind, v) == ("id", "mut"):
            self.eat()
            k2, x = self.eat()
            if k2 != "id" or "::" in x:
                raise Untranslatable("pattern mut " + x)
            return ("pvar", x, True)
        if (kind, v) == ("id", "_"):
            self.eat()
            return ("pwild",)
        if kind == "id" and not v.endswith("!"):
            self.eat()
            if self.at("("):
                self.eat()
                subs = []
                while not self.at(")"):
                    subs.append(self.pattern())
                    if self.at(","):
                        self.eat()
                self.eat(")")
                return ("pctor", v, subs)
            if "::" in v or v == "None":
                return ("ppath", v)
            return ("pvar", v, False)
        raise Untranslatable("pattern starting with %r" % v)

    # ---- expressions
    def expr(self, nostruct=False):
        e = self.and_(nostruct)
        while self.peek() == ("op", "||"):
            self.eat()
            e = ("bin", "||", e, self.and_(nostruct))
        return e

    def and_(self, nostruct):
        e = self.cmp(nostruct)
        while self.peek() == ("op", "&&"):
            self.eat()
            e = ("bin", "&&", e, self.cmp(nostruct))
        return e

    def cmp(self, nostruct):
        a = self.add(nostruct)
        if self.peek()[0] == "op" and self.peek()[1] in ("==", "!=", "<", "<=", ">", ">="):
            op = self.eat()[1]
            return ("bin", op, a, self.add(nostruct))
        return a

    def add(self, nostruct):
        a = self.unary(nostruct)
        while self.peek()[0] == "op" and self.peek()[1] in ("+", "-"):
            op = self.eat()[1]
            a = ("bin", op, a, self.unary(nostruct))
        return a

    def unary(self, nostruct):
        if self.peek() == ("op", "!"):
            self.eat()
            return ("not", self.unary(nostruct))
        if self.peek() == ("op", "&"):          # a reference: identity
            self.eat()
            if self.peek() == ("id", "mut"):
                self.eat()
            return self.unary(nostruct)
        if self.peek() == ("op", "*"):          # a dereference: identity
            self.eat()
            return self.unary(nostruct)
        return self.postfix(nostruct)

    def args(self):
        self.eat("(")
        out = []
        while not self.at(")"):
            out.append(self.expr())
            if self.at(","):
                self.eat()
        self.eat(")")
        return out

    def skip_turbofish(self):
        depth = 1
        while depth:
            kind, v = self.eat()
            if v == "<":
                depth += 1
            elif v == ">":
                depth -= 1

    def postfix(self, nostruct):
        e = self.primary(nostruct)
        while True:
            if self.peek() == ("op", "."):
                self.eat()
                kind, name = self.eat()
                if kind != "id" or "::" in name or name.endswith("!"):
                    raise Untranslatable("method / field name " + name)
                if self.peek()[0] == "turbo":
                    self.eat()
                    self.skip_turbofish()
                if self.at("("):
                    e = ("mcall", e, name, self.args())
                else:
                    e = ("field", e, name)
            elif self.peek() == ("op", "["):
                self.eat()
                ix = self.expr()
                self.eat("]")
                e = ("index", e, ix)
            elif self.peek() == ("op", "(") and e[0] in ("mcall", "call", "var"):
                e = ("call", e, self.args())
            elif self.peek() == ("op", "?"):
                raise Untranslatable("the ? operator")
            else:
                return e

    def closure(self):
        if self.peek() == ("id", "move"):
            self.eat()
        if self.peek() == ("op", "||"):
            self.eat()
            params = []
        else:
            self.eat("|")
            params = []
            while not self.at("|"):
                params.append(self.pattern())
                if self.at(","):
                    self.eat()
            self.eat("|")
        body = self.block() if self.at("{") else self.expr()
        return ("closure", params, body)

    def primary(self, nostruct):
        kind, v = self.peek()
        if kind == "str":
            self.eat()
            return ("str", pins.rust_unescape(v[1:-1]))
        if kind == "int":
            self.eat()
            return ("int", v)
        if kind == "op" and v == "(":
            self.eat()
            if self.at(")"):
                self.eat()
                return ("unit",)
            e = self.expr()
            if self.at(","):
                raise Untranslatable("tuple expression")
            self.eat(")")
            return e
        if kind == "op" and v == "{":
            return self.block()
        if (kind == "op" and v in ("|", "||")) or (kind, v) == ("id", "move"):
            return self.closure()
        if kind != "id":
            raise Untranslatable("expression starting with %r" % v)
        if v == "if":
            return self.if_()
        if v == "match":
            return self.match_()
        if v in ("true", "false"):
            self.eat()
            return ("lit", v)
        if v == "vec!":
            self.eat()
            self.eat("[")
            items = []
            while not self.at("]"):
                items.append(self.expr())
                if self.at(","):
                    self.eat()
                elif self.at(";"):
                    raise Untranslatable("vec![x; n]")
            self.eat("]")
            return ("vec", items)
        if v == "matches!":
            self.eat()
            self.eat("(")
            e = self.expr()
            self.eat(",")
            p = self.pattern()
            self.eat(")")
            return ("matches", e, p)
        if v == "format!":
            self.eat()
            self.eat("(")
            k2, s = self.eat()
            if k2 != "str":
                raise Untranslatable("format! without a literal")
            items = []
            while self.at(","):
                self.eat()
                if self.at(")"):
                    break
                items.append(self.expr())
            self.eat(")")
            return ("format", pins.rust_unescape(s[1:-1]), items)
        if v.endswith("!"):
            raise Untranslatable("macro " + v)
        if v in KEYWORDS:
            raise Untranslatable("unexpected keyword " + v)
        self.eat()
        if self.peek()[0] == "turbo":
            self.eat()
            self.skip_turbofish()
        if self.at("(") and ("::" in v or v in ("Some", "Ok", "Err")):
            return ("call", ("path", v), self.args())
        if self.at("{") and not nostruct and v[0].isupper() and self.peek(1)[0] in ("id", "attr") and \
                (self.peek(2)[1] in (":", ",", "}") or self.peek(1)[0] == "attr"):
            return self.struct_lit(v)
        if "::" in v or v in ("None", "Self") or v[0].isupper():
            return ("path", v)
        return ("var", v)

    def struct_lit(self, name):
        self.eat("{")
        fields = []
        while not self.at("}"):
            skipped = None
            while self.peek()[0] == "attr":
                skipped = self.eat()[1]
            kind, f = self.eat()
            if kind != "id":
                raise Untranslatable("struct literal field " + f)
            if self.at(":"):
                self.eat()
                e = self.expr()
            else:
                e = ("var", f)
            if skipped is None:
                fields.append((f, e))
            elif not cached_attr(skipped):
                raise Untranslatable("attribute %s on a struct literal field" % skipped)
            if self.at(","):
                self.eat()
        self.eat("}")
        return ("struct", name, fields)

    def if_(self):
        self.eat("if")
        if self.peek() == ("id", "let"):
            self.eat()
            pat = self.pattern()
            self.eat("=")
            cond = ("iflet", pat, self.expr(nostruct=True))
        else:
            cond = ("cond", self.expr(nostruct=True))
        th = self.block()
        el = None
        if self.peek() == ("id", "else"):
            self.eat()
            if self.peek() == ("id", "if"):
                el = ("block", [], self.if_())
            else:
                el = self.block()
        return ("if", cond, th, el)

    def match_(self):
        self.eat("match")
        scrut = self.expr(nostruct=True)
        self.eat("{")
        arms = []
        while not self.at("}"):
            pat = self.pattern()
            self.eat("=>")
            if self.peek() == ("id", "return"):
                self.eat()
                val = None if (self.at(",") or self.at("}")) else self.expr()
                body = ("block", [("ret", val)], None)
            else:
                body = self.expr()
            arms.append((pat, body))
            if self.at(","):
                self.eat()
        self.eat("}")
        return ("match", scrut, arms)

    def block(self):
        self.eat("{")
        b = self.seq()
        self.eat("}")
        return b

    def skip_type(self):
        depth = 0
        while True:
            kind, v = self.peek()
            if kind == "eof" or (depth == 0 and v == "=" and kind == "op"):
                return
            if v == "<":
                depth += 1
            elif v == ">":
                depth -= 1
            self.eat()

    def stmt_after_attr(self):
        """one statement (used after #[cfg(..)]): returns a stmt"""
        stmts, final = [], None
        b = self.seq(one=True)
        if b[2] is not None:
            return ("expr", b[2])
        if len(b[1]) != 1:
            raise Untranslatable("attribute in front of nothing")
        return b[1][0]

    def seq(self, one=False):
        stmts, final = [], None
        while not self.at("}") and self.peek()[0] != "eof":
            if final is not None:
                raise Untranslatable("statement after the value of a block")
            if one and stmts:
                break
            kind, v = self.peek()
            if kind == "attr":
                self.eat()
                st = self.stmt_after_attr()
                stmts.append(("cfg", v, st))
            elif (kind, v) == ("id", "let"):
                self.eat()
                pat = self.pattern()
                if self.at(":"):
                    self.eat()
                    self.skip_type()
                self.eat("=")
                e = self.expr()
                self.eat(";")
                stmts.append(("let", pat, e))
            elif (kind, v) == ("id", "return"):
                self.eat()
                e = None if (self.at(";") or self.at("}")) else self.expr()
                if self.at(";"):
                    self.eat()
                stmts.append(("ret", e))
            elif (kind, v) == ("id", "break"):
                self.eat()
                if self.at(";"):
                    self.eat()
                stmts.append(("break",))
            elif (kind, v) == ("id", "continue"):
                self.eat()
                if self.at(";"):
                    self.eat()
                stmts.append(("continue",))
            elif (kind, v) == ("id", "for"):
                self.eat()
                pat = self.pattern()
                self.eat("in")
                it = self.expr(nostruct=True)
                stmts.append(("for", pat, it, self.block()))
            elif (kind, v) == ("id", "while"):
                self.eat()
                self.eat("let")
                pat = self.pattern()
                self.eat("=")
                sc = self.expr(nostruct=True)
                stmts.append(("whilelet", pat, sc, self.block()))
            elif (kind, v) == ("id", "loop"):
                raise Untranslatable("loop { }")
            else:
                e = self.expr()
                if self.peek()[0] == "op" and self.peek()[1] in ("=", "|=", "+=", "-="):
                    op = self.eat()[1]
                    rhs = self.expr()
                    if self.at(";"):
                        self.eat()
                    elif not self.at("}"):
                        raise Untranslatable("assignment without ;")
                    stmts.append(("assign", op, e, rhs))
                elif self.at(";"):
                    self.eat()
                    stmts.append(("expr", e))
                elif e[0] in ("if", "match", "block") and not self.at("}"):
                    stmts.append(("expr", e))          # a block-like expression statement needs no ;
                else:
                    final = e
        return ("block", stmts, final)


def cached_attr(attr):
    return re.sub(r"\s+", "", attr) == '#[cfg(feature="cached")]'


# ====================================================================== types
# atoms: text bool nat unit node edgeidx edgeref ekind graph mfun vmap dir err any
# ("opt", T) ("vec", T) ("hm", T) ("deque", T) ("hset", T) ("result", T) ("struct", Name)
# ("entry", place, key-term, T)   pseudo-value of `map.entry(k)`
STRUCTS = {}     # Rust name -> {"coq": record name, "prefix": field prefix, "fields": [(name, type)]}
STRUCT_COQ = {"DefaultRoleManager": ("rm_state", "rm_"), "Bfs": ("bfs_state", "bfs_")}


def split_top(s, sep=","):
    parts, depth, cur = [], 0, ""
    i = 0
    while i < len(s):
        c = s[i]
        if c == "-" and s[i:i + 2] == "->":
            cur += "->"
            i += 2
            continue
        if c in "<([{":
            depth += 1
        elif c in ">)]}":
            depth -= 1
        if c == sep and depth == 0:
            parts.append(cur)
            cur = ""
        else:
            cur += c
        i += 1
    if cur.strip():
        parts.append(cur)
    return parts


def rust_type(s):
    """type from its source text"""
    s = re.sub(r"\s+", "", s)
    s = re.sub(r"^&(?:'\w+)?(?:mut)?", "", s)
    simple = {"str": "text", "String": "text", "usize": "nat", "bool": "bool", "()": "unit",
              "NodeIndex<u32>": "node", "NodeIndex": "node", "StableDiGraph<String,EdgeVariant>": "graph",
              "MatchingFn": "mfun", "fn(&str,&str)->bool": "mfun", "FixedBitSet": "vmap", "EdgeVariant": "ekind"}
    if s in simple:
        return simple[s]
    if s == "Self":
        return ("struct", "Self")
    if s in STRUCT_COQ:
        return ("struct", s)
    for head, tag in (("Option<", "opt"), ("Vec<", "vec"), ("VecDeque<", "deque"), ("Result<", "result"), ("HashSet<", "hset")):
        if s.startswith(head) and s.endswith(">"):
            return (tag, rust_type(s[len(head):-1]))
    if s.startswith("HashMap<String,") and s.endswith(">"):
        return ("hm", rust_type(s[len("HashMap<String,"):-1]))
    m = re.match(r"Box<dynIterator<Item=(.*)>\+'_>$", s)
    if m:
        return ("vec", rust_type(m.group(1)))
    raise Untranslatable("type " + s)


def coq_ty(t, atom=False):
    simple = {"text": "text", "bool": "bool", "nat": "nat", "unit": "unit", "node": "node_index", "edgeidx": "edge_index",
              "edgeref": "medge", "ekind": "ekind", "graph": "mgraph", "mfun": "mfun", "vmap": "visit_map",
              "dir": "direction", "err": "rbac_error"}
    if isinstance(t, str):
        if t in simple:
            return simple[t]
        raise Untranslatable("type %s has no Coq counterpart" % t)
    tag = t[0]
    if tag == "struct":
        return STRUCTS[t[1]]["coq"]
    if tag in ("opt", "vec", "deque", "hset", "hm"):
        s = "%s %s" % ({"opt": "option", "vec": "list", "deque": "list", "hset": "list", "hm": "hashmap"}[tag], coq_ty(t[1], True))
    elif tag == "result":
        s = "rs_result %s rbac_error" % coq_ty(t[1], True)
    else:
        raise Untranslatable("type %r has no Coq counterpart" % (t,))
    return "(%s)" % s if atom else s


def tyname(t):
    if isinstance(t, str):
        return t
    if t[0] == "struct":
        return t[1]
    if t[0] == "entry":
        return "Entry<%s>" % tyname(t[3])
    return "%s<%s>" % (t[0], tyname(t[1]))


def unify(a, b):
    """the common type of a and b ("any" = not yet known), None when they differ"""
    if a == "any":
        return b
    if b == "any":
        return a
    if isinstance(a, tuple) and isinstance(b, tuple) and a[0] == b[0] and a[0] in ("opt", "vec", "hm", "deque", "hset", "result"):
        u = unify(a[1], b[1])
        return None if u is None else (a[0], u)
    if a == b:
        return a
    # a Vec / VecDeque / iterator are all lists
    if isinstance(a, tuple) and isinstance(b, tuple) and {a[0], b[0]} <= {"vec", "deque"}:
        u = unify(a[1], b[1])
        return None if u is None else ("vec", u)
    return None


def need(a, b, what):
    u = unify(a, b)
    if u is None:
        raise Untranslatable("%s: a %s where a %s is expected" % (what, tyname(a), tyname(b)))
    return u


# ===================================================================== places
class Place:
    """something that can be assigned: kind = var (a Coq variable) | field (of a struct place) | alias (a local copy
       of a map entry borrowed with &mut, written back to `under` after every mutation) | hmval (the value bound
       to `key` in the map `parent`, known to be present)"""

    def __init__(self, kind, ty, coq=None, parent=None, field=None, key=None, under=None, rust=None):
        self.kind, self.ty, self.coq, self.parent, self.field, self.key, self.under, self.rust = \
            kind, ty, coq, parent, field, key, under, rust

    def read(self):
        if self.kind in ("var", "alias"):
            return self.coq
        if self.kind == "field":
            st = STRUCTS[self.parent.ty[1]]
            return "(%s%s %s)" % (st["prefix"], self.field, self.parent.read())
        raise Untranslatable("read of a map entry that is not borrowed")

    def write(self, new, rest):
        """Coq term: the place receives `new`, then `rest`"""
        if self.kind == "var":
            if new == self.coq:
                return rest
            return "(let %s := %s in\n %s)" % (self.coq, new, rest)
        if self.kind == "alias":
            inner = self.under.write(self.coq, rest)
            if new == self.coq:
                return inner
            return "(let %s := %s in\n %s)" % (self.coq, new, inner)
        if self.kind == "field":
            st = STRUCTS[self.parent.ty[1]]
            return self.parent.write("(set_%s%s %s %s)" % (st["prefix"], self.field, self.parent.read(), new), rest)
        if self.kind == "hmval":
            return self.parent.write("(hm_insert %s %s %s)" % (self.parent.read(), self.key, new), rest)
        raise Untranslatable("write to a " + self.kind)

    def roots(self):
        """the Coq variables re-bound by a write"""
        if self.kind == "var":
            return [self.coq]
        if self.kind == "alias":
            return [self.coq] + self.under.roots()
        return self.parent.roots()


class Var:
    """a Rust variable in scope: its type, the Coq term that holds its value, whether it can be assigned, and for
       a `&mut` borrow of a map entry the place it stands for"""

    def __init__(self, ty, coq, mutable=False, place=None, depth=0):
        self.ty, self.coq, self.mutable, self.place, self.depth = ty, coq, mutable, place, depth


class Func:
    def __init__(self, rust, owner, coq, self_kind, params, ret, body):
        self.rust, self.owner, self.coq, self.self_kind, self.params, self.ret, self.body = \
            rust, owner, coq, self_kind, params, ret, body     # params: [(name, type, is_mut_ref)]
        self.mode = None          # "pure" | "flow"
        self.partial = False      # pure mode: the result is an option
        self.uses_ord = False
        self.uses_fuel = False
        self.done = False
        self.text = None

    def outs(self):
        """what a flow-mode function returns besides its value: the final `self` of a &mut self method, the
           final values of its &mut parameters"""
        o = []
        if self.self_kind == "mut":
            o.append(("self", ("struct", self.owner)))
        o += [(x, t) for x, t, m in self.params if m]
        return o


BUILTIN_MUT = ("add_node", "add_edge", "update_edge", "remove_edge", "push_back", "push_front", "pop_front", "visit",
               "extend", "insert", "clear")
IDENTITY = ("clone", "to_owned", "into", "iter", "into_iter", "collect", "to_string", "as_str")


def is_atomic(t):
    return re.match(r"^[\w']+$", t) is not None


def children(node):
    """sub-nodes of an AST node, closures excluded"""
    if isinstance(node, list):
        for x in node:
            yield x
    elif isinstance(node, tuple) and node and node[0] not in ("closure", "cfg"):
        for x in node[1:]:
            if isinstance(x, (tuple, list)):
                yield x


def contains(node, pred):
    if isinstance(node, tuple) and node and isinstance(node[0], str) and pred(node):
        return True
    return any(contains(c, pred) for c in children(node))


def has_control(node):
    return contains(node, lambda n: n[0] in ("ret", "break", "continue", "for", "whilelet"))


def pat_vars(pat):
    if pat[0] == "pvar":
        return [pat[1]]
    if pat[0] == "pctor":
        return [x for p in pat[2] for x in pat_vars(p)]
    return []


# ==================================================================== emitter
class Em:
    """translation of ONE function; `unit` holds the other functions (translated on demand)"""

    def __init__(self, unit, fn):
        self.u = unit
        self.fn = fn
        self.n = 0
        self.loops = []          # carried Coq variables of the enclosing loops; None = the body of a closure
        self.panic = "LPanic"
        self.depth = 0
        self.plain = False       # inside the attempt to translate an `if` as a `let`

    def fresh(self, base="t"):
        self.n += 1
        return "%s%d" % (base, self.n)

    def panic_term(self):
        if self.plain:
            raise NotPlain()
        return self.panic

    # ------------------------------------------------------------ scopes
    def bind(self, env, x, ty, mutable=False, place_of=None):
        """a new binding of the Rust variable x: (env', Coq name)"""
        if x in env and not (env[x].depth == self.depth and env[x].place is None and not env[x].mutable):
            coq = "v_%s'%s" % (x, self.fresh(""))
        else:
            coq = "v_" + x
        env2 = dict(env)
        v = Var(ty, coq, mutable, None, self.depth)
        if place_of is not None:
            v.place = place_of(coq)
        elif mutable:
            v.place = Place("var", ty, coq=coq, rust=x)
        env2[x] = v
        return env2, coq

    def bind_pat(self, env, pat, ty, mutable=False):
        """pattern of a let / closure parameter / loop variable: (env', Coq binder)"""
        if pat[0] == "pwild":
            return env, "_"
        if pat[0] == "pvar":
            return self.bind(env, pat[1], ty, mutable or pat[2])
        raise Untranslatable("pattern " + pat[0])

    def tup(self, names):
        if not names:
            return "tt"
        if len(names) == 1:
            return names[0]
        return "(%s)" % ", ".join(names)

    def lam_pat(self, names):
        if not names:
            return "(_ : unit)"
        if len(names) == 1:
            return names[0]
        return "'" + self.tup(names)

    def match_pat(self, names):
        return "_" if not names else self.tup(names)

    # ------------------------------------------------------------ places
    def resolve_place(self, e, env, declared=()):
        if e[0] == "var":
            if e[1] in declared or e[1] not in env:
                return None
            return env[e[1]].place
        if e[0] == "field":
            parent = self.resolve_place(e[1], env, declared)
            if parent is None or not (isinstance(parent.ty, tuple) and parent.ty[0] == "struct"):
                return None
            for f, t in STRUCTS[parent.ty[1]]["fields"]:
                if f == e[2]:
                    return Place("field", t, parent=parent, field=f)
            raise Untranslatable("no field %s in %s" % (e[2], parent.ty[1]))
        return None

    def type_of(self, e, env):
        """type of a pure expression, None when it cannot be typed here"""
        saved = (self.n, self.fn.uses_ord, self.fn.uses_fuel)
        try:
            return self.pure(e, env)[0]
        except (Untranslatable, NotPlain, KeyError):
            return None
        finally:
            self.n, self.fn.uses_ord, self.fn.uses_fuel = saved

    def user_method(self, recv, name, env, declared=()):
        if recv[0] == "var" and recv[1] in declared:
            return None
        t = self.type_of(recv, env)
        if isinstance(t, tuple) and t[0] == "struct":
            return self.u.funcs.get((t[1], name))
        return None

    def user_fn(self, callee, env):
        if callee[0] == "var" and callee[1] not in env:
            name = callee[1]
        elif callee[0] == "path":
            name = callee[1]
        else:
            return None
        parts = [p for p in name.split("::") if p not in ("matching_bfs", "super", "self", "crate")]
        if len(parts) == 2 and parts[0] in STRUCT_COQ or (len(parts) == 2 and parts[0] == "Self"):
            owner = self.fn.owner if parts[0] == "Self" else parts[0]
            return self.u.funcs.get((owner, parts[1]))
        if len(parts) == 1:
            return self.u.funcs.get((None, parts[0]))
        return None

    # ---------------------------------------------------------- mutation analysis
    def mut_roots(self, node, env, declared=frozenset()):
        """Coq variables (bound outside `node`) that executing `node` may re-bind"""
        out = set()

        def roots_of(e, decl):
            if e[0] == "var" and e[1] not in decl and e[1] in env and isinstance(env[e[1]].ty, tuple) and env[e[1]].ty[0] == "entry":
                return set(env[e[1]].ty[1].roots())
            p = self.resolve_place(e, env, decl)
            return set(p.roots()) if p is not None else set()

        def base_map(e):
            # the map at the bottom of a borrow chain  m.entry(k).or_default().entry(k2) / m.get_mut(k).unwrap()
            while e[0] == "mcall" and e[2] in ("entry", "or_default", "get_mut", "unwrap"):
                e = e[1]
            return e

        def walk(n, decl):
            if isinstance(n, list):
                for x in n:
                    walk(x, decl)
                return
            if not isinstance(n, tuple) or not n or n[0] in ("closure", "cfg"):
                return
            k = n[0]
            if k == "block":
                d = set(decl)
                for st in n[1]:
                    walk(st, frozenset(d))
                    if st[0] == "let":
                        d.update(pat_vars(st[1]))
                if n[2] is not None:
                    walk(n[2], frozenset(d))
                return
            if k in ("for", "whilelet"):
                walk(n[2], decl)
                walk(n[3], frozenset(set(decl) | set(pat_vars(n[1]))))
                return
            if k == "if" and n[1][0] == "iflet":
                walk(n[1][2], decl)
                walk(n[2], frozenset(set(decl) | set(pat_vars(n[1][1]))))
                if n[3] is not None:
                    walk(n[3], decl)
                return
            if k == "match":
                walk(n[1], decl)
                for pat, body in n[2]:
                    walk(body, frozenset(set(decl) | set(pat_vars(pat))))
                return
            if k == "assign":
                out.update(roots_of(n[2], decl))
                walk(n[3], decl)
                return
            if k == "mcall":
                recv, name, args = n[1], n[2], n[3]
                f = self.user_method(recv, name, env, decl)
                if f is not None:
                    if f.self_kind == "mut":
                        out.update(roots_of(recv, decl))
                    for (x, t, m), a in zip(f.params, args):
                        if m:
                            out.update(roots_of(a, decl))
                elif name in BUILTIN_MUT:
                    out.update(roots_of(recv, decl))
                elif name in ("or_default", "get_mut"):
                    out.update(roots_of(base_map(n), decl))
                walk(recv, decl)
                walk(args, decl)
                return
            if k == "call":
                f = self.user_fn(n[1], env)
                if f is not None:
                    for (x, t, m), a in zip(f.params, n[2]):
                        if m:
                            out.update(roots_of(a, decl))
                else:
                    walk(n[1], decl)
                walk(n[2], decl)
                return
            for c in children(n):
                walk(c, decl)

        walk(node, frozenset(declared))
        return out

    def eff(self, e, env):
        """does evaluating the expression e mutate something / transfer control (closures excluded)"""
        k = e[0]
        if k == "mcall":
            recv, name, args = e[1], e[2], e[3]
            if self.eff(recv, env) or any(self.eff(a, env) for a in args):
                return True
            f = self.user_method(recv, name, env)
            if f is not None:
                return f.self_kind == "mut" or any(m for _, _, m in f.params)
            if name in ("or_default", "get_mut"):
                return True
            if name in BUILTIN_MUT:
                if self.resolve_place(recv, env) is not None:
                    return True
                t = self.type_of(recv, env)
                return isinstance(t, tuple) and t[0] == "entry"
            return False
        if k == "call":
            f = self.user_fn(e[1], env)
            if f is not None and any(m for _, _, m in f.params):
                return True
            return (f is None and self.eff(e[1], env)) or any(self.eff(a, env) for a in e[2])
        if k == "not":
            return self.eff(e[1], env)
        if k == "bin":
            return self.eff(e[2], env) or self.eff(e[3], env)
        if k in ("field", "index"):
            return any(self.eff(c, env) for c in e[1:] if isinstance(c, tuple))
        if k == "if":
            return self.eff(e[1][-1], env) or self.block_eff(e[2], env) or (e[3] is not None and self.block_eff(e[3], env))
        if k == "match":
            return self.eff(e[1], env) or any(self.block_eff(b, env) if b[0] == "block" else self.eff(b, env) for _, b in e[2])
        if k == "block":
            return self.block_eff(e, env)
        if k in ("vec", "format"):
            return any(self.eff(c, env) for c in e[-1])
        if k == "struct":
            return any(self.eff(c, env) for _, c in e[2])
        if k == "matches":
            return self.eff(e[1], env)
        return False

    def block_eff(self, b, env):
        for st in b[1]:
            if st[0] in ("assign", "ret", "break", "continue", "for", "whilelet"):
                return True
            if st[0] == "let" and (self.eff(st[2], env) or (st[1][0] == "pvar" and st[1][2])):
                return True
            if st[0] == "expr" and self.eff(st[1], env):
                return True
        return b[2] is not None and self.eff(b[2], env)


class NotPlain(Exception):
    pass


def coq_text(s):
    return "(T %s)" % pins.coq_str(s)


class EmPure:
    """pure expressions: (type, term, partial); a partial term has type `option T` (None = panic)"""

    def binds(self, parts, build):
        """parts: [(term, partial)], evaluated left to right; build(pure terms) -> pure term"""
        names, wrap = [], []
        for term, partial in parts:
            if partial:
                x = self.fresh("o")
                wrap.append((x, term))
                names.append(x)
            else:
                names.append(term)
        body = build(names)
        if not wrap:
            return body, False
        out = "(Some %s)" % body
        for x, term in reversed(wrap):
            out = "(match %s with Some %s => %s | None => None end)" % (term, x, out)
        return out, True

    def lift(self, term, partial, want):
        """term as a partial term when `want`"""
        if want and not partial:
            return "(Some %s)" % term
        return term

    def pure_args(self, args, env):
        return [self.pure(a, env) for a in args]

    def pure(self, e, env):
        k = e[0]
        if k == "lit":
            return "bool", e[1], False
        if k == "int":
            return "nat", e[1], False
        if k == "str":
            return "text", coq_text(e[1]), False
        if k == "unit":
            return "unit", "tt", False
        if k == "var":
            if e[1] not in env:
                raise Untranslatable("identifier " + e[1])
            return env[e[1]].ty, env[e[1]].coq, False
        if k == "path":
            return self.path(e[1])
        if k == "not":
            t, a, p = self.pure(e[1], env)
            need(t, "bool", "!")
            term, partial = self.binds([(a, p)], lambda xs: "(negb %s)" % xs[0])
            return "bool", term, partial
        if k == "bin":
            return self.binop(e, env)
        if k == "field":
            t, a, p = self.pure(e[1], env)
            if not (isinstance(t, tuple) and t[0] == "struct"):
                raise Untranslatable("field .%s of a %s" % (e[2], tyname(t)))
            st = STRUCTS[t[1]]
            for f, ft in st["fields"]:
                if f == e[2]:
                    term, partial = self.binds([(a, p)], lambda xs: "(%s%s %s)" % (st["prefix"], f, xs[0]))
                    return ft, term, partial
            raise Untranslatable("no field %s in %s" % (e[2], t[1]))
        if k == "index":
            tb, b, pb = self.pure(e[1], env)
            ti, i, pi = self.pure(e[2], env)
            if tb == "graph" and ti == "node":
                fn, rt = "pg_node_weight", "text"
            elif tb == "graph" and ti == "edgeidx":
                fn, rt = "pg_edge_weight", "ekind"
            elif isinstance(tb, tuple) and tb[0] == "hm" and ti == "text":
                fn, rt = "hm_get", tb[1]
            else:
                raise Untranslatable("index of a %s by a %s" % (tyname(tb), tyname(ti)))
            if pb or pi:
                inner, _ = self.binds([(b, pb), (i, pi)], lambda xs: "(%s %s %s)" % (fn, xs[0], xs[1]))
                x = self.fresh("o")
                return rt, "(match %s with Some %s => %s | None => None end)" % (inner, x, x), True
            return rt, "(%s %s %s)" % (fn, b, i), True
        if k == "call":
            return self.call(e, env)
        if k == "mcall":
            return self.mcall(e, env)
        if k == "if":
            return self.pure_if(e, env)
        if k == "match":
            return self.pure_match(e, env)
        if k == "block":
            return self.pure_block(e, env)
        if k == "struct":
            return self.struct(e, env)
        if k == "vec":
            subs = self.pure_args(e[1], env)
            t = "any"
            for s in subs:
                t = need(t, s[0], "vec![..]")
            term, partial = self.binds([(s[1], s[2]) for s in subs], lambda xs: "[%s]" % "; ".join(xs))
            return ("vec", t), term, partial
        if k == "format":
            pieces = e[1].split("{}")
            if len(pieces) != len(e[2]) + 1 or "{" in e[1].replace("{}", ""):
                raise Untranslatable("format! with other placeholders than {}")
            subs = self.pure_args(e[2], env)
            for s in subs:
                need(s[0], "text", "format! argument")

            def build(xs):
                out = []
                for j, pc in enumerate(pieces):
                    if pc:
                        out.append(coq_text(pc))
                    if j < len(xs):
                        out.append(xs[j])
                return "(%s)" % " ++ ".join(out) if out else "[]"
            term, partial = self.binds([(s[1], s[2]) for s in subs], build)
            return "text", term, partial
        if k == "matches":
            t, a, p = self.pure(e[1], env)
            need(t, "ekind", "matches!")
            if e[2][0] != "ppath":
                raise Untranslatable("matches! against a pattern that is not a variant")
            kt, kv, _ = self.path(e[2][1])
            need(kt, "ekind", "matches! pattern")
            term, partial = self.binds([(a, p)], lambda xs: "(ek_is %s %s)" % (xs[0], kv))
            return "bool", term, partial
        if k == "closure":
            raise Untranslatable("a closure that is not the argument of an adaptor")
        raise Untranslatable("expression " + k)

    def path(self, p):
        last = p.split("::")[-1]
        if p == "None":
            return ("opt", "any"), "None", False
        if p in ("EdgeVariant::Link", "EdgeVariant::Match", "super::EdgeVariant::Link", "super::EdgeVariant::Match"):
            return "ekind", "K" + last, False
        if p.endswith("Direction::Outgoing") or p.endswith("Direction::Incoming"):
            return "dir", last, False
        if p in self.u.consts:
            return "text", "gen_" + p, False
        raise Untranslatable("path " + p)

    def binop(self, e, env):
        op = e[1]
        ta, a, pa = self.pure(e[2], env)
        tb, b, pb = self.pure(e[3], env)
        if op in ("&&", "||"):
            need(ta, "bool", op)
            need(tb, "bool", op)
            if not pa and not pb:
                return "bool", "(%s %s %s)" % (a, op, b), False
            lifted = b if pb else "(Some %s)" % b
            short = "(Some false)" if op == "&&" else "(Some true)"
            if not pa:
                return "bool", ("(if %s then %s else %s)" % ((a, lifted, short) if op == "&&" else (a, short, lifted))), True
            if op == "&&":
                return "bool", "(match %s with Some true => %s | Some false => %s | None => None end)" % (a, lifted, short), True
            return "bool", "(match %s with Some true => %s | Some false => %s | None => None end)" % (a, short, lifted), True
        if op in ("==", "!="):
            t = need(ta, tb, op)
            fn = {"text": "rs_eq", "node": "rs_eq", "bool": "Bool.eqb", "nat": "Nat.eqb", "ekind": "ek_is"}.get(t if isinstance(t, str) else None)
            if fn is None:
                raise Untranslatable("comparison of two %s" % tyname(t))
            neg = op == "!="
            term, partial = self.binds([(a, pa), (b, pb)], lambda xs: ("(negb (%s %s %s))" if neg else "(%s %s %s)") % (fn, xs[0], xs[1]))
            return "bool", term, partial
        need(ta, "nat", op)
        need(tb, "nat", op)
        if op in ("<", "<=", ">", ">="):
            fmt = {"<": "(Nat.ltb %s %s)", "<=": "(Nat.leb %s %s)", ">": "(Nat.ltb %s %s)", ">=": "(Nat.leb %s %s)"}[op]
            swap = op in (">", ">=")
            term, partial = self.binds([(a, pa), (b, pb)], lambda xs: fmt % ((xs[1], xs[0]) if swap else (xs[0], xs[1])))
            return "bool", term, partial
        if op == "+":
            term, partial = self.binds([(a, pa), (b, pb)], lambda xs: "(%s + %s)" % (xs[0], xs[1]))
            return "nat", term, partial
        if op == "-":
            inner, ip = self.binds([(a, pa), (b, pb)], lambda xs: "(rs_usize_sub %s %s)" % (xs[0], xs[1]))
            if ip:
                x = self.fresh("o")
                return "nat", "(match %s with Some %s => %s | None => None end)" % (inner, x, x), True
            return "nat", inner, True
        raise Untranslatable("operator " + op)

    # ---- closures
    def closure(self, clo, ptys, env):
        """(result type, term, partial) of a closure whose parameters have the types ptys"""
        if clo[0] != "closure":
            raise Untranslatable("a closure is expected")
        if len(clo[1]) != len(ptys):
            raise Untranslatable("closure with %d parameters where %d are expected" % (len(clo[1]), len(ptys)))
        self.depth += 1
        env2 = env
        names = []
        for pat, ty in zip(clo[1], ptys):
            env2, nm = self.bind_pat(env2, pat, ty)
            names.append(nm)
        body = clo[2]
        saved = self.loops
        self.loops = self.loops + [None]
        try:
            t, a, p = self.pure_block(body, env2) if body[0] == "block" else self.pure(body, env2)
        finally:
            self.loops = saved
            self.depth -= 1
        return t, "(fun %s => %s)" % (" ".join(names), a), p

    # ---- calls
    def user_call(self, f, self_term, argterms):
        self.u.require(f)
        head = [f.coq]
        if f.uses_ord:
            head.append("ord")
            self.fn.uses_ord = True
        if f.uses_fuel:
            head.append("fuel")
            self.fn.uses_fuel = True
        if self_term is not None:
            head.append(self_term)
        return "(%s)" % " ".join(head + list(argterms))

    def check_args(self, f, subs):
        if len(subs) != len(f.params):
            raise Untranslatable("%s called with %d arguments" % (f.rust, len(subs)))
        for (x, t, m), s in zip(f.params, subs):
            need(s[0], t, "argument %s of %s" % (x, f.rust))

    def pure_user(self, f, recv, args, env):
        self.u.require(f)
        if f.mode == "flow" and f.outs():
            raise Untranslatable("call of %s (which mutates) inside an expression" % f.rust)
        subs = self.pure_args(args, env)
        self.check_args(f, subs)
        parts = [(s[1], s[2]) for s in subs]
        if recv is not None:
            parts = [(recv[1], recv[2])] + parts
        if f.self_kind is not None and recv is None:
            raise Untranslatable("method %s called without a receiver" % f.rust)
        inner, ip = self.binds(parts, lambda xs: self.user_call(f, xs[0] if recv is not None else None, xs[1:] if recv is not None else xs))
        fp = f.partial if f.mode == "pure" else True
        if ip and fp:
            x = self.fresh("o")
            return f.ret, "(match %s with Some %s => %s | None => None end)" % (inner, x, x), True
        return f.ret, inner, ip or fp

    def call(self, e, env):
        callee, args = e[1], e[2]
        f = self.user_fn(callee, env)
        if f is not None:
            if f.self_kind is not None:
                raise Untranslatable("method %s called as a function" % f.rust)
            return self.pure_user(f, None, args, env)
        if callee[0] == "path":
            p = callee[1]
            if p in ("Some", "Ok", "Err", "Box::new", "String::from") and len(args) == 1:
                t, a, pa = self.pure(args[0], env)
                if p in ("Box::new", "String::from"):
                    return t, a, pa
                if p == "Some":
                    term, partial = self.binds([(a, pa)], lambda xs: "(Some %s)" % xs[0])
                    return ("opt", t), term, partial
                if p == "Ok":
                    term, partial = self.binds([(a, pa)], lambda xs: "(ROk %s)" % xs[0])
                    return ("result", t), term, partial
                need(t, "err", "Err(..)")
                term, partial = self.binds([(a, pa)], lambda xs: "(RErr %s)" % xs[0])
                return ("result", "any"), term, partial
            if p in ("RbacError::NotFound", "crate::error::RbacError::NotFound") and len(args) == 1:
                t, a, pa = self.pure(args[0], env)
                need(t, "text", "RbacError::NotFound")
                term, partial = self.binds([(a, pa)], lambda xs: "(RbacNotFound %s)" % xs[0])
                return "err", term, partial
            if not args and p in ("HashMap::new", "HashMap::default"):
                return ("hm", "any"), "hm_new", False
            if not args and p == "HashSet::new":
                return ("hset", "text"), "hs_new", False
            if not args and p == "VecDeque::new":
                return ("deque", "any"), "dq_new", False
            if not args and p in ("StableDiGraph::new", "StableDiGraph::default"):
                return "graph", "pg_new", False
            raise Untranslatable("call of " + p)
        # a MatchingFn value applied to two strings
        t, a, pa = self.pure(callee, env)
        if t != "mfun" or len(args) != 2:
            raise Untranslatable("call of a value of type " + tyname(t))
        subs = self.pure_args(args, env)
        for s in subs:
            need(s[0], "text", "argument of a matching function")
        term, partial = self.binds([(a, pa)] + [(s[1], s[2]) for s in subs], lambda xs: "(%s %s %s)" % (xs[0], xs[1], xs[2]))
        return "bool", term, partial

    def struct(self, e, env):
        name = self.fn.owner if e[1] == "Self" else e[1]
        if name not in STRUCTS:
            raise Untranslatable("struct literal " + name)
        st = STRUCTS[name]
        given = dict(e[2])
        if sorted(given) != sorted(f for f, _ in st["fields"]):
            raise Untranslatable("struct literal %s does not give exactly the fields of the struct" % name)
        subs = []
        for f, ft in st["fields"]:
            t, a, p = self.pure(given[f], env)
            need(t, ft, "field %s of %s" % (f, name))
            subs.append((a, p))
        # Rust evaluates the field expressions in the order they are written; they are pure here
        term, partial = self.binds(subs, lambda xs: "{| %s |}" % "; ".join(
            "%s%s := %s" % (st["prefix"], f, x) for (f, _), x in zip(st["fields"], xs)))
        return ("struct", name), term, partial

    # ---- method calls
    def mcall(self, e, env):
        recv, name, args = e[1], e[2], e[3]
        rt, r, rp = self.pure(recv, env)
        if isinstance(rt, tuple) and rt[0] == "struct" and (rt[1], name) in self.u.funcs:
            return self.pure_user(self.u.funcs[(rt[1], name)], (rt, r, rp), args, env)
        tag = rt[0] if isinstance(rt, tuple) else rt

        def one(fmt, ty, *subs):
            """receiver and the (already translated) arguments, left to right"""
            term, partial = self.binds([(r, rp)] + [(s[1], s[2]) for s in subs], lambda xs: fmt % tuple(xs))
            return ty, term, partial

        def argn(n):
            if len(args) != n:
                raise Untranslatable(".%s with %d arguments" % (name, len(args)))
            return self.pure_args(args, env)

        if name in IDENTITY and not args:
            if tag == "hset" and name in ("into_iter", "iter"):
                self.fn.uses_ord = True
                return one("(hs_to_vec ord %s)", ("vec", rt[1]))
            if tag == "deque":
                return ("vec", rt[1]), r, rp
            return rt, r, rp
        if tag == "occupied" and name == "get" and not args:
            return rt[1], r, rp
        if tag == "text" and name == "is_empty" and not args:
            return one("(rs_is_empty %s)", "bool")
        if tag == "opt":
            T_ = rt[1]
            if name == "unwrap" and not args:
                if rp:
                    x = self.fresh("o")
                    return T_, "(match %s with Some %s => %s | None => None end)" % (r, x, x), True
                return T_, r, True
            if name == "unwrap_or":
                if len(args) == 1 and args[0][0] == "closure" and T_ == "mfun":
                    ct, c, cp = self.closure(args[0], ["text", "text"], env)
                    need(ct, "bool", "default matching function")
                    if cp:
                        raise Untranslatable("a default closure that can panic")
                    d = (T_, c, False)
                else:
                    (d,) = argn(1)
                return one("(rs_unwrap_or %s %s)", need(T_, d[0], "unwrap_or"), d)
            if name == "unwrap_or_default" and not args:
                dflt = {"bool": "false", "nat": "0", "text": "[]"}.get(T_ if isinstance(T_, str) else None)
                if dflt is None:
                    raise Untranslatable("unwrap_or_default on an Option<%s>" % tyname(T_))
                return one("(rs_unwrap_or %s " + dflt + ")", T_)
            if name == "is_some" and not args:
                return one("(rs_is_some %s)", "bool")
            if name == "map" and len(args) == 1:
                ptys = ["text", "text"] if False else [T_]
                ct, c, cp = self.closure(args[0], ptys, env)
                if cp:
                    ty, term, _ = one("(rs_opt_map_opt " + c.replace("%", "%%") + " %s)", ("opt", ct))
                    if rp:
                        x = self.fresh("o")
                        term = "(match %s with Some %s => %s | None => None end)" % (term, x, x)
                    return ty, term, True
                return one("(rs_opt_map " + c.replace("%", "%%") + " %s)", ("opt", ct))
            if name == "map_or" and len(args) == 2:
                d = self.pure(args[0], env)
                ct, c, cp = self.closure(args[1], [T_], env)
                if cp:
                    raise Untranslatable("Option::map_or with a closure that can panic")
                u = need(d[0], ct, "map_or")
                return one("(rs_map_or %s %s " + c.replace("%", "%%") + ")", u, d)
        if tag in ("vec", "deque"):
            T_ = rt[1]
            if name in ("filter", "find", "any") and len(args) == 1:
                ct, c, cp = self.closure(args[0], [T_], env)
                need(ct, "bool", "closure of ." + name)
                res = {"filter": ("vec", T_), "find": ("opt", T_), "any": "bool"}[name]
                c = c.replace("%", "%%")
                if cp:
                    ty, term, _ = one("(rs_iter_%s_opt %s %%s)" % (name, c), res)
                    if rp:
                        x = self.fresh("o")
                        term = "(match %s with Some %s => %s | None => None end)" % (term, x, x)
                    return ty, term, True
                return one("(rs_iter_%s %s %%s)" % (name, c), res)
            if name in ("map", "filter_map", "flat_map") and len(args) == 1:
                ct, c, cp = self.closure(args[0], [T_], env)
                if name == "map":
                    res = ("vec", ct)
                elif name == "filter_map":
                    if not (isinstance(ct, tuple) and ct[0] == "opt"):
                        raise Untranslatable("filter_map with a closure that returns a " + tyname(ct))
                    res = ("vec", ct[1])
                else:
                    if not (isinstance(ct, tuple) and ct[0] in ("vec", "deque")):
                        raise Untranslatable("flat_map with a closure that returns a " + tyname(ct))
                    res = ("vec", ct[1])
                c = c.replace("%", "%%")
                if cp:
                    ty, term, _ = one("(rs_iter_%s_opt %s %%s)" % (name, c), res)
                    if rp:
                        x = self.fresh("o")
                        term = "(match %s with Some %s => %s | None => None end)" % (term, x, x)
                    return ty, term, True
                return one("(rs_iter_%s %s %%s)" % (name, c), res)
            if name == "chain":
                (o,) = argn(1)
                u = need(rt, o[0], "chain")
                return one("(rs_iter_chain %s %s)", ("vec", u[1]), o)
            if name == "is_empty" and not args:
                return one("(rs_vec_is_empty %s)", "bool")
            if name == "fold" and len(args) == 2:
                return self.fold(rt, r, rp, args[0], args[1], env)
        if tag == "hm":
            V = rt[1]
            if name == "get":
                (kx,) = argn(1)
                need(kx[0], "text", "key")
                return one("(hm_get %s %s)", ("opt", V), kx)
            if name == "contains_key":
                (kx,) = argn(1)
                need(kx[0], "text", "key")
                return one("(hm_contains_key %s %s)", "bool", kx)
            if name == "keys" and not args:
                self.fn.uses_ord = True
                return one("(hm_keys ord %s)", ("vec", "text"))
        if tag == "graph":
            if name == "node_indices" and not args:
                return one("(pg_node_indices %s)", ("vec", "node"))
            if name == "node_weights" and not args:
                return one("(pg_node_weights %s)", ("vec", "text"))
            if name == "visit_map" and not args:
                return one("(pg_visit_map %s)", "vmap")
            if name == "find_edge":
                a, b = argn(2)
                need(a[0], "node", "find_edge")
                need(b[0], "node", "find_edge")
                return one("(pg_find_edge %s %s %s)", ("opt", "edgeidx"), a, b)
            if name in ("edges_directed", "neighbors_directed"):
                a, d = argn(2)
                need(a[0], "node", name)
                need(d[0], "dir", name)
                return one("(pg_%s %%s %%s %%s)" % name, ("vec", "edgeref" if name == "edges_directed" else "node"), a, d)
        if tag == "edgeref" and not args and name in ("weight", "source", "target"):
            return one("(er_%s %%s)" % name, "ekind" if name == "weight" else "node")
        raise Untranslatable("method .%s on a %s" % (name, tyname(rt)))

    def fold(self, rt, r, rp, init, clo, env):
        """it.fold(init, |mut acc, x| { ..; acc }): the closure body is a block of statements (flow)"""
        ti, ini, pi = self.pure(init, env)
        if rp or pi:
            raise Untranslatable("fold over / from an expression that can panic")
        if clo[0] != "closure" or len(clo[1]) != 2 or clo[2][0] != "block":
            raise Untranslatable("fold closure is not |acc, x| { ..; acc }")
        pa, px = clo[1]
        blk = clo[2]
        if pa[0] != "pvar" or blk[2] != ("var", pa[1]):
            raise Untranslatable("fold closure is not |acc, x| { ..; acc }")
        self.depth += 1
        env2, acc = self.bind(env, pa[1], ti, mutable=True)
        env2, x = self.bind_pat(env2, px, rt[1])
        saved = (self.loops, self.panic, self.plain)
        self.loops, self.panic, self.plain = self.loops + [None], "LPanic", False
        try:
            outer = self.mut_roots(blk, env2) - {acc}
            if outer:
                raise Untranslatable("fold closure assigns a captured variable")
            body = self.seq(blk[1], env2, lambda en: "(LNext %s)" % acc)
        finally:
            self.loops, self.panic, self.plain = saved
            self.depth -= 1
        return ti, "(rs_fold (fun %s %s =>\n %s)\n %s %s)" % (x, acc, body, r, ini), True

    # ---- if / match / blocks as values
    def join(self, branches):
        """branches [(type, term, partial)] -> (type, [terms], partial) with a common type and partiality"""
        t = "any"
        for b in branches:
            t = need(t, b[0], "branches")
        partial = any(b[2] for b in branches)
        return t, [self.lift(b[1], b[2], partial) for b in branches], partial

    def pure_if(self, e, env):
        cond, th, el = e[1], e[2], e[3]
        if el is None:
            el = ("block", [], None)            # the value of the missing else is ()
        if cond[0] == "cond":
            tc, c, pc = self.pure(cond[1], env)
            need(tc, "bool", "condition")
            t, (a, b), p = self.join([self.pure_block(th, env), self.pure_block(el, env)])
            if pc:
                return t, "(match %s with Some true => %s | Some false => %s | None => None end)" % (
                    c, self.lift(a, p, True), self.lift(b, p, True)), True
            return t, "(if %s then %s else %s)" % (c, a, b), p
        pat, scrut = cond[1], cond[2]
        ts, s, ps = self.pure(scrut, env)
        if not (isinstance(ts, tuple) and ts[0] == "opt" and pat[0] == "pctor" and pat[1] == "Some" and len(pat[2]) == 1):
            raise Untranslatable("if let on a %s" % tyname(ts))
        self.depth += 1
        env2, x = self.bind_pat(env, pat[2][0], ts[1])
        ba = self.pure_block(th, env2)
        self.depth -= 1
        t, (a, b), p = self.join([ba, self.pure_block(el, env)])
        if ps:
            return t, "(match %s with Some (Some %s) => %s | Some None => %s | None => None end)" % (
                s, x, self.lift(a, p, True), self.lift(b, p, True)), True
        return t, "(match %s with Some %s => %s | None => %s end)" % (s, x, a, b), p

    def pure_match(self, e, env):
        ts, s, ps = self.pure(e[1], env)
        arms = e[2]
        if ts == "ekind":
            by = {}
            for pat, body in arms:
                if pat[0] != "ppath":
                    raise Untranslatable("match arm on an EdgeVariant")
                kt, kv, _ = self.path(pat[1])
                need(kt, "ekind", "match arm")
                by[kv] = self.pure_block(body, env) if body[0] == "block" else self.pure(body, env)
            if sorted(by) != ["KLink", "KMatch"] or len(arms) != 2:
                raise Untranslatable("match on an EdgeVariant without exactly the arms Link and Match")
            t, (a, b), p = self.join([by["KLink"], by["KMatch"]])
            if ps:
                x = self.fresh("o")
                return t, "(match %s with Some %s => match %s with KLink => %s | KMatch => %s end | None => None end)" % (
                    s, x, x, self.lift(a, p, True), self.lift(b, p, True)), True
            return t, "(match %s with KLink => %s | KMatch => %s end)" % (s, a, b), p
        if isinstance(ts, tuple) and ts[0] == "opt" and len(arms) == 2:
            some = [(p_, b) for p_, b in arms if p_[0] == "pctor" and p_[1] == "Some" and len(p_[2]) == 1]
            none = [(p_, b) for p_, b in arms if p_ == ("ppath", "None") or p_ == ("pwild",)]
            if len(some) == 1 and len(none) == 1:
                return self.pure_if(("if", ("iflet", some[0][0], e[1]), ("block", [], some[0][1]), ("block", [], none[0][1])), env)
        raise Untranslatable("match on a " + tyname(ts))

    def pure_block(self, blk, env):
        if blk[0] != "block":
            return self.pure(blk, env)
        return self.pure_seq(blk[1], blk[2], env)

    def pure_seq(self, stmts, final, env):
        if not stmts:
            if final is None:
                return "unit", "tt", False
            return self.pure(final, env)
        st, rest = stmts[0], stmts[1:]
        if st[0] == "cfg":
            t, a, p = self.pure_seq(rest, final, env)
            return t, "%s %s" % (self.cfg_comment(st), a), p
        if st[0] == "ret":
            if rest or final is not None:
                raise Untranslatable("code after return")
            if None in self.loops:
                raise Untranslatable("return inside a closure")
            return self.pure(st[1], env) if st[1] is not None else ("unit", "tt", False)
        if st[0] == "let":
            t, a, p = self.pure(st[2], env)
            env2, x = self.bind_pat(env, st[1], t)
            rt, r, rp = self.pure_seq(rest, final, env2)
            if p:
                return rt, "(match %s with Some %s => %s | None => None end)" % (a, x, self.lift(r, rp, True)), True
            return rt, "(let %s := %s in\n %s)" % (x, a, r), rp
        if st[0] == "expr" and st[1][0] == "if" and st[1][3] is None and st[1][2][1] and st[1][2][1][-1][0] == "ret" \
                and st[1][2][2] is None:
            # if c { ..; return e; }  followed by the rest: the rest is the else branch
            node = st[1]
            return self.pure_if(("if", node[1], node[2], ("block", rest, final)), env)
        raise Untranslatable("statement %s in an expression-only function / closure" % st[0])

    def cfg_comment(self, st):
        """#[cfg(feature = "cached")] <cache statement>: a no-op on the graph state, kept as a comment"""
        attr, inner = st[1], st[2]
        if not cached_attr(attr):
            raise Untranslatable("attribute " + attr)
        if inner[0] == "cfg":
            return self.cfg_comment(inner)
        e = inner[1] if inner[0] == "expr" else None
        if e is not None and e[0] == "mcall" and e[1] == ("field", ("var", "self"), "cache") and e[2] in ("clear", "set"):
            return "(* cache.%s(%s) *)" % (e[2], ", ".join(a[1] for a in e[3] if a[0] == "var"))
        if inner[0] == "let" and inner[1] == ("pvar", "cache_key", False):
            return "(* let cache_key = hash(name1, name2, domain) *)"
        if e is not None and e[0] == "if" and e[1][0] == "iflet" and e[3] is None and \
                e[1][2] == ("mcall", ("field", ("var", "self"), "cache"), "get", [("var", "cache_key")]) and \
                e[1][1][0] == "pctor" and e[1][1][1] == "Some" and len(e[1][1][2]) == 1 and e[1][1][2][0][0] == "pvar" and \
                e[2] == ("block", [("ret", ("var", e[1][1][2][0][1]))], None):
            return "(* if let Some(res) = cache.get(cache_key) { return res; } *)"
        raise Untranslatable("a statement under #[cfg(feature = \"cached\")] that is not one of the cache operations")


class EmFlow:
    """statements and effectful expressions, continuation-passing: k(type, term) / k(env) is the Coq term of what follows"""

    def default_of(self, ty):
        if ty == "graph":
            return "pg_new"
        if isinstance(ty, tuple) and ty[0] == "hm":
            return "hm_new"
        raise Untranslatable("Default::default() of a " + tyname(ty))

    # ---- expressions
    def ev(self, e, env, k):
        if not self.eff(e, env):
            t, a, p = self.pure(e, env)
            if p:
                x = self.fresh("o")
                return "(match %s with Some %s => %s | None => %s end)" % (a, x, k(t, x), self.panic_term())
            return k(t, a)
        kind = e[0]
        if kind == "mcall":
            return self.ev_mcall(e, env, k)
        if kind == "call":
            return self.ev_call(e, env, k)
        if kind == "not":
            return self.ev(e[1], env, lambda t, a: k(need(t, "bool", "!"), "(negb %s)" % a))
        if kind == "bin":
            if e[1] in ("&&", "||") and self.eff(e[3], env):
                raise Untranslatable("a mutating call on the right of %s" % e[1])
            return self.ev_temps([e[2], e[3]], env, lambda xs, en: self.ev(("bin", e[1], xs[0], xs[1]), en, k))
        if kind == "if":
            return self.ev_if(e, env, k)
        if kind == "match":
            return self.ev_match(e, env, k)
        if kind == "block":
            return self.block_value(e, env, k)
        if kind in ("field", "index"):
            subs = [c for c in e[1:] if isinstance(c, tuple)]
            return self.ev_temps(subs, env, lambda xs, en: self.ev((kind,) + tuple(xs) + tuple(c for c in e[1:] if not isinstance(c, tuple)), en, k))
        raise Untranslatable("a mutating call inside a %s expression" % kind)

    def ev_temps(self, exprs, env, k2):
        """evaluate exprs left to right into temporaries; k2([AST of each value], env')"""
        def go(todo, done, en):
            if not todo:
                return k2(done, en)
            e, rest = todo[0], todo[1:]
            if not self.eff(e, en) and not any(self.eff(x, en) for x in rest):
                return go(rest, done + [e], en)

            def got(t, a):
                name = "%" + self.fresh("tmp")
                en2 = dict(en)
                if is_atomic(a) or (isinstance(t, tuple) and t[0] == "entry"):
                    en2[name] = Var(t, a, False, None, self.depth)
                    return go(rest, done + [("var", name)], en2)
                x = self.fresh("t")
                en2[name] = Var(t, x, False, None, self.depth)
                return "(let %s := %s in\n %s)" % (x, a, go(rest, done + [("var", name)], en2))
            return self.ev(e, en, got)
        return go(list(exprs), [], env)

    def ev_args(self, args, env, k2):
        """argument values (type, term), evaluated left to right"""
        def done(xs, en):
            subs = [self.pure(x, en) for x in xs]
            parts = [(s[1], s[2]) for s in subs]
            names = []
            out_wrap = []
            for (t, a, p) in subs:
                if p:
                    x = self.fresh("o")
                    out_wrap.append((x, a))
                    names.append((t, x))
                else:
                    names.append((t, a))
            body = k2(names)
            for x, a in reversed(out_wrap):
                body = "(match %s with Some %s => %s | None => %s end)" % (a, x, body, self.panic_term())
            return body
        return self.ev_temps(args, env, done)

    def entry_of(self, e, env):
        """the Entry pseudo-value held by a variable"""
        if e[0] == "var" and e[1] in env and isinstance(env[e[1]].ty, tuple) and env[e[1]].ty[0] == "entry":
            return env[e[1]].ty
        return None

    def ev_mcall(self, e, env, k):
        recv, name, args = e[1], e[2], e[3]
        if name == "unwrap" and not args:
            def got(t, a):
                if not (isinstance(t, tuple) and t[0] == "opt"):
                    raise Untranslatable("unwrap on a " + tyname(t))
                x = self.fresh("u")
                return "(match %s with Some %s => %s | None => %s end)" % (a, x, k(t[1], x), self.panic_term())
            return self.ev(recv, env, got)
        f = self.user_method(recv, name, env)
        if f is not None and (f.self_kind == "mut" or any(m for _, _, m in f.params)):
            return self.ev_user(f, recv, args, env, k)
        place = self.resolve_place(recv, env)
        ent = self.entry_of(recv, env)
        if name in BUILTIN_MUT and (place is not None or ent is not None) and not self.eff(recv, env):
            return self.ev_args(args, env, lambda xs: self.builtin_mut(place, ent, name, xs, k))
        if name in ("or_default", "get_mut", "entry"):
            raise Untranslatable("a &mut borrow (.%s) that is not bound by a let" % name)
        # the receiver or an argument is effectful; the method itself is not
        return self.ev_temps([recv] + list(args), env, lambda xs, en: self.ev(("mcall", xs[0], name, xs[1:]), en, k))

    def builtin_mut(self, place, ent, name, xs, k):
        def argt(*tys):
            if len(xs) != len(tys):
                raise Untranslatable(".%s with %d arguments" % (name, len(xs)))
            for (t, _), w in zip(xs, tys):
                need(t, w, "argument of ." + name)
            return [a for _, a in xs]
        if ent is not None:
            if name != "insert":
                raise Untranslatable(".%s on a map entry" % name)
            (v,) = argt(ent[3])
            cell = Place("hmval", ent[3], parent=ent[1], key=ent[2])
            return cell.write(v, k("unit", "tt"))
        ty = place.ty
        tag = ty[0] if isinstance(ty, tuple) else ty
        cur = place.read()
        g, r = self.fresh("g"), self.fresh("r")
        if tag == "graph":
            if name == "add_node":
                (w,) = argt("text")
                return "(let '(%s, %s) := pg_add_node %s %s in\n %s)" % (g, r, cur, w, place.write(g, k("node", r)))
            if name in ("add_edge", "update_edge"):
                a, b, w = argt("node", "node", "ekind")
                return "(match pg_%s %s %s %s %s with\n | Some (%s, %s) => %s\n | None => %s end)" % (
                    name, cur, a, b, w, g, r, place.write(g, k("edgeidx", r)), self.panic_term())
            if name == "remove_edge":
                (ix,) = argt("edgeidx")
                return "(let '(%s, %s) := pg_remove_edge %s %s in\n %s)" % (g, r, cur, ix, place.write(g, k(("opt", "ekind"), r)))
        if tag == "vmap" and name == "visit":
            (x,) = argt("node")
            return "(match vm_visit %s %s with\n | Some (%s, %s) => %s\n | None => %s end)" % (
                cur, x, g, r, place.write(g, k("bool", r)), self.panic_term())
        if tag in ("deque", "vec"):
            if name in ("push_back", "push_front"):
                if ty[1] == "any":
                    place.ty = (tag, xs[0][0]) if xs else ty
                (x,) = argt(place.ty[1])
                return place.write("(dq_%s %s %s)" % (name, cur, x), k("unit", "tt"))
            if name == "pop_front" and not xs:
                return "(let '(%s, %s) := dq_pop_front %s in\n %s)" % (g, r, cur, place.write(g, k(("opt", ty[1]), r)))
        if tag == "hset" and name == "extend":
            (it,) = argt(("vec", ty[1]))
            return place.write("(hs_extend %s %s)" % (cur, it), k("unit", "tt"))
        if tag == "hm" and name == "clear" and not xs:
            return place.write("hm_new", k("unit", "tt"))
        raise Untranslatable("method .%s on a %s" % (name, tyname(ty)))

    def ev_user(self, f, recv, args, env, k):
        """call of a translated function that returns new values for `self` / its &mut parameters"""
        self.u.require(f)
        outs = []
        if f.self_kind == "mut":
            p = self.resolve_place(recv, env)
            if p is None:
                raise Untranslatable("%s called on something that cannot be assigned" % f.rust)
            outs.append(p)
        for (x, t, m), a in zip(f.params, args):
            if m:
                p = self.resolve_place(a, env)
                if p is None:
                    raise Untranslatable("argument %s of %s cannot be assigned" % (x, f.rust))
                outs.append(p)

        def done(xs):
            self.check_args(f, [(t, a, False) for t, a in xs[1 if recv is not None else 0:]])
            self_term = xs[0][1] if recv is not None else None
            call = self.user_call(f, self_term, [a for _, a in xs[1 if recv is not None else 0:]])
            names = [self.fresh("s") for _ in outs]
            r = self.fresh("r")
            pat = names + ([] if f.ret == "unit" and names else [r])
            body = k(f.ret, "tt" if (f.ret == "unit" and names) else r)
            for p, nm in reversed(list(zip(outs, names))):
                body = p.write(nm, body)
            return "(match %s with\n | Some %s => %s\n | None => %s end)" % (call, self.tup(pat), body, self.panic_term())
        return self.ev_args(([recv] if recv is not None else []) + list(args), env, done)

    def ev_call(self, e, env, k):
        f = self.user_fn(e[1], env)
        if f is not None and any(m for _, _, m in f.params):
            if f.self_kind is not None:
                raise Untranslatable("method %s called as a function" % f.rust)
            return self.ev_user(f, None, e[2], env, k)
        if f is None and self.eff(e[1], env):
            raise Untranslatable("call of an effectful expression")
        return self.ev_temps(e[2], env, lambda xs, en: self.ev(("call", e[1], xs), en, k))

    def block_value(self, blk, env, k):
        if blk[0] != "block":
            return self.ev(blk, env, k)
        if blk[2] is not None and blk[2][0] == "if" and blk[2][3] is None:
            blk = ("block", blk[1] + [("expr", blk[2])], None)      # an `if` without else has the value ()
        self.depth += 1
        try:
            return self.seq(blk[1], env, lambda en: k("unit", "tt") if blk[2] is None else self.ev(blk[2], en, k))
        finally:
            self.depth -= 1

    def ev_if(self, e, env, k):
        cond, th, el = e[1], e[2], e[3]
        if cond[0] == "cond":
            def got(t, c):
                need(t, "bool", "condition")
                a = self.block_value(th, env, k)
                b = self.block_value(el, env, k) if el is not None else k("unit", "tt")
                return "(if %s\n then %s\n else %s)" % (c, a, b)
            return self.ev(cond[1], env, got)
        pat, scrut = cond[1], cond[2]

        def got2(t, s):
            if not (isinstance(t, tuple) and t[0] == "opt" and pat[0] == "pctor" and pat[1] == "Some" and len(pat[2]) == 1):
                raise Untranslatable("if let %s on a %s" % (pat[1] if len(pat) > 1 else pat[0], tyname(t)))
            self.depth += 1
            env2, x = self.bind_pat(env, pat[2][0], t[1])
            a = self.block_value(th, env2, k)
            self.depth -= 1
            b = self.block_value(el, env, k) if el is not None else k("unit", "tt")
            return "(match %s with\n | Some %s => %s\n | None => %s end)" % (s, x, a, b)
        return self.ev(scrut, env, got2)

    def ev_match(self, e, env, k):
        ent = self.entry_of(e[1], env)
        if ent is not None:
            occ = [(p, b) for p, b in e[2] if p[0] == "pctor" and p[1].endswith("Entry::Occupied") and len(p[2]) == 1]
            vac = [(p, b) for p, b in e[2] if p[0] == "pctor" and p[1].endswith("Entry::Vacant") and len(p[2]) == 1]
            if len(occ) != 1 or len(vac) != 1 or len(e[2]) != 2:
                raise Untranslatable("match on a map entry without exactly the arms Occupied and Vacant")
            o = self.fresh("occ")
            self.depth += 1
            env_o = dict(env)
            if occ[0][0][2][0][0] == "pvar":
                env_o[occ[0][0][2][0][1]] = Var(("occupied", ent[3]), o, False, None, self.depth)
            env_v = dict(env)
            if vac[0][0][2][0][0] == "pvar":
                env_v[vac[0][0][2][0][1]] = Var(ent, "", False, None, self.depth)
            a = self.block_value(occ[0][1], env_o, k)
            b = self.block_value(vac[0][1], env_v, k)
            self.depth -= 1
            return "(match hm_get %s %s with\n | Some %s => %s\n | None => %s end)" % (ent[1].read(), ent[2], o, a, b)
        if len(e[2]) == 2:
            # match <Option> { Some(x) => A, None | _ => B }  is  if let Some(x) = .. { A } else { B }
            some = [(p_, b) for p_, b in e[2] if p_[0] == "pctor" and p_[1] == "Some" and len(p_[2]) == 1]
            none = [(p_, b) for p_, b in e[2] if p_ == ("ppath", "None") or p_ == ("pwild",)]
            if len(some) == 1 and len(none) == 1:
                blk = lambda b: b if b[0] == "block" else ("block", [], b)   # noqa: E731
                return self.ev_if(("if", ("iflet", some[0][0], e[1]), blk(some[0][1]), blk(none[0][1])), env, k)
        raise Untranslatable("match with mutation / control flow on something that is not an Option or a map entry")

    # ---- statements
    def mutates_graph(self, st):
        return contains(st, lambda n: (n[0] == "mcall" and n[2] in ("add_node", "add_edge", "update_edge", "remove_edge"))
                        or n[0] == "call")

    def seq(self, stmts, env, k):
        if not stmts:
            return k(env)
        st, rest = stmts[0], stmts[1:]
        kind = st[0]

        def cont(en):
            if self.mutates_graph(st):
                # an EdgeIndex does not survive a mutation of the graph (Gen/Petgraph.v)
                en = {x: v for x, v in en.items() if v.ty != "edgeidx"}
            return self.seq(rest, en, k)
        if kind == "cfg":
            return "%s %s" % (self.cfg_comment(st), cont(env))
        if kind == "let":
            return self.let(st[1], st[2], env, cont)
        if kind == "expr":
            e = st[1]
            if e[0] == "if" and not has_control(e):
                plain = self.plain_if(e, env, cont)
                if plain is not None:
                    return plain
            return self.ev(e, env, lambda t, a: cont(env))
        if kind == "assign":
            return self.assign(st, env, cont)
        if kind == "ret":
            if rest:
                raise Untranslatable("code after return")
            return self.ret_term(st[1], env)
        if kind == "break":
            if rest:
                raise Untranslatable("code after break")
            if not self.loops or self.loops[-1] is None:
                raise Untranslatable("break outside a loop")
            return "(LBreak %s)" % self.tup(self.loops[-1])
        if kind == "continue":
            if rest:
                raise Untranslatable("code after continue")
            if not self.loops or self.loops[-1] is None:
                raise Untranslatable("continue outside a loop")
            return "(LNext %s)" % self.tup(self.loops[-1])
        if kind == "for":
            return self.for_(st, env, cont)
        if kind == "whilelet":
            return self.while_(st, env, cont)
        raise Untranslatable("statement " + kind)

    def plain_if(self, e, env, cont):
        """an `if` without control flow whose branches cannot panic: a `let` of the variables it assigns"""
        names = sorted(self.mut_roots(("block", [("expr", ("if", ("cond", ("lit", "true")), e[2], e[3]))], None), env))
        saved_n = self.n

        def attempt(c_term):
            old = self.plain
            self.plain = True
            try:
                a = self.block_value(e[2], env, lambda t, x: self.tup(names))
                b = self.block_value(e[3], env, lambda t, x: self.tup(names)) if e[3] is not None else self.tup(names)
            finally:
                self.plain = old
            return a, b
        cond = e[1]
        try:
            if cond[0] == "cond":
                def got(t, c):
                    need(t, "bool", "condition")
                    a, b = attempt(c)
                    pat = self.match_pat(names) if len(names) <= 1 else "'" + self.tup(names)
                    return "(let %s := (if %s then %s else %s) in\n %s)" % (pat, c, a, b, cont(env))
                # the attempt must not swallow a NotPlain raised while translating what FOLLOWS the if
                probe = attempt("true")
                del probe
                self.n = saved_n
                return self.ev(cond[1], env, got)
        except NotPlain:
            self.n = saved_n
            return None
        return None

    def let(self, pat, init, env, cont):
        if pat[0] not in ("pvar", "pwild"):
            raise Untranslatable("let pattern " + pat[0])
        mutable = pat[0] == "pvar" and pat[2]
        # &mut borrows of a map entry
        b = self.borrow(init, env)
        if b is not None:
            if pat[0] != "pvar":
                raise Untranslatable("a &mut borrow bound to _")
            return b(pat[1], cont)

        def got(t, a):
            if isinstance(t, tuple) and t[0] == "entry":
                if pat[0] != "pvar":
                    return cont(env)
                env2 = dict(env)
                env2[pat[1]] = Var(t, "", False, None, self.depth)
                return cont(env2)
            if pat[0] == "pwild":
                return cont(env)
            env2, x = self.bind(env, pat[1], t, mutable)
            if a == x:
                return cont(env2)
            return "(let %s := %s in\n %s)" % (x, a, cont(env2))
        return self.ev(init, env, got)

    def borrow(self, e, env):
        """`let x = <e>` where e borrows (part of) a map mutably: a function (x, cont) -> term, or None.
             M.entry(k)                           x = the entry (no Coq value)
             M.entry(k).or_default()              x = a copy of the value, written back to M[k] after every mutation
             M.entry(k).or_default().entry(k2)    x = the entry k2 of that inner map
             M.get_mut(k).unwrap()                x = a copy of the value (panic when absent)"""
        if e[0] != "mcall":
            return None
        name = e[2]

        def map_place(m):
            p = self.resolve_place(m, env)
            if p is None or not (isinstance(p.ty, tuple) and p.ty[0] == "hm"):
                return None
            return p

        def keyed(kexpr, body):
            """evaluate the key into an atomic term first"""
            def got(t, a):
                need(t, "text", "map key")
                if is_atomic(a):
                    return body(a)
                kx = self.fresh("key")
                return "(let %s := %s in\n %s)" % (kx, a, body(kx))
            return self.ev(kexpr, env, got)

        def alias_var(x, ty, under, en):
            return self.bind(en, x, ty, mutable=True, place_of=lambda coq: Place("alias", ty, coq=coq, under=under, rust=x))

        if name == "entry" and len(e[3]) == 1:
            inner = e[1]
            m = map_place(inner)
            if m is not None:
                def mk(x, cont):
                    def body(kt):
                        env2 = dict(env)
                        env2[x] = Var(("entry", m, kt, m.ty[1]), "", False, None, self.depth)
                        return cont(env2)
                    return keyed(e[3][0], body)
                return mk
            ib = self.borrow(inner, env)
            if ib is not None and inner[0] == "mcall" and inner[2] in ("or_default", "unwrap"):
                def mk2(x, cont):
                    tmp = self.fresh("inner")

                    def after(en):
                        v = en[tmp]
                        if not (isinstance(v.ty, tuple) and v.ty[0] == "hm"):
                            raise Untranslatable(".entry on a " + tyname(v.ty))

                        def body(kt):
                            env2 = dict(en)
                            env2[x] = Var(("entry", v.place, kt, v.ty[1]), "", False, None, self.depth)
                            return cont(env2)
                        saved = env
                        return self.ev(e[3][0], en, lambda t, a: body(a) if is_atomic(a) else
                                       "(let %s := %s in\n %s)" % ("key_" + tmp, a, body("key_" + tmp)))
                    return ib(tmp, after)
                return mk2
            return None
        if name == "or_default" and not e[3] and e[1][0] == "mcall" and e[1][2] == "entry" and len(e[1][3]) == 1:
            m = map_place(e[1][1])
            if m is None:
                return None

            def mk3(x, cont):
                def body(kt):
                    V = m.ty[1]
                    under = Place("hmval", V, parent=m, key=kt)
                    env2, coq = alias_var(x, V, under, env)
                    t1 = self.fresh("m")
                    return "(let '(%s, %s) := hm_entry_or %s %s %s in\n %s)" % (
                        t1, coq, m.read(), kt, self.default_of(V), m.write(t1, cont(env2)))
                return keyed(e[1][3][0], body)
            return mk3
        if name == "unwrap" and not e[3] and e[1][0] == "mcall" and e[1][2] == "get_mut" and len(e[1][3]) == 1:
            m = map_place(e[1][1])
            if m is None:
                return None

            def mk4(x, cont):
                def body(kt):
                    V = m.ty[1]
                    under = Place("hmval", V, parent=m, key=kt)
                    env2, coq = alias_var(x, V, under, env)
                    return "(match hm_get %s %s with\n | Some %s => %s\n | None => %s end)" % (
                        m.read(), kt, coq, cont(env2), self.panic_term())
                return keyed(e[1][3][0], body)
            return mk4
        return None

    def assign(self, st, env, cont):
        op, lhs, rhs = st[1], st[2], st[3]
        place = self.resolve_place(lhs, env)
        if place is None:
            raise Untranslatable("assignment to something that is not a mutable variable or a field of one")

        def got(t, a):
            if op == "=":
                need(t, place.ty, "assignment")
                return place.write(a, cont(env))
            if op == "|=":
                need(t, "bool", "|=")
                need(place.ty, "bool", "|=")
                return place.write("(%s || %s)" % (place.read(), a), cont(env))
            need(t, "nat", op)
            need(place.ty, "nat", op)
            if op == "+=":
                return place.write("(%s + %s)" % (place.read(), a), cont(env))
            x = self.fresh("d")
            return "(match rs_usize_sub %s %s with\n | Some %s => %s\n | None => %s end)" % (
                place.read(), a, x, place.write(x, cont(env)), self.panic_term())
        return self.ev(rhs, env, got)

    def pack_result(self, env, val):
        f = self.fn
        outs = []
        if f.self_kind == "mut":
            outs.append(env["self"].coq)
        outs += [env[x].coq for x, t, m in f.params if m]
        if outs and f.ret == "unit":
            return self.tup(outs)
        return self.tup(outs + [val])

    def ret_term(self, e, env):
        if None in self.loops:
            raise Untranslatable("return inside a closure")
        if self.panic != "LPanic":
            raise Untranslatable("return inside the scrutinee of a while let")

        def fin(t, a):
            need(t, self.fn.ret, "returned value")
            return "(LReturn %s)" % self.pack_result(env, a)
        if e is None:
            return fin("unit", "tt")
        return self.ev(e, env, fin)

    # ---- loops
    def elem_type(self, t, what):
        if isinstance(t, tuple) and t[0] in ("vec", "deque") and t[1] != "any":
            return t[1]
        raise Untranslatable("%s over a %s" % (what, tyname(t)))

    def loop_body(self, blk, env, carried):
        if blk[2] is not None:
            blk = ("block", blk[1] + [("expr", blk[2])], None)
        self.loops.append(carried)
        try:
            return self.seq(blk[1], env, lambda en: "(LNext %s)" % self.tup(carried))
        finally:
            self.loops.pop()

    def for_(self, st, env, cont):
        pat, it, body = st[1], st[2], st[3]

        def got(t, l):
            et = self.elem_type(t, "for")
            carried = sorted(self.mut_roots(body, env, frozenset(pat_vars(pat))))
            self.depth += 1
            env2, x = self.bind_pat(env, pat, et)
            b = self.loop_body(body, env2, carried)
            self.depth -= 1
            return ("(match rs_for (fun %s %s =>\n %s)\n %s %s with\n | Done %s => %s\n | Returned ret_ => LReturn ret_\n | Panicked => %s end)"
                    % (x, self.lam_pat(carried), b, l, self.tup(carried), self.match_pat(carried), cont(env), self.panic_term()))
        return self.ev(it, env, got)

    def while_(self, st, env, cont):
        pat, sc, body = st[1], st[2], st[3]
        if not (pat[0] == "pctor" and pat[1] == "Some" and len(pat[2]) == 1):
            raise Untranslatable("while let with a pattern that is not Some(x)")
        if self.panic != "LPanic":
            raise Untranslatable("a loop inside the scrutinee of a while let")
        carried = sorted(self.mut_roots(body, env, frozenset(pat_vars(pat))) | self.mut_roots(sc, env))
        self.fn.uses_fuel = True
        et = []
        self.panic = "None"
        saved_loops = self.loops
        self.loops = self.loops + [None]
        try:
            def got(t, a):
                if not (isinstance(t, tuple) and t[0] == "opt"):
                    raise Untranslatable("while let Some(..) on a " + tyname(t))
                et.append(t[1])
                return "Some (%s, %s)" % (self.tup(carried), a)
            step = self.ev(sc, env, got)
        finally:
            self.panic = "LPanic"
            self.loops = saved_loops
        self.depth += 1
        env2, x = self.bind_pat(env, pat[2][0], et[0])
        b = self.loop_body(body, env2, carried)
        self.depth -= 1
        return ("(match rs_while_some fuel (fun %s =>\n %s)\n (fun %s %s =>\n %s)\n %s with\n | Done %s => %s\n"
                " | Returned ret_ => LReturn ret_\n | Panicked => %s end)"
                % (self.lam_pat(carried), step, x, self.lam_pat(carried), b, self.tup(carried),
                   self.match_pat(carried), cont(env), self.panic_term()))


class Emitter(Em, EmPure, EmFlow):
    pass


# ======================================================================= unit
def strip_tests(src):
    """remove every `#[cfg(test)] mod name { .. }`"""
    while True:
        m = re.search(r"#\[cfg\(test\)\]\s*mod\s+\w+\s*\{", src)
        if not m:
            return src
        body = pins.balanced(src, m.end() - 1)
        if body is None:
            raise Untranslatable("unbalanced test module")
        src = src[:m.start()] + src[m.end() - 1 + len(body):]


def depth_at(src, pos):
    """brace depth of src at pos (comments and strings removed beforehand)"""
    return src.count("{", 0, pos) - src.count("}", 0, pos)


def find_fns(region):
    """[(name, params text, return text | None, body text)] of the functions at brace depth 0 of region"""
    out = []
    for m in re.finditer(r"\bfn\s+(\w+)\s*\(", region):
        if depth_at(region, m.start()) != 0:
            continue
        # parameters up to the matching parenthesis
        i, depth = m.end(), 1
        while depth:
            depth += (region[i] == "(") - (region[i] == ")")
            i += 1
        params = region[m.end():i - 1]
        j = region.find("{", i)
        if j < 0:
            continue
        head = region[i:j]
        rm = re.match(r"\s*->\s*(.*?)\s*$", head, re.S)
        if head.strip() and not rm:
            raise Untranslatable("signature of %s: %r" % (m.group(1), head.strip()))
        body = pins.balanced(region, j)
        if body is None:
            raise Untranslatable("unbalanced body of " + m.group(1))
        out.append((m.group(1), params, rm.group(1) if rm else None, body))
    return out


def region_of(src, header_re):
    m = re.search(header_re, src)
    if not m:
        return None
    body = pins.balanced(src, m.end() - 1)
    if body is None:
        raise Untranslatable("unbalanced block after " + header_re)
    return body[1:-1]


class Unit:
    def __init__(self, src):
        src = strip_tests(pins.strip_rust_comments(src)) if hasattr(pins, "strip_rust_comments") else strip_tests(src)
        self.src = src
        self.consts = {}
        self.funcs = {}
        self.order = []
        self.stack = []
        STRUCTS.clear()
        for m in re.finditer(r"const\s+(\w+)\s*:\s*&(?:'static\s+)?str\s*=\s*\"((?:[^\"\\]|\\.)*)\"\s*;", src):
            self.consts[m.group(1)] = pins.rust_unescape(m.group(2))
        em = re.search(r"enum\s+EdgeVariant\s*\{([^}]*)\}", src)
        if not em or [x.strip() for x in em.group(1).split(",") if x.strip()] != ["Link", "Match"]:
            raise Untranslatable("enum EdgeVariant { Link, Match } not found")
        for name in STRUCT_COQ:
            body = region_of(src, r"struct\s+%s\s*\{" % name)
            if body is None:
                raise Untranslatable("struct %s not found" % name)
            fields = []
            skip = False
            for part in split_top(body):
                part = part.strip()
                if not part:
                    continue
                while part.startswith("#["):
                    am = re.match(r"(#\[(?:[^\[\]]|\[[^\]]*\])*\])\s*", part)
                    if not cached_attr(am.group(1)):
                        raise Untranslatable("attribute %s on a field of %s" % (am.group(1), name))
                    skip = True
                    part = part[am.end():]
                fm = re.match(r"(?:pub(?:\([^)]*\))?\s+)?(\w+)\s*:\s*(.+)$", part, re.S)
                if not fm:
                    raise Untranslatable("field of %s: %r" % (name, part))
                if skip:
                    if fm.group(1) != "cache":
                        raise Untranslatable("a field other than `cache` under #[cfg(feature = \"cached\")]")
                    skip = False
                    continue
                fields.append((fm.group(1), rust_type(fm.group(2))))
            STRUCTS[name] = {"coq": STRUCT_COQ[name][0], "prefix": STRUCT_COQ[name][1], "fields": fields}
        bfs_mod = region_of(src, r"mod\s+matching_bfs\s*\{")
        if bfs_mod is None:
            raise Untranslatable("mod matching_bfs not found")
        outer = src.replace(bfs_mod, "")
        items = []
        for owner, hdr, text in (("DefaultRoleManager", r"impl\s+DefaultRoleManager\s*\{", outer),
                                 ("DefaultRoleManager", r"impl\s+RoleManager\s+for\s+DefaultRoleManager\s*\{", outer),
                                 ("Bfs", r"impl\s+Bfs\s*\{", bfs_mod)):
            reg = region_of(text, hdr)
            if reg is None:
                raise Untranslatable("%s not found" % hdr)
            items += [(owner, f) for f in find_fns(reg)]
        items += [(None, f) for f in find_fns(outer)] + [(None, f) for f in find_fns(bfs_mod)]
        for owner, (name, params, ret, body) in items:
            self.add_fn(owner, name, params, ret, body)

    def add_fn(self, owner, name, params, ret, body):
        self_kind = None
        ps = []
        for part in split_top(params):
            part = part.strip()
            if not part:
                continue
            compact = re.sub(r"\s+", "", part)
            if compact in ("&self", "&mutself"):
                self_kind = "mut" if compact == "&mutself" else "ref"
                continue
            if compact == "self":
                raise Untranslatable("%s takes self by value" % name)
            pm = re.match(r"(?:mut\s+)?(\w+)\s*:\s*(.+)$", part, re.S)
            if not pm:
                raise Untranslatable("parameter %r of %s" % (part, name))
            ty_text = re.sub(r"\s+", "", pm.group(2))
            ps.append((pm.group(1), rust_type(ty_text), ty_text.startswith("&mut")))
        rt = rust_type(ret) if ret else "unit"
        if rt == ("struct", "Self"):
            rt = ("struct", owner)
        if owner == "Bfs":
            coq = "gen_bfs_" + name
        else:
            coq = "gen_" + name
        key = (owner, name)
        if key in self.funcs:
            raise Untranslatable("two functions named " + name)
        p = RP(lex(body))
        blk = p.block()
        if p.peek()[0] != "eof":
            raise Untranslatable("%s: trailing tokens" % name)
        self.funcs[key] = Func(name, owner, coq, self_kind, ps, rt, blk)

    def require(self, f):
        if f.done:
            return
        if f in self.stack:
            raise Untranslatable("recursion through " + f.rust)
        self.stack.append(f)
        try:
            translate_fn(self, f)
        finally:
            self.stack.pop()
        f.done = True
        self.order.append(f)


def needs_flow(f):
    if f.self_kind == "mut" or any(m for _, _, m in f.params):
        return True
    return contains(f.body, lambda n: n[0] in ("assign", "for", "whilelet") or (n[0] == "let" and n[1][0] == "pvar" and n[1][2]))


def translate_fn(unit, f):
    em = Emitter(unit, f)
    env = {}
    binders = []
    if f.self_kind is not None:
        ty = ("struct", f.owner)
        env["self"] = Var(ty, "self", f.self_kind == "mut", Place("var", ty, coq="self", rust="self") if f.self_kind == "mut" else None, 0)
        binders.append("(self : %s)" % coq_ty(ty))
    for x, t, m in f.params:
        env[x] = Var(t, "v_" + x, m, Place("var", t, coq="v_" + x, rust=x) if m else None, 0)
        binders.append("(v_%s : %s)" % (x, coq_ty(t)))
    f.mode = "flow" if needs_flow(f) else "pure"
    if f.mode == "pure":
        t, a, p = em.pure_block(f.body, env)
        need(t, f.ret, "value of " + f.rust)
        f.partial = p
        rty = coq_ty(f.ret, True)
        rty = "option %s" % rty if p else coq_ty(f.ret)
        term = a
    else:
        blk = f.body

        def end(en):
            if blk[2] is None:
                return em.ret_term(None, en)
            return em.ret_term(blk[2], en)
        outs = [coq_ty(t, True) for _, t in f.outs()]
        if outs and f.ret == "unit":
            inner = " * ".join(outs)
        else:
            inner = " * ".join(outs + [coq_ty(f.ret, True)])
        # the result type is given to rs_fn: Coq's inference overflows its stack on an un-annotated `LReturn (x, None)`
        term = "rs_fn (R := %s) %s" % (inner, em.seq(blk[1], env, end))
        rty = "option (%s)" % inner if " " in inner else "option %s" % inner
    extra = []
    if f.uses_ord:
        extra.append("(ord : list text -> list text)")
    if f.uses_fuel:
        extra.append("(fuel : nat)")
    f.text = "Definition %s %s : %s :=\n %s.\n" % (f.coq, " ".join(extra + binders), rty, term)


def record_text(name):
    st = STRUCTS[name]
    fields = st["fields"]
    out = ["Record %s := { %s }." % (st["coq"], ";\n  ".join("%s%s : %s" % (st["prefix"], f, coq_ty(t)) for f, t in fields))]
    for f, t in fields:
        out.append("Definition set_%s%s (s : %s) (x : %s) : %s :=\n  {| %s |}." % (
            st["prefix"], f, st["coq"], coq_ty(t), st["coq"],
            "; ".join("%s%s := %s" % (st["prefix"], g, "x" if g == f else "%s%s s" % (st["prefix"], g)) for g, _ in fields)))
    return "\n".join(out) + "\n"


# the functions whose translation the obligations of PcRoleManagerGen.v are about; (owner, name)
COVERED = [(None, "link_if_matches"), ("DefaultRoleManager", "new"), ("DefaultRoleManager", "get_or_create_role"),
           ("DefaultRoleManager", "matched_domains"), ("DefaultRoleManager", "domain_has_role"),
           ("DefaultRoleManager", "clear"), ("DefaultRoleManager", "add_link"), ("DefaultRoleManager", "matching_fn"),
           ("DefaultRoleManager", "delete_link"), (None, "bfs_iterator"), ("Bfs", "new"), ("Bfs", "update_depth"),
           ("Bfs", "next"), ("DefaultRoleManager", "has_link"), ("DefaultRoleManager", "get_roles"),
           ("DefaultRoleManager", "get_users")]


def generate():
    out = ["(* GENERATED on every run by tools/rs2coq.py (tools/rs2coq_rm.py) from /repo/src/rbac/default_role_manager.rs",
           "   - do not edit.  DefaultRoleManager, link_if_matches and the bounded BFS of mod matching_bfs over the",
           "   operations of Gen/Petgraph.v, Gen/RustIter.v and Gen/RustVec.v; None / LPanic = a panic (or, for a",
           "   `while let`, more than `fuel` iterations); `ord` = the iteration order of the hash containers. *)",
           "From CV Require Import Model.Base Model.RoleGraph Model.RoleGraphM Gen.RustStr Gen.RustVec Gen.RustIter Gen.Petgraph.", ""]
    ok = True
    src = pins.read(RM_FILE)
    unit = None
    try:
        if not src:
            raise Untranslatable(RM_FILE + " not found")
        unit = Unit(src)
        for c, v in sorted(unit.consts.items()):
            out.append("Definition gen_%s : text := %s." % (c, coq_text(v)))
        out.append("")
        for name in ("DefaultRoleManager", "Bfs"):
            out.append(record_text(name))
    except Exception as ex:   # noqa
        ok = False
        out.append("(* translation failed: %s *)" % str(ex).replace("*)", "* )").replace("(*", "( *"))
        unit = None
    if unit is not None:
        missing = [k for k in COVERED if k not in unit.funcs]
        if missing:
            ok = False
            out.append("(* functions not found: %s *)" % ", ".join(n for _, n in missing))
        for key in COVERED:
            f = unit.funcs.get(key)
            if f is None:
                continue
            try:
                unit.require(f)
            except RecursionError:
                raise
            except Exception as ex:   # noqa
                ok = False
                out.append("(* translation of %s failed: %s *)\n" % (f.rust, str(ex).replace("*)", "* )").replace("(*", "( *")))
        for f in unit.order:
            out.append(f.text)
    out.append("Definition gen_rm_translated : bool := %s." % ("true" if ok else "false"))
    return "\n".join(out) + "\n", ok


def main(dst_dir=None):
    import rs2coq
    dst_dir = dst_dir or "/verif/coq/Gen"
    txt, ok = generate()
    rs2coq.write_if_changed(os.path.join(dst_dir, "RoleManagerGen.v"), txt, ok)


if __name__ == "__main__":
    if len(sys.argv) > 1 and sys.argv[1] == "-":
        sys.stdout.write(generate()[0])
    else:
        main(sys.argv[1] if len(sys.argv) > 1 else None)
