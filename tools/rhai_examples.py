#!/usr/bin/env python3
"""Validation of coq/Model/Expr.v (the hand model of the rhai matcher-expression fragment: `expr`, `eval`,
`print_expr`) against the REAL rhai engine, on every run - the way tools/rx_crate_examples.py validates Gen/Regex.v.

Every case is (AST, scope, registered functions).  The AST is printed to matcher text by a Python re-implementation
of the model's `print_expr` (an `Example .. print_expr ast = text` per case keeps the two printers together, and
`parse_expr text = Some ast` - Proofs/ExprParse.v - reads the text back).  The text is evaluated by a tiny cargo
project (<root>/.build/rhai, offline, /repo/Cargo.lock, `casbin = { path = /repo }` so that rhai has EXACTLY the
feature set casbin pins) with an engine configured as src/enforcer.rs configures it:

    Engine::new_raw(); register_global_module(CasbinPackage)   -- the def_package! block is copied from enforcer.rs
    register_fn of FunctionMap::default(), g-functions over a real DefaultRoleManager, add_function user functions
    text -> remove_comment -> escape_assertion (DefaultModel::add_def) -> escape_eval -> compile_expression
    eval_ast_with_scope::<Dynamic> on a scope of push_constant_dynamic values

and, wherever the case has the shape of a request + one policy rule, a second time as the matcher of a real
casbin::Enforcer (enforce / enforce_with_context): Ok(b) must be exactly "the direct engine answered the bool b".

Engine answer -> expected value of `eval (call_fn fs) ptab scope eval_fuel ast`:
    Ok(Dynamic)  -> EV v            Err(..) at run time -> EErr            a Rust panic -> EPanic
    compile (parse) error -> EErr   (casbin returns the compile error before anything is evaluated; marked in the comment)
Where the model answers something else the Example is named `.._differs` and states the MODEL's value, the engine's
value is in the comment and in the `rh_differs` summary at the end of the file.

Raw-text cases (precedence / associativity WITHOUT the parentheses print_expr inserts) carry a hand-written AST:
`parse_expr text = Some ast` is checked by Coq, the text goes to the engine as it is.

usage: python3 tools/rhai_examples.py        (rewrites coq/Gen/RhaiExamples.v when the engine's answers changed)
"""
import hashlib
import os
import re
import shutil
import subprocess
import sys
import tempfile

HERE = os.path.dirname(os.path.abspath(__file__))
ROOT = os.path.dirname(HERE)
REPO = os.environ.get("VERIF_REPO", "/repo")


# ------------------------------------------------------------------ ASTs (Python side)
def bts(s):
    return s if isinstance(s, bytes) else s.encode("utf-8")


def S(s):
    return ("lit_s", bts(s))


def I(n):
    return ("lit_i", n)


def B(b):
    return ("lit_b", bool(b))


def V(name):
    pre, fld = name.split(".", 1)
    return ("var", bts(pre), bts(fld))


def Prop(e, f):
    return ("prop", e, bts(f))


def Eq(a, b):
    return ("eq", a, b)


def Neq(a, b):
    return ("neq", a, b)


def Cmp(op, a, b):
    return ("cmp", op, a, b)


def And(a, b):
    return ("and", a, b)


def Or(a, b):
    return ("or", a, b)


def Not(a):
    return ("not", a)


def In(a, xs):
    return ("in", a, list(xs))


def Call(f, *args):
    return ("call", bts(f), list(args))


def Eval(name):
    pre, fld = name.split(".", 1)
    return ("eval", bts(pre), bts(fld))


CMPS = {"lt": (b" < ", "CLt"), "le": (b" <= ", "CLe"), "gt": (b" > ", "CGt"), "ge": (b" >= ", "CGe")}


# ------------------------------------------------------------------ print_expr, re-implemented (Model/Expr.v)
def esc_lit(s):
    out = bytearray()
    for c in s:
        if c in (0x22, 0x5c):
            out.append(0x5c)
        out.append(c)
    return bytes(out)


def print_Z(z):
    # print_pos_fuel 20: at most the 20 low digits
    if z == 0:
        return b"0"
    d = str(abs(z))[-20:].encode()
    return (b"-" if z < 0 else b"") + d


def wrap(ctx, prec, s):
    return b"(" + s + b")" if prec < ctx else s


def print_at(ctx, e):
    k = e[0]
    if k == "lit_s":
        return b'"' + esc_lit(e[1]) + b'"'
    if k == "lit_i":
        return print_Z(e[1])
    if k == "lit_b":
        return b"true" if e[1] else b"false"
    if k == "var":
        return e[1] + b"." + e[2]
    if k == "prop":
        return print_at(6, e[1]) + b"." + e[2]
    if k == "eq":
        return wrap(ctx, 3, print_at(6, e[1]) + b" == " + print_at(6, e[2]))
    if k == "neq":
        return wrap(ctx, 3, print_at(6, e[1]) + b" != " + print_at(6, e[2]))
    if k == "cmp":
        return wrap(ctx, 5, print_at(6, e[2]) + CMPS[e[1]][0] + print_at(6, e[3]))
    if k == "and":
        return wrap(ctx, 2, print_at(2, e[1]) + b" && " + print_at(3, e[2]))
    if k == "or":
        return wrap(ctx, 1, print_at(1, e[1]) + b" || " + print_at(2, e[2]))
    if k == "not":
        return wrap(ctx, 6, b"!" + print_at(7, e[1]))
    if k == "in":
        return wrap(ctx, 4, print_at(6, e[1]) + b" in [" + b", ".join(print_at(0, x) for x in e[2]) + b"]")
    if k == "call":
        return e[1] + b"(" + b", ".join(print_at(0, x) for x in e[2]) + b")"
    if k == "eval":
        return b"eval(" + e[1] + b"." + e[2] + b")"
    raise ValueError(k)


def print_expr(e):
    return print_at(0, e)


# ------------------------------------------------------------------ Gallina rendering
def coq_str(s):
    return '"' + s.replace('"', '""') + '"'


def coq_text(b):
    """a Gallina term of type text for arbitrary bytes"""
    b = bts(b)
    if not b:
        return '(T "")'
    parts, cur = [], ""
    for x in b:
        if 32 <= x < 127:
            cur += chr(x)
        else:
            if cur:
                parts.append("T %s" % coq_str(cur))
                cur = ""
            parts.append("[ascii_of_nat %d]" % x)
    if cur:
        parts.append("T %s" % coq_str(cur))
    return "(" + " ++ ".join(parts) + ")"


def coq_Z(n):
    return "(%d)%%Z" % n


def coq_expr(e):
    k = e[0]
    if k == "lit_s":
        return "(ELit (SStr %s))" % coq_text(e[1])
    if k == "lit_i":
        return "(ELit (SInt %s))" % coq_Z(e[1])
    if k == "lit_b":
        return "(ELit (SBool %s))" % ("true" if e[1] else "false")
    if k == "var":
        return "(EVar %s %s)" % (coq_text(e[1]), coq_text(e[2]))
    if k == "prop":
        return "(EProp %s %s)" % (coq_expr(e[1]), coq_text(e[2]))
    if k == "eq":
        return "(EEq %s %s)" % (coq_expr(e[1]), coq_expr(e[2]))
    if k == "neq":
        return "(ENeq %s %s)" % (coq_expr(e[1]), coq_expr(e[2]))
    if k == "cmp":
        return "(ECmp %s %s %s)" % (CMPS[e[1]][1], coq_expr(e[2]), coq_expr(e[3]))
    if k == "and":
        return "(EAnd %s %s)" % (coq_expr(e[1]), coq_expr(e[2]))
    if k == "or":
        return "(EOr %s %s)" % (coq_expr(e[1]), coq_expr(e[2]))
    if k == "not":
        return "(ENot %s)" % coq_expr(e[1])
    if k == "in":
        return "(EIn %s [%s])" % (coq_expr(e[1]), "; ".join(coq_expr(x) for x in e[2]))
    if k == "call":
        return "(ECall %s [%s])" % (coq_text(e[1]), "; ".join(coq_expr(x) for x in e[2]))
    if k == "eval":
        return "(EEval %s %s)" % (coq_text(e[1]), coq_text(e[2]))
    raise ValueError(k)


# values: ("s", bytes) | ("i", int) | ("b", bool) | ("u",) | ("m", [(key, scalar)])  (keys sorted and distinct)
def vs(s):
    return ("s", bts(s))


def vi(n):
    return ("i", n)


def vb(b):
    return ("b", bool(b))


VU = ("u",)


def vm(**kw):
    return ("m", sorted((bts(k), v) for k, v in kw.items()))


def coq_scalar(v):
    if v[0] == "s":
        return "SStr %s" % coq_text(v[1])
    if v[0] == "i":
        return "SInt %s" % coq_Z(v[1])
    if v[0] == "b":
        return "SBool %s" % ("true" if v[1] else "false")
    raise ValueError(v)


def coq_value(v):
    if v[0] == "s":
        return "VStr %s" % coq_text(v[1])
    if v[0] == "i":
        return "VInt %s" % coq_Z(v[1])
    if v[0] == "b":
        return "VBool %s" % ("true" if v[1] else "false")
    if v[0] == "u":
        return "VUnit"
    if v[0] == "m":
        return "VMap [%s]" % "; ".join("(%s, %s)" % (coq_text(k), coq_scalar(x)) for k, x in v[1])
    raise ValueError(v)


def coq_eres(r):
    if r == "EErr" or r == "EPanic":
        return r
    return "EV (%s)" % coq_value(r)


def show_eres(r):
    """for comments"""
    if isinstance(r, str):
        return r
    if r[0] == "s":
        return "Ok(%r)" % r[1].decode("utf-8", "replace")
    if r[0] == "i":
        return "Ok(%d)" % r[1]
    if r[0] == "b":
        return "Ok(%s)" % ("true" if r[1] else "false")
    if r[0] == "u":
        return "Ok(())"
    if r[0] == "m":
        return "Ok(#{%s})" % ", ".join("%s: %s" % (k.decode(), show_eres(x)[3:-1]) for k, x in r[1])
    return repr(r)


def hx(b):
    return bts(b).hex()


def drv_value(v):
    if v[0] == "s":
        return "S %s" % hx(v[1])
    if v[0] == "i":
        return "I %d" % v[1]
    if v[0] == "b":
        return "B %d" % (1 if v[1] else 0)
    if v[0] == "u":
        return "U"
    if v[0] == "m":
        if not v[1]:
            return "M -"
        return "M " + ",".join("%s=%s" % (hx(k), drv_value(x).replace(" ", ":")) for k, x in v[1])
    raise ValueError(v)


# ------------------------------------------------------------------ the cases
# BEGIN CASES
MAP1 = vm(age=vi(30), name=vs("alice"), ok=vb(True))
MAP2 = vm(age=vi(31), name=vs("alice"), ok=vb(True))
MAP3 = vm(age=vs("30"), name=vs("alice"), ok=vb(True))      # same keys as MAP1, one value of another type
MAP4 = vm(age=vi(30))
MAP0 = vm()

# the standard scope: request values of every kind (r = sub, obj, act, n, k, b, f, u, m, m1, m2, m3, m4, m0),
# one policy rule of strings (p = sub, obj, act, rule, ...)
BASE_R = [("r_sub", vs("alice")), ("r_obj", vs("/data/1")), ("r_act", vs("read")), ("r_n", vi(5)), ("r_k", vi(6)),
          ("r_b", vb(True)), ("r_f", vb(False)), ("r_u", VU), ("r_m", MAP1), ("r_m1", MAP1), ("r_m2", MAP2),
          ("r_m3", MAP3), ("r_m4", MAP4), ("r_m0", MAP0)]
BASE_P = [("p_sub", vs("alice")), ("p_obj", vs("/data/*")), ("p_act", vs("read")), ("p_eft", vs("allow"))]


def scope(extra_p=(), extra_r=()):
    return BASE_R + list(extra_r) + BASE_P + list(extra_p)


def py_eval(e):
    """the model's semantics on literal-only expressions (to choose operands that make a precedence mistake visible);
    values: ("i", n) | ("b", x) | "err" """
    k = e[0]
    if k == "lit_i":
        return ("i", e[1])
    if k == "lit_b":
        return ("b", e[1])
    if k in ("eq", "neq"):
        a, b = py_eval(e[1]), py_eval(e[2])
        if "err" in (a, b):
            return "err"
        return ("b", (a == b) == (k == "eq"))
    if k == "cmp":
        a, b = py_eval(e[2]), py_eval(e[3])
        if "err" in (a, b):
            return "err"
        if a[0] != b[0]:
            return ("b", False)
        x, y = int(a[1]), int(b[1])
        return ("b", {"lt": x < y, "le": x <= y, "gt": x > y, "ge": x >= y}[e[1]])
    if k in ("and", "or"):
        a = py_eval(e[1])
        if a == "err" or a[0] != "b":
            return "err"
        if a[1] == (k == "or"):
            return a
        b = py_eval(e[2])
        if b == "err" or b[0] != "b":
            return "err"
        return b
    if k == "not":
        a = py_eval(e[1])
        if a == "err" or a[0] != "b":
            return "err"
        return ("b", not a[1])
    if k == "in":
        a = py_eval(e[1])
        xs = [py_eval(x) for x in e[2]]
        if a == "err" or "err" in xs:
            return "err"
        return ("b", a in xs)
    raise ValueError(k)


AST_KINDS = ("lit_s", "lit_i", "lit_b", "var", "prop", "eq", "neq", "cmp", "and", "or", "not", "in", "call", "eval")


def refused(e):
    """rhai refuses the matcher when it compiles it: an int literal as an operand of && / || (class 06b)"""
    if e[0] in ("and", "or") and (e[1][0] == "lit_i" or e[2][0] == "lit_i"):
        return True
    return any(refused(x) for x in e[1:] if isinstance(x, tuple) and x and x[0] in AST_KINDS) or \
        any(refused(y) for x in e[1:] if isinstance(x, list) for y in x)


BIN = {
    "or": lambda a, b: Or(a, b), "and": lambda a, b: And(a, b), "eq": lambda a, b: Eq(a, b), "neq": lambda a, b: Neq(a, b),
    "lt": lambda a, b: Cmp("lt", a, b), "le": lambda a, b: Cmp("le", a, b), "gt": lambda a, b: Cmp("gt", a, b),
    "ge": lambda a, b: Cmp("ge", a, b),
}
LEAVES = [B(True), B(False), I(1), I(2), I(3)]


def build_cases():
    cases = []

    def add(cls, ast, sc=None, **kw):
        c = dict(cls=cls, ast=ast, scope=scope() if sc is None else sc)
        c.update(kw)
        cases.append(c)

    # ---------------------------------------------------------------- 1. atoms
    cls = "01 atoms: literals and variables of every kind"
    for e in [S("alice"), S(""), I(0), I(5), I(-5), B(True), B(False), V("r.sub"), V("r.n"), V("r.b"), V("r.u"), V("r.m"),
              V("r.m0"), V("p.sub"), V("r.zzz"), V("p.zzz")]:
        add(cls, e)
    add(cls, S('a"b\\c'))
    add(cls, S("it's, [ok] (really) && || == !"))
    add(cls, S("héllo € \U0001d11e"))

    # ---------------------------------------------------------------- 2. == and != on every pair of kinds
    pool = [V("r.sub"), S("alice"), S("bob"), V("r.n"), I(5), I(6), V("r.b"), B(True), B(False), V("r.u"), V("r.m"),
            V("r.m1"), V("r.m2"), V("r.m3"), V("r.m4"), V("r.m0")]
    cls = "02 `==` on every pair of operand kinds (string, int, bool, unit, map; equal and different values)"
    for a in pool:
        for b in pool:
            add(cls, Eq(a, b))
    cls = "03 `!=` on every pair of operand kinds"
    small = [V("r.sub"), S("bob"), V("r.n"), I(6), V("r.b"), B(False), V("r.u"), V("r.m"), V("r.m1"), V("r.m2"), V("r.m3")]
    for a in small:
        for b in small:
            add(cls, Neq(a, b))

    # ---------------------------------------------------------------- 3. comparisons
    cls = "04 `<` `<=` `>` `>=` on every pair of operand kinds"
    strs = [V("r.sub"), S("bob"), S("")]
    ints = [V("r.n"), I(6), I(-1)]
    bools = [V("r.b"), B(False)]
    reps = [S("alice"), I(5), B(True), V("r.u"), V("r.m")]
    pairs = [(a, b) for grp in (strs, ints, bools) for a in grp for b in grp]
    pairs += [(V("r.u"), V("r.u")), (V("r.m"), V("r.m")), (V("r.m"), V("r.m2")), (V("r.m0"), V("r.m0"))]
    pairs += [(a, b) for a in reps for b in reps if a is not b]
    for op in ("lt", "le", "gt", "ge"):
        for a, b in pairs:
            add(cls, Cmp(op, a, b))
    cls = "05 string order: byte-wise = code-point-wise on UTF-8, prefixes, case"
    spairs = [("é", "z"), ("z", "é"), ("Z", "a"), ("héllo", "hzllo"), ("€", "é"), ("\U0001d11e", "€"),
              ("￿", "\U00010000"), ("ab", "abc"), ("abc", "ab"), ("", ""), ("a", "a"), ("à", "à")]
    for x, y in spairs:
        for op in ("lt", "le", "gt", "ge"):
            add(cls, Cmp(op, S(x), S(y)))
        add(cls, Eq(S(x), S(y)))
    ext = [("r_s1", vs("été")), ("r_s2", vs("zzz"))]
    for op in ("lt", "le", "gt", "ge"):
        add(cls, Cmp(op, V("r.s1"), V("r.s2")), scope(extra_r=ext))

    # ---------------------------------------------------------------- 4. && and ||
    cls = "06 `&&` `||`: truth tables, short circuit over an ERRORING right operand, non-bool operands"
    for a in (B(True), B(False)):
        for b in (B(True), B(False)):
            add(cls, And(a, b))
            add(cls, Or(a, b))
    errs = [V("r.zzz"), Call("nosuch", V("r.sub")), Not(I(1)), Eval("r.n"), Prop(V("r.sub"), "x"), Cmp("lt", V("r.m"), V("r.m")),
            Call("regexMatch", S("a"), S("("))]
    for x in errs:
        add(cls, And(B(False), x))      # not evaluated
        add(cls, Or(B(True), x))        # not evaluated
        add(cls, And(B(True), x))       # evaluated
        add(cls, Or(B(False), x))       # evaluated
        add(cls, And(x, B(False)))      # left operand first
        add(cls, Or(x, B(True)))
    nonb = [V("r.n"), V("r.sub"), V("r.u"), V("r.m"), Prop(V("r.m"), "age"), Prop(V("r.m"), "zzz"),
            Call("keyGet", S("/a/b"), S("/a/*")), Eval("r.u")]
    for x in nonb:
        add(cls, And(x, B(True)))
        add(cls, And(B(True), x))
        add(cls, And(B(False), x))      # short circuit: the non-bool is never looked at
        add(cls, Or(x, B(True)))
        add(cls, Or(B(False), x))
        add(cls, Or(B(True), x))
    add(cls, And(V("r.b"), V("r.f")))
    add(cls, Or(V("r.f"), V("r.b")))

    cls = "06b `&&` `||` with a LITERAL operand that is no bool: rhai refuses the matcher when it compiles it"
    lit_why = ("rhai's parser checks the operands of && and || (ensure_bool_expr): an int or string LITERAL there is a compile error"
               " of the whole matcher, evaluated or not; the model's eval is lazy and only fails when it reaches the operand")
    for x in [I(1), I(0), S("true"), S("")]:
        for e in [And(x, B(True)), And(B(True), x), And(B(False), x), Or(x, B(True)), Or(B(False), x), Or(B(True), x)]:
            add(cls, e, why=lit_why)
    for e in [Or(B(True), And(V("r.b"), I(1))), And(B(False), Or(S("x"), V("r.b"))), Not(And(B(False), I(1))),
              Eq(B(False), And(B(False), I(1))), In(B(False), [And(B(False), I(1))]),
              Call("keyMatch", S("a"), And(B(False), S("a")))]:
        add(cls, e, why=lit_why)
    # not refused: a bool literal, a parenthesised literal is still a literal, a negative number, `!` of a literal
    for e in [And(B(True), B(True)), Or(B(False), Not(I(1))), And(B(False), Eq(I(1), I(1))), And(B(False), I(-1)), Or(B(True), I(-1))]:
        add(cls, e, why=lit_why)

    # ---------------------------------------------------------------- 5. !
    cls = "07 `!` on bools, on every other kind, on errors"
    for x in [B(True), B(False), V("r.b"), V("r.f"), I(0), I(1), S("true"), V("r.u"), V("r.m"), V("r.zzz"),
              Not(B(True)), Not(Not(V("r.b"))), Not(I(1)), Eq(I(1), I(1)), Cmp("lt", I(2), I(1)), And(B(True), B(False)),
              In(I(1), [I(1)]), Call("keyMatch", S("/a/b"), S("/a/*")), Prop(V("r.m"), "ok"), Prop(V("r.m"), "age")]:
        add(cls, Not(x))

    # ---------------------------------------------------------------- 6. in
    cls = "08 `in` with arrays of literals and variables"
    ins = [
        In(V("r.sub"), [S("alice"), S("bob")]), In(V("r.sub"), [S("bob"), S("carol")]), In(V("r.sub"), []),
        In(S("bob"), [V("r.sub"), V("p.sub"), S("bob")]), In(V("r.n"), [I(1), I(5)]), In(V("r.n"), [I(1), I(2)]),
        In(V("r.n"), [S("5")]), In(V("r.sub"), [I(1), S("alice")]), In(V("r.sub"), [I(1), B(True)]), In(I(5), [V("r.n")]),
        In(V("r.b"), [B(True)]), In(V("r.b"), [B(False)]), In(B(False), [V("r.b"), V("r.f")]), In(V("r.u"), [V("r.u")]),
        In(V("r.u"), [I(1)]), In(V("r.u"), []), In(V("r.m"), [V("r.m1")]), In(V("r.m"), [V("r.m2"), V("r.m3")]),
        In(V("r.m"), [V("r.m2"), V("r.m1")]), In(V("r.m"), [I(1), S("x")]), In(I(30), [Prop(V("r.m"), "age")]),
        In(Prop(V("r.m"), "name"), [S("alice")]), In(Prop(V("r.m"), "zzz"), [V("r.u")]),
        # errors: every element is evaluated (the array is built first), also after a hit
        In(V("r.zzz"), []), In(V("r.zzz"), [S("a")]), In(V("r.sub"), [V("r.zzz")]), In(V("r.sub"), [S("alice"), V("r.zzz")]),
        In(V("r.sub"), [S("alice"), Not(I(1))]), In(V("r.sub"), [Call("nosuch"), S("alice")]),
        In(Call("keyGet", S("/a/b"), S("/a/*")), [S("b")]), In(V("r.sub"), [Call("keyGet", S("/a/alice"), S("/a/*"))]),
        In(Eq(I(1), I(1)), [B(True)]), In(Cmp("lt", I(1), I(2)), [B(False)]), In(And(B(True), B(True)), [B(True)]),
        In(Not(B(False)), [B(True)]), In(In(I(1), [I(1)]), [B(True)]), In(S("a"), [S("a"), S("a")]),
        In(I(1), [In(I(1), [I(1)])]), In(B(True), [In(I(1), [I(1)]), Eq(I(1), I(2))]),
    ]
    for e in ins:
        add(cls, e)

    # ---------------------------------------------------------------- 7. property access
    cls = "09 property access: present / missing key, on a non-map, chains"
    for e in [Prop(V("r.m"), "age"), Prop(V("r.m"), "name"), Prop(V("r.m"), "ok"), Prop(V("r.m"), "zzz"), Prop(V("r.m0"), "age"),
              Prop(V("r.sub"), "age"), Prop(V("r.n"), "age"), Prop(V("r.b"), "age"), Prop(V("r.u"), "age"), Prop(V("p.sub"), "x"),
              Prop(V("r.zzz"), "age"), Prop(Prop(V("r.m"), "name"), "x"), Prop(Prop(V("r.m"), "zzz"), "x"),
              Prop(S("abc"), "len"), Prop(I(1), "x"), Prop(B(True), "x"), Prop(Eq(I(1), I(1)), "x"),
              Prop(Call("keyGet", S("/a/b"), S("/a/*")), "x"),
              Eq(Prop(V("r.m"), "age"), I(30)), Cmp("gt", Prop(V("r.m"), "age"), I(18)), Cmp("lt", Prop(V("r.m3"), "age"), I(18)),
              Eq(Prop(V("r.m"), "name"), V("p.sub")), And(Prop(V("r.m"), "ok"), Cmp("ge", Prop(V("r.m"), "age"), I(30))),
              Eq(Prop(V("r.m"), "zzz"), V("r.u")), Cmp("lt", Prop(V("r.m"), "zzz"), I(1)), Not(Prop(V("r.m"), "zzz")),
              Call("keyMatch", Prop(V("r.m"), "name"), S("ali*")), Call("keyMatch", Prop(V("r.m"), "age"), S("*"))]:
        add(cls, e)

    # ---------------------------------------------------------------- 8. function calls
    cls = "10 calls: built-ins, unknown names, wrong arity, non-string arguments, user functions, role functions"
    for e in [Call("keyMatch", V("r.obj"), V("p.obj")), Call("keyMatch", V("r.sub"), V("p.obj")), Call("keyMatch", S("/a/b"), S("/a/*")),
              Call("keyGet", V("r.obj"), V("p.obj")), Call("keyGet", S("/a"), S("/b/*")), Call("keyMatch2", S("/a/b"), S("/a/:id")),
              Call("keyMatch2", S("/a/b/c"), S("/a/:id")), Call("keyGet2", S("/a/b"), S("/a/:id"), S("id")),
              Call("keyMatch3", S("/a/b"), S("/a/{id}")), Call("keyGet3", S("/a/b"), S("/a/{id}"), S("id")),
              Call("keyMatch4", S("/a/b/b"), S("/a/{x}/{x}")), Call("keyMatch4", S("/a/b/c"), S("/a/{x}/{x}")),
              Call("keyMatch5", S("/a/b?x=1"), S("/a/*")), Call("regexMatch", S("alice"), S("alice|bob")),
              Call("regexMatch", S("carol"), S("alice|bob")),
              # unknown name / wrong arity
              Call("nosuch"), Call("nosuch", V("r.sub")), Call("KeyMatch", S("a"), S("a")), Call("keyMatch"), Call("keyMatch", S("a")),
              Call("keyMatch", S("a"), S("a"), S("a")), Call("keyGet2", S("a"), S("a")), Call("keyGet", S("a"), S("a"), S("a")),
              # non-string arguments
              Call("keyMatch", V("r.n"), S("*")), Call("keyMatch", S("a"), I(1)), Call("keyMatch", V("r.b"), V("r.b")),
              Call("keyMatch", V("r.u"), S("*")), Call("keyMatch", V("r.m"), S("*")), Call("keyMatch", I(1), I(1)),
              Call("regexMatch", B(True), S("true")), Call("keyGet2", S("/a/b"), S("/a/:id"), I(1)),
              # an erroring argument; arguments are evaluated left to right before the lookup
              Call("keyMatch", V("r.zzz"), S("*")), Call("keyMatch", S("a"), V("r.zzz")), Call("nosuch", V("r.zzz")),
              Call("keyMatch", V("r.zzz"), I(1)), Call("nosuch", Call("regexMatch", S("a"), S("("))),
              # nesting; results used by operators
              Call("keyMatch", Call("keyGet", S("/a/alice"), S("/a/*")), V("r.sub")), Eq(Call("keyGet", V("r.obj"), V("p.obj")), S("1")),
              And(Call("keyMatch", V("r.obj"), V("p.obj")), Eq(V("r.act"), V("p.act"))), And(Call("keyGet", S("/a/b"), S("/a/*")), B(True)),
              Not(Call("keyGet", S("/a/b"), S("/a/*"))), Call("regexMatch", S("a"), S("(")),
              Or(Call("regexMatch", S("a"), S("(")), B(True))]:
        add(cls, e)
    uf = [("same", "Eq"), ("differ", "Neq"), ("startsWith", "Prefix"), ("always", "True")]
    for e in [Call("same", V("r.sub"), V("p.sub")), Call("same", V("r.sub"), V("r.act")), Call("differ", V("r.sub"), V("r.act")),
              Call("differ", V("r.sub"), V("p.sub")), Call("startsWith", V("r.obj"), S("/data")), Call("startsWith", S("/data"), V("r.obj")),
              Call("always", V("r.sub")), Call("always", V("r.n")), Call("always"), Call("always", S("a"), S("b")), Call("same", V("r.sub")),
              Call("same", V("r.n"), V("r.n")), And(Call("same", V("r.sub"), V("p.sub")), Call("always", S("")))]:
        add(cls, e, ufuns=uf)
    # add_function under the name of a built-in: the same arity replaces it, another arity lives beside it
    for e in [Call("keyMatch", S("/a/b"), S("/a/*")), Call("keyMatch", S("a"), S("a"))]:
        add(cls, e, ufuns=[("keyMatch", "Neq")])
    for e in [Call("keyMatch", S("/a/b"), S("/a/*")), Call("keyMatch", S("a"))]:
        add(cls, e, ufuns=[("keyMatch", "True")])
    # add_function twice under one name: the last one counts
    add(cls, Call("f", S("a"), S("a")), ufuns=[("f", "Eq"), ("f", "Neq")])
    add(cls, Call("f", S("a"), S("a")), ufuns=[("f", "Neq"), ("f", "Eq")])
    g2 = dict(gfuns=[("g", 2)], links=[("alice", "admin", None), ("admin", "root", None), ("bob", "user", None)])
    for e in [Call("g", V("r.sub"), S("admin")), Call("g", V("r.sub"), S("root")), Call("g", V("r.sub"), S("user")),
              Call("g", V("r.sub"), V("p.sub")), Call("g", S("nobody"), S("nobody")), Call("g", S("admin"), S("alice")),
              Call("g", V("r.sub")), Call("g", V("r.sub"), S("admin"), S("d")), Call("g", V("r.n"), S("admin")),
              And(Call("g", V("r.sub"), S("root")), Call("keyMatch", V("r.obj"), V("p.obj"))), Call("g2", V("r.sub"), S("admin"))]:
        add(cls, e, **g2)
    g3 = dict(gfuns=[("g", 3)], links=[("alice", "admin", "d1"), ("admin", "root", "d1"), ("alice", "user", "d2")])
    for e in [Call("g", V("r.sub"), S("admin"), S("d1")), Call("g", V("r.sub"), S("root"), S("d1")), Call("g", V("r.sub"), S("admin"), S("d2")),
              Call("g", V("r.sub"), S("user"), S("d2")), Call("g", V("r.sub"), S("admin")), Call("g", V("r.sub"), S("x"), S("nodomain"))]:
        add(cls, e, **g3)
    # a user function under the name of the role function
    add(cls, Call("g", V("r.sub"), S("admin")), ufuns=[("g", "Neq")], **g2)
    add(cls, Call("g", V("r.sub")), ufuns=[("g", "True")], **g2)

    # ---------------------------------------------------------------- 9. precedence and associativity
    cls = "11 precedence / associativity: every operator as a direct child of every operator (the parentheses print_expr inserts)"
    ops = ["or", "and", "eq", "neq", "lt", "ge"]

    def pick(mk, alt):
        """operand literals under which the tree differs from the tree a mis-parenthesisation would give"""
        import itertools
        for ls in itertools.product(LEAVES, repeat=3):
            try:
                a, b = py_eval(mk(*ls)), py_eval(alt(*ls))
            except Exception:
                continue
            if a != b and a != "err" and not refused(mk(*ls)):
                return ls
        for ls in itertools.product(LEAVES, repeat=3):
            if py_eval(mk(*ls)) != "err" and not refused(mk(*ls)):
                return ls
        return (B(True), B(False), B(True))

    for par in ops:
        for ch in ops:
            left = lambda x, y, z, par=par, ch=ch: BIN[par](BIN[ch](x, y), z)     # noqa: E731
            right = lambda x, y, z, par=par, ch=ch: BIN[par](x, BIN[ch](y, z))    # noqa: E731
            alt_l = lambda x, y, z, par=par, ch=ch: BIN[ch](x, BIN[par](y, z))    # noqa: E731
            alt_r = lambda x, y, z, par=par, ch=ch: BIN[ch](BIN[par](x, y), z)    # noqa: E731
            add(cls, left(*pick(left, alt_l)))
            add(cls, right(*pick(right, alt_r)))
    for ch in ops:
        # under `!`, as the left operand of `in`, as an array element, as an argument
        x, y, _ = pick(lambda x, y, z, ch=ch: Not(BIN[ch](x, y)), lambda x, y, z, ch=ch: BIN[ch](Not(x), y))
        add(cls, Not(BIN[ch](x, y)))
        x, y, _ = pick(lambda x, y, z, ch=ch: In(BIN[ch](x, y), [B(True)]), lambda x, y, z, ch=ch: BIN[ch](x, In(y, [B(True)])))
        add(cls, In(BIN[ch](x, y), [B(True), I(1)]))
        add(cls, In(B(True), [BIN[ch](I(1), I(1)) if ch not in ("or", "and") else BIN[ch](B(True), B(False)), I(7)]))
        add(cls, BIN[ch](Not(B(True)), B(False)) if ch in ("or", "and", "eq", "neq") else BIN[ch](Not(B(True)), B(True)))
        add(cls, BIN[ch](B(False), Not(B(True))))
        add(cls, BIN[ch](In(I(1), [I(1)]), B(True)))
        add(cls, BIN[ch](B(True), In(I(1), [I(1)])))
    add(cls, Not(Not(B(True))))
    add(cls, Not(In(I(1), [I(2)])))
    add(cls, In(Not(B(True)), [B(False)]))
    add(cls, Not(Prop(V("r.m"), "ok")))
    add(cls, Or(Or(B(False), B(False)), Or(B(True), V("r.zzz"))))
    add(cls, And(And(B(True), B(True)), And(B(False), V("r.zzz"))))
    add(cls, Or(And(B(False), V("r.zzz")), And(B(True), Or(B(False), B(True)))))
    add(cls, And(Or(B(False), B(True)), Or(B(False), And(B(True), B(True)))))

    cls = "12 precedence / associativity WITHOUT parentheses (raw text; the AST is what rhai's precedences give)"

    def raw(text, ast, sc=None, **kw):
        add(cls, ast, sc, raw=text, **kw)
    T_, F_ = B(True), B(False)
    raw("true || false && false", Or(T_, And(F_, F_)))
    raw("false && false || true", Or(And(F_, F_), T_))
    raw("true || true || r.zzz", Or(Or(T_, T_), V("r.zzz")))
    raw("false || true && false || true", Or(Or(F_, And(T_, F_)), T_))
    raw("false && true && r.zzz", And(And(F_, T_), V("r.zzz")))
    raw("true && 1 == 1", And(T_, Eq(I(1), I(1))))
    raw("1 == 2 && false == false", And(Eq(I(1), I(2)), Eq(F_, F_)))
    raw("false == false && false", And(Eq(F_, F_), F_))
    raw("true || 1 == 2", Or(T_, Eq(I(1), I(2))))
    raw("1 != 1 || 2 != 3", Or(Neq(I(1), I(1)), Neq(I(2), I(3))))
    raw("1 == 1 == true", Eq(Eq(I(1), I(1)), T_))
    raw("true == 1 == 1", Eq(Eq(T_, I(1)), I(1)))
    raw("1 != 2 == true", Eq(Neq(I(1), I(2)), T_))
    raw("true != 1 == 2", Eq(Neq(T_, I(1)), I(2)))
    raw("1 == 2 != true", Neq(Eq(I(1), I(2)), T_))
    raw("1 < 2 == true", Eq(Cmp("lt", I(1), I(2)), T_))
    raw("true == 1 < 2", Eq(T_, Cmp("lt", I(1), I(2))))
    raw("true != 2 >= 3", Neq(T_, Cmp("ge", I(2), I(3))))
    raw("1 < 2 < 3", Cmp("lt", Cmp("lt", I(1), I(2)), I(3)))
    raw("3 > 2 > 1", Cmp("gt", Cmp("gt", I(3), I(2)), I(1)))
    raw("1 <= 2 >= true", Cmp("ge", Cmp("le", I(1), I(2)), T_))
    raw("1 < 2 && 2 < 3", And(Cmp("lt", I(1), I(2)), Cmp("lt", I(2), I(3))))
    raw("1 > 2 || 2 <= 3", Or(Cmp("gt", I(1), I(2)), Cmp("le", I(2), I(3))))
    raw("1 == 2 in [false]", Eq(I(1), In(I(2), [F_])))
    raw("1 in [1] == true", Eq(In(I(1), [I(1)]), T_))
    raw("true == 1 in [1]", Eq(T_, In(I(1), [I(1)])))
    raw("1 in [1] in [true]", In(In(I(1), [I(1)]), [T_]))
    raw("1 < 2 in [true]", In(Cmp("lt", I(1), I(2)), [T_]))
    raw("1 in [1] && true", And(In(I(1), [I(1)]), T_))
    raw("false || 1 in [1]", Or(F_, In(I(1), [I(1)])))
    raw("!true == false", Eq(Not(T_), F_))
    raw("!true && false", And(Not(T_), F_))
    raw("!false || true", Or(Not(F_), T_))
    raw("!r.b == false", Eq(Not(V("r.b")), F_))
    raw("!r.m.ok", Not(Prop(V("r.m"), "ok")))
    raw("!true in [false]", In(Not(T_), [F_]))
    raw("!!true", Not(Not(T_)))
    raw("!keyMatch(\"a\", \"a\")", Not(Call("keyMatch", S("a"), S("a"))))
    raw("(true || false) && false", And(Or(T_, F_), F_))
    raw("((true))", T_)
    raw("(1) == ((1))", Eq(I(1), I(1)))
    raw("r.sub==p.sub&&r.act==p.act", And(Eq(V("r.sub"), V("p.sub")), Eq(V("r.act"), V("p.act"))))
    raw("  r.sub  ==  p.sub  ", Eq(V("r.sub"), V("p.sub")))
    raw("r.n in[1,5]", In(V("r.n"), [I(1), I(5)]))
    raw("keyMatch( r.obj ,p.obj )", Call("keyMatch", V("r.obj"), V("p.obj")))
    raw("r.sub == p.sub && r.obj == p.obj && r.act == p.act",
        And(And(Eq(V("r.sub"), V("p.sub")), Eq(V("r.obj"), V("p.obj"))), Eq(V("r.act"), V("p.act"))))
    raw("r.sub == p.sub && keyMatch(r.obj, p.obj) && regexMatch(r.act, p.act) || r.sub == \"root\"",
        Or(And(And(Eq(V("r.sub"), V("p.sub")), Call("keyMatch", V("r.obj"), V("p.obj"))), Call("regexMatch", V("r.act"), V("p.act"))),
           Eq(V("r.sub"), S("root"))))

    # ---------------------------------------------------------------- 10. integers under only_i32
    cls = "13 integers under only_i32: the ends of the range, literals outside it"
    big = [("r_max", vi(2147483647)), ("r_min", vi(-2147483648))]
    for e in [I(2147483647), I(-2147483648), I(-2147483647), Eq(V("r.max"), I(2147483647)), Eq(V("r.min"), I(-2147483648)),
              Cmp("lt", V("r.min"), V("r.max")), Cmp("gt", V("r.min"), V("r.max")), Cmp("le", V("r.max"), I(2147483647)),
              Cmp("lt", I(-2147483648), I(-2147483647)), Cmp("lt", I(-1), I(0)), Cmp("ge", I(-1), I(-2)), In(V("r.min"), [I(-2147483648)]),
              Eq(I(-0), I(0))]:
        add(cls, e, scope(extra_r=big))
    for e in [I(2147483648), I(-2147483649), I(4294967296), I(99999999999999999999), I(10 ** 20), I(10 ** 20 + 7),
              Eq(V("r.max"), I(2147483648)), Cmp("lt", V("r.max"), I(2147483648)), And(B(False), Eq(I(2147483648), I(1))),
              Or(B(True), Eq(I(2147483648), I(1))), In(I(1), [I(1), I(2147483648)])]:
        huge = e[0] == "lit_i" and abs(e[1]) >= 10 ** 20
        add(cls, e, scope(extra_r=big), parse=not huge,
            why="print_Z keeps the 20 low digits: the printed text is another number (outside the generators' class)" if huge else
                "an integer literal outside i32 is a COMPILE error of the whole matcher under only_i32; the model's ints are unbounded"
                " (outside the generators' class as long as they write i32 literals)")

    # ---------------------------------------------------------------- 11. eval(..)
    cls = "14 eval(p.rule): the rule string is escaped, parsed and evaluated in the same scope"

    def ev(e, rules, **kw):
        """rules: name -> AST (printed by print_expr) or raw bytes/str with an optional AST"""
        extra, ptab = [], []
        for name, r in rules:
            if r[0] in AST_KINDS:
                txt = print_expr(r)
                ptab.append((txt, r))
                extra.append((name, vs(txt)))
            elif r[0] == "rawrule":
                extra.append((name, vs(r[1])))
                if r[2] is not None:
                    ptab.append((bts(r[1]), r[2]))
            else:
                extra.append((name, r))
        add(cls, e, scope(extra_p=extra), ptab=ptab, **kw)

    R1 = Eq(V("r.sub"), S("alice"))
    ev(Eval("p.rule"), [("p_rule", R1)])
    ev(Eval("p.rule"), [("p_rule", Eq(V("r.sub"), S("bob")))])
    ev(Eval("p.rule"), [("p_rule", And(Eq(V("r.sub"), V("p.sub")), Call("keyMatch", V("r.obj"), V("p.obj"))))])
    ev(Eval("p.rule"), [("p_rule", Cmp("gt", Prop(V("r.m"), "age"), I(18)))])
    ev(Eval("p.rule"), [("p_rule", In(V("r.act"), [S("read"), S("write")]))])
    ev(Eval("p.rule"), [("p_rule", B(True))])
    ev(Eval("p.rule"), [("p_rule", S("a string"))])
    ev(Eval("p.rule"), [("p_rule", I(7))])
    ev(Eval("p.rule"), [("p_rule", V("r.m"))])
    ev(Eval("p.rule"), [("p_rule", vs(""))])                       # the empty script: ()
    ev(Eval("p.rule"), [("p_rule", ("rawrule", "   ", None))],
       why="a blank (not empty) rule string is an empty script for rhai: (); the model knows only the empty string (no AST denotes ());"
           " both are an error for the enforcer, which wants a bool")
    ev(Eval("p.rule"), [("p_rule", V("r.zzz"))])
    ev(Eval("p.rule"), [("p_rule", Not(I(1)))])
    ev(Eval("p.rule"), [("p_rule", ("rawrule", "r.sub ==", None))])        # does not parse
    ev(Eval("p.rule"), [("p_rule", ("rawrule", "r.sub == \"alice\" &&", None))])
    ev(Eval("p.rule"), [("p_rule", ("rawrule", ")", None))])
    ev(Eval("p.zzz"), [])
    ev(Eval("r.n"), [])
    ev(Eval("r.b"), [])
    ev(Eval("r.u"), [])
    ev(Eval("r.m"), [])
    ev(Eval("r.sub"), [])                                 # "alice": a bare identifier, not a variable of the scope
    ev(And(Eval("p.rule"), Eq(V("r.act"), V("p.act"))), [("p_rule", R1)])
    ev(And(Eq(V("r.act"), V("p.act")), Eval("p.rule")), [("p_rule", R1)])
    ev(And(B(False), Eval("p.rule")), [("p_rule", V("r.zzz"))])
    ev(Or(Eval("p.rule"), Eval("p.rule2")), [("p_rule", Eq(I(1), I(2))), ("p_rule2", R1)])
    ev(Not(Eval("p.rule")), [("p_rule", R1)])
    ev(Eq(Eval("p.rule"), S("alice")), [("p_rule", V("r.sub"))])
    ev(Eq(Eval("p.rule"), V("r.u")), [("p_rule", vs(""))])
    ev(And(B(True), Eval("p.rule")), [("p_rule", vs(""))])
    ev(In(Eval("p.rule"), [B(True)]), [("p_rule", R1)])
    ev(Call("keyMatch", Eval("p.rule"), S("ali*")), [("p_rule", V("r.sub"))])
    # nesting: the engine escapes only at the first level (escape_eval rewrites the matcher, not the rule strings)
    ev(Eval("p.rule"), [("p_rule", Eval("p.rule2")), ("p_rule2", Eq(I(1), I(1)))])
    ev(Eval("p.rule"), [("p_rule", Eval("p.rule2")), ("p_rule2", Call("keyMatch", S("/a/b"), S("/a/*")))])
    ev(Eval("p.rule"), [("p_rule", Eval("p.rule2")), ("p_rule2", R1)],
       why="nested eval: escape_eval rewrites only the matcher text, so the inner rule string is evaluated WITHOUT escape_assertion"
           " (r.sub stays `r.sub`, a property of an unknown variable r); the model escapes at every level")
    nest3 = ("nested eval: the second-level string `eval(p.rule3)` is evaluated WITHOUT escape_assertion, `p.rule3` is a property of an"
             " unknown variable p: the engine fails from depth 3 on, whatever the innermost rule is; the model escapes at every level")
    ev(Eval("p.rule"), [("p_rule", Eval("p.rule2")), ("p_rule2", Eval("p.rule3")), ("p_rule3", Eq(I(1), I(1)))], why=nest3)
    ev(Eval("p.rule"), [("p_rule", And(B(True), Eval("p.rule2"))), ("p_rule2", Eval("p.rule3")), ("p_rule3", Eval("p.rule4")),
                        ("p_rule4", Eq(I(2), I(2)))], why=nest3)
    ev(Eval("p.rule"), [("p_rule", Eval("p.rule2")), ("p_rule2", Eval("p.rule3")), ("p_rule3", Eval("p.rule4")),
                        ("p_rule4", Eval("p.rule5")), ("p_rule5", Eq(I(2), I(2)))],
       why="five levels of eval: the model's eval_fuel is 4, the engine (feature `unchecked`) has no depth limit")
    # a rule string that names itself (in escaped form, as the nested evaluation needs it): unbounded recursion
    ev(Eval("p.rule"), [("p_rule", ("rawrule", "eval(p_rule)", Eval("p.rule")))], isolated=True, cross=False,
       why="rhai is built with `unchecked`: no limit on the depth of eval, the self-referential rule overflows the stack and the process"
           " aborts; the model's fuel runs out and it answers EErr (a policy value `eval(p_rule)` is outside the generators' alphabet)")
    # a rule string that is already in escaped form
    ev(Eval("p.rule"), [("p_rule", ("rawrule", "r_sub == \"alice\"", Eq(V("r.sub"), S("alice"))))])

    # ---------------------------------------------------------------- 12. the text pipeline: remove_comment, escape_assertion, escape_eval
    cls = "15 text pipeline: what remove_comment / escape_assertion / escape_eval do to string LITERALS of the matcher"
    pipe = "the matcher TEXT is rewritten before rhai sees it; the model evaluates the AST (literals of this shape are outside the generators' alphabet)"
    add(cls, Eq(S("r.sub"), S("r_sub")), why=pipe)
    add(cls, Eq(V("r.sub"), S("r.sub")), scope(extra_r=[("r_sub", vs("r.sub"))]), why=pipe)
    add(cls, Eq(S("p.s. hello"), S("p_s. hello")), why=pipe)
    add(cls, Eq(S("x.r.y"), S("x.r_y")), why=pipe)
    add(cls, Eq(S("for.you"), S("for.you")))
    add(cls, Eq(S("eval(a)"), S("eval(escape_assertion(a))")), why=pipe)
    add(cls, Eq(S("a#b"), S("a#b")), why=pipe + "; remove_comment cuts the matcher at `#`")
    nl = "print_expr escapes only the quote and the backslash: a line feed inside a literal is an unterminated string for rhai"
    add(cls, Eq(S("a\nb"), S("a\nb")), why=nl)
    add(cls, Eq(S("a\tb"), S("a\tb")))
    add(cls, Eq(S("a\\nb"), S("a\nb")), why=nl)
    add(cls, Eq(S("café r.sub"), S("café r_sub")), why=pipe)
    # variables whose prefix is not r<digits> / p<digits> are not escaped: `x.y` is a property of a variable x
    add(cls, Eq(V("x.y"), I(1)), scope(extra_r=[("x_y", vi(1))]), cross=False,
        why="only r<digits>. / p<digits>. are escaped; scope tokens of another prefix do not occur")

    # ---------------------------------------------------------------- 13. scopes
    cls = "16 scopes: shadowing, r2/p2 (enforce_with_context), policy values are always strings"
    add(cls, Eq(V("r.sub"), S("bob")), scope(extra_r=[("r_sub", vs("bob"))]), cross=False)
    add(cls, Eq(V("r.sub"), S("alice")), scope(extra_r=[("r_sub", vs("bob"))]), cross=False)
    sc2 = [("r2_sub", vs("alice")), ("r2_age", vi(20)), ("p2_sub", vs("alice")), ("p2_rule", vs(print_expr(Cmp("ge", V("r2.age"), I(18)))))]
    add(cls, Eq(V("r2.sub"), V("p2.sub")), sc2)
    add(cls, And(Eq(V("r2.sub"), V("p2.sub")), Cmp("gt", V("r2.age"), I(18))), sc2)
    add(cls, Eval("p2.rule"), sc2, ptab=[(print_expr(Cmp("ge", V("r2.age"), I(18))), Cmp("ge", V("r2.age"), I(18)))])
    add(cls, Eq(V("r.sub"), V("p2.sub")), sc2)
    add(cls, Eq(V("p.sub"), S("")), [("r_sub", vs("alice")), ("p_sub", vs(""))])
    add(cls, Eq(V("p.n"), I(5)), [("r_sub", vs("alice")), ("p_n", vs("5"))])
    add(cls, Cmp("lt", V("p.n"), I(6)), [("r_sub", vs("alice")), ("p_n", vs("5"))])
    add(cls, Eq(V("p.b"), B(True)), [("r_sub", vs("alice")), ("p_b", vs("true"))])
    add(cls, And(V("p.b"), B(True)), [("r_sub", vs("alice")), ("p_b", vs("true"))])
    add(cls, Eq(V("r.sub"), V("p.sub")), [("r_sub", vs("alice"))], cross=False)
    return cases
# END CASES


# ------------------------------------------------------------------ the real engine
def def_package_block():
    src = open(os.path.join(REPO, "src", "enforcer.rs"), encoding="utf-8").read()
    m = re.search(r"def_package!\s*\{.*?\n\}\n", src, re.S)
    if not m:
        sys.exit("rhai_examples: no def_package! block in src/enforcer.rs")
    for need in ("Engine::new_raw()", "register_global_module(CASBIN_PACKAGE.as_shared_module())",
                 "compile_expression(escape_eval(&m_ast.value))", "eval_ast_with_scope::<bool>"):
        if need not in src:
            sys.exit("rhai_examples: src/enforcer.rs no longer contains `%s`: the driver must be revisited" % need)
    return m.group(0)


def run_engine(cases):
    prj = os.path.join(ROOT, ".build", "rhai")
    os.makedirs(os.path.join(prj, "src"), exist_ok=True)
    lock = os.path.join(prj, "Cargo.lock")
    if not os.path.exists(lock):
        shutil.copy(os.path.join(REPO, "Cargo.lock"), lock)
    toml = ('[package]\nname = "rhaiex"\nversion = "0.1.0"\nedition = "2021"\n\n[dependencies]\n'
            'casbin = { path = "%s" }\n' % REPO)
    tp = os.path.join(prj, "Cargo.toml")
    if not os.path.exists(tp) or open(tp).read() != toml:
        open(tp, "w").write(toml)
    main = open(os.path.join(HERE, "rhai_driver.rs"), encoding="utf-8").read().replace("//@DEF_PACKAGE@", def_package_block())
    mp = os.path.join(prj, "src", "main.rs")
    if not os.path.exists(mp) or open(mp, encoding="utf-8").read() != main:
        open(mp, "w", encoding="utf-8").write(main)
    env = dict(os.environ, CARGO_NET_OFFLINE="true", RUSTFLAGS="--cfg casbin_verif")
    p = subprocess.run(["cargo", "build", "--offline", "-q"], cwd=prj, env=env, capture_output=True, text=True, timeout=1500)
    if p.returncode != 0:
        sys.exit("rhai_examples: cargo failed:\n" + p.stderr[-4000:])
    exe = os.path.join(prj, "target", "debug", "rhaiex")

    def record(i, c):
        lines = ["C %d" % i]
        lines.append("T %s" % hx(c["text"]))
        for n, v in c["scope"]:
            lines.append("V %s %s" % (hx(n), drv_value(v)))
        for n, k in c["ufuns"]:
            lines.append("F %s %s" % (hx(n), k))
        for n, a in c["gfuns"]:
            lines.append("G %s %d" % (hx(n), a))
        for lk in c["links"]:
            lines.append("L " + " ".join(hx(x) for x in lk if x is not None))
        lines.append("X %d" % (1 if c["cross"] else 0))
        lines.append("E")
        return lines

    lines, alone = [], {}
    for i, c in enumerate(cases):
        if c.get("isolated"):
            # a case that may take the whole process down runs in a process of its own
            q = subprocess.run([exe], input="\n".join(record(i, c)) + "\n", capture_output=True, text=True, timeout=300)
            alone[i] = q.stdout.strip() if q.returncode == 0 and q.stdout.strip() else "%d | ABORT %d | -" % (i, q.returncode)
        else:
            lines += record(i, c)
    p = subprocess.run([exe], input="\n".join(lines) + "\n", capture_output=True, text=True, timeout=900)
    if p.returncode != 0:
        sys.exit("rhai_examples: driver failed (%d):\n%s" % (p.returncode, p.stderr[-4000:]))
    got = iter(p.stdout.splitlines())
    try:
        out = [alone[i] if i in alone else next(got) for i in range(len(cases))]
    except StopIteration:
        sys.exit("rhai_examples: fewer answers than cases")
    return out


def decode_scalar(kind, val):
    if kind == "S":
        return ("s", bytes.fromhex(val))
    if kind == "I":
        return ("i", int(val))
    if kind == "B":
        return ("b", val == "true")
    if kind == "U":
        return VU
    return None


def decode_direct(d):
    """-> (expected eres or None when the model has no such value, note)"""
    f = d.split(" ", 1)
    if f[0] == "PARSE":
        return "EErr", "compile error: " + bytes.fromhex(f[1]).decode("utf-8", "replace")
    if f[0] == "ERR":
        return "EErr", "Err: " + bytes.fromhex(f[1] if len(f) > 1 else "").decode("utf-8", "replace")
    if f[0] == "PANIC":
        return "EPanic", "panic"
    if f[0] == "ABORT":
        return None, "the PROCESS dies (exit status %s): stack overflow, no Rust panic to catch" % f[1]
    if f[0] == "M":
        fs = []
        for kv in (f[1].split(",") if len(f) > 1 and f[1] else []):
            k, v = kv.split("=")
            vk, _, vv = v.partition(":")
            sv = decode_scalar(vk, vv)
            if sv is None or sv == VU:
                return None, "map with a non-scalar field"
            fs.append((bytes.fromhex(k), sv))
        return ("m", sorted(fs)), ""
    if f[0] == "O":
        return None, "a value of type " + f[1]
    return decode_scalar(f[0], f[1] if len(f) > 1 else ""), ""


# ------------------------------------------------------------------ the model's own answers (for the `_differs` marks)
MODEL_DEPS = ["Model/Base.v", "Model/Effector.v", "Model/RoleGraph.v", "Model/PathMatch.v", "Model/Expr.v", "Model/Enforce.v"]

CODEC = r"""
Definition rh_scalar_code (s : scalar) : list Z :=
  match s with
  | SStr t => 5%Z :: Z.of_nat (length t) :: map (fun c => Z.of_nat (nat_of_ascii c)) t
  | SInt z => [4%Z; z]
  | SBool b => [2%Z; if b then 1%Z else 0%Z]
  end.
Definition rh_code (r : eres) : list Z :=
  match r with
  | EErr => [0%Z]
  | EPanic => [1%Z]
  | EV (VBool b) => [2%Z; if b then 1%Z else 0%Z]
  | EV VUnit => [3%Z]
  | EV (VInt z) => [4%Z; z]
  | EV (VStr t) => 5%Z :: Z.of_nat (length t) :: map (fun c => Z.of_nat (nat_of_ascii c)) t
  | EV (VMap fs) => 6%Z :: Z.of_nat (length fs) ::
      flat_map (fun kv => Z.of_nat (length (fst kv)) :: map (fun c => Z.of_nat (nat_of_ascii c)) (fst kv) ++ rh_scalar_code (snd kv)) fs
  end.
"""


def decode_code(zs):
    def scalar(i):
        if zs[i] == 5:
            n = zs[i + 1]
            return ("s", bytes(zs[i + 2:i + 2 + n])), i + 2 + n
        if zs[i] == 4:
            return ("i", zs[i + 1]), i + 2
        if zs[i] == 2:
            return ("b", zs[i + 1] == 1), i + 2
        raise ValueError(zs)
    if zs[0] == 0:
        return "EErr"
    if zs[0] == 1:
        return "EPanic"
    if zs[0] == 3:
        return VU
    if zs[0] in (2, 4, 5):
        return scalar(0)[0]
    if zs[0] == 6:
        n, i, fs = zs[1], 2, []
        for _ in range(n):
            kl = zs[i]
            k = bytes(zs[i + 1:i + 1 + kl])
            v, i = scalar(i + 1 + kl)
            fs.append((k, v))
        return ("m", fs)
    raise ValueError(zs)


def model_answers(cases):
    """evaluate every case with the model, in a scratch copy of the six Model files it needs (no dependence on the
    state of coq/*.vo: this runs before the Coq build)"""
    d = tempfile.mkdtemp(prefix="rhai_ex_")
    try:
        os.makedirs(os.path.join(d, "Model"))
        for f in MODEL_DEPS:
            shutil.copy(os.path.join(ROOT, "coq", f), os.path.join(d, f))
            p = subprocess.run(["coqc", "-Q", d, "CV", "-w", "-all", os.path.join(d, f)], capture_output=True, text=True, timeout=600)
            if p.returncode != 0:
                sys.exit("rhai_examples: coqc %s failed:\n%s" % (f, p.stderr[-3000:]))
        v = [PREAMBLE_IMPORTS, CODEC]
        for i, c in enumerate(cases):
            v.append("Eval vm_compute in (%d%%Z :: rh_code (%s))." % (i, eval_term(c)))
        open(os.path.join(d, "q.v"), "w", encoding="utf-8").write("\n".join(v) + "\n")
        p = subprocess.run(["coqc", "-Q", d, "CV", "-w", "-all", os.path.join(d, "q.v")], capture_output=True, text=True, timeout=1200)
        if p.returncode != 0:
            sys.exit("rhai_examples: model evaluation failed:\n%s" % (p.stdout[-2000:] + p.stderr[-3000:]))
        res = {}
        for m in re.finditer(r"=\s*\[([^\]]*)\]\s*:\s*list Z", p.stdout):
            zs = [int(x.strip().replace("%Z", "").strip("()")) for x in m.group(1).split(";")]
            res[zs[0]] = decode_code(zs[1:])
        if len(res) != len(cases):
            sys.exit("rhai_examples: %d model answers for %d cases" % (len(res), len(cases)))
        return [res[i] for i in range(len(cases))]
    finally:
        shutil.rmtree(d, ignore_errors=True)


RH_PTAB = ("Definition rh_ptab (l : list (text * expr)) (s : text) : option expr :=\n"
           "  assoc s (map (fun p => (escape_assertion (fst p), snd p)) l).")
PREAMBLE_IMPORTS = ("From CV Require Import Model.Base Model.RoleGraph Model.PathMatch Model.Expr Model.Enforce.\n"
                    "Open Scope Z_scope.\nOpen Scope list_scope.\nOpen Scope nat_scope.\n" + RH_PTAB + "\n")


def coq_fs(c):
    rm = "[]"
    for lk in c["links"]:
        a, b, dom = lk
        rm = "(add_link %s %s %s %s)" % (rm, coq_text(a), coq_text(b), "None" if dom is None else "(Some %s)" % coq_text(dom))
    # add_function: newest first; register_g_functions: one entry per role definition
    uf = "; ".join("(%s, U%s)" % (coq_text(n), k) for n, k in reversed(c["ufuns"]))
    gf = "; ".join("((%s, %d), HCur)" % (coq_text(n), a) for n, a in c["gfuns"])
    return "{| f_rm := %s; f_rm_max := 10; f_gfuns := [%s]; f_ufuns := [%s] |}" % (rm, gf, uf)


def coq_scope(c):
    # Model/Expr.v: innermost binding first = the LAST push first
    return "[%s]" % "; ".join("(%s, %s)" % (coq_text(n), coq_value(v)) for n, v in reversed(c["scope"]))


def coq_ptab(c):
    """the parse table of the case: the rule strings the scope holds, as (text, AST) - looked up by the ESCAPED text,
    as eval does; a text the engine cannot parse has no entry"""
    if not c["ptab"]:
        return "(fun _ => None)"
    return "(rh_ptab [%s])" % "; ".join("(%s, %s)" % (coq_text(txt), coq_expr(ast)) for txt, ast in c["ptab"])


def eval_term(c, names=None):
    fs, sc = coq_fs(c), coq_scope(c)
    if names is not None:
        fs, sc = names[fs], names[sc]
    return "eval (call_fn %s) %s %s eval_fuel %s" % (fs, coq_ptab(c), sc, coq_expr(c["ast"]))


def shared_defs(cases):
    """the scopes and function tables of the cases, each defined once"""
    names, defs = {}, []
    for c in cases:
        for kind, term, ty in (("rh_fs", coq_fs(c), "fstate"), ("rh_scope", coq_scope(c), "list (text * value)")):
            if term not in names:
                names[term] = "%s%d" % (kind, sum(1 for x in names.values() if x.startswith(kind)))
                defs.append("Definition %s : %s :=\n  %s." % (names[term], ty, term))
    return names, defs


def comment_safe(s):
    # Coq lexes string literals inside comments: no double quotes there
    return s.replace("*)", "* )").replace("(*", "( *").replace('"', "'").replace("\n", "\\n")


# ------------------------------------------------------------------ main
def main():
    cases = build_cases()
    for c in cases:
        if c.get("raw") is None:
            c["text"] = print_expr(c["ast"])
        else:
            c["text"] = bts(c["raw"])
        c.setdefault("ufuns", [])
        c.setdefault("gfuns", [])
        c.setdefault("links", [])
        c.setdefault("ptab", [])
        c.setdefault("cross", True)
    outl = run_engine(cases)
    stamp = hashlib.sha256((repr([(c["cls"], c["text"], c["ast"], c["scope"], c["ufuns"], c["gfuns"], c["links"], c["ptab"])
                                  for c in cases]) + "\n".join(outl)).encode("utf-8")).hexdigest()[:20]
    dst = os.path.join(ROOT, "coq", "Gen", "RhaiExamples.v")
    try:
        if ("engine-output-stamp: " + stamp) in open(dst, encoding="utf-8").read():
            print("rhai_examples: unchanged")
            return
    except OSError:
        pass
    # engine answers; the Enforcer cross-check
    ncross = 0
    for i, (c, line) in enumerate(zip(cases, outl)):
        parts = [x.strip() for x in line.split("|")]
        assert parts[0] == str(i), line
        c["engine"], c["note"] = decode_direct(parts[1])
        c["enf"] = parts[2]
        if parts[2] != "-":
            ncross += 1
            want = "PANIC" if parts[1] == "PANIC" else ("OK " + parts[1][2:] if parts[1].startswith("B ") else "ERR")
            if parts[2] != want:
                sys.exit("rhai_examples: case %d (%r): the direct engine answered %s but casbin::Enforcer answered %s - "
                         "the driver's engine is NOT configured as casbin's" % (i, c["text"], parts[1], parts[2]))
    for c in cases:
        if c["engine"] == "EPanic" and b'regexMatch("a", "(")' in c["text"] and not c.get("why"):
            c["why"] = ("regex_match unwraps Regex::new: a pattern the regex crate refuses PANICS; Model/Enforce.v answers EErr for every"
                        " pattern outside the regex class it models (its documented limit)")
    model = model_answers(cases)
    v = ["(* GENERATED by tools/rhai_examples.py: every expected value below is the ANSWER OF THE REAL rhai ENGINE",
         "   (the rhai that /repo/Cargo.lock pins, with casbin's feature set, configured as src/enforcer.rs configures it:",
         "   Engine::new_raw + CasbinPackage + FunctionMap::default + g-functions + add_function; the text goes through",
         "   remove_comment, escape_assertion, escape_eval, compile_expression, eval_ast_with_scope) on the text that",
         "   `print_expr` prints for the AST.  Ok(v) -> EV v;  Err -> EErr;  panic -> EPanic;  compile error -> EErr.",
         "   rh_exN_print: the model's printer gives exactly the text that was sent;  rh_exN_parse: Proofs/ExprParse.v reads",
         "   it back;  rh_exN: the model's eval gives the engine's answer;  rh_exN_differs: it does NOT (the Example states the",
         "   model's value, the comment the engine's).  `enforcer:` = what a real casbin::Enforcer with this matcher answered. *)",
         "(* engine-output-stamp: %s *)" % stamp,
         "From CV Require Import Model.Base Model.RoleGraph Model.PathMatch Model.Expr Model.Enforce Proofs.ExprParse.",
         "Open Scope Z_scope.", "Open Scope list_scope.", "Open Scope nat_scope.", "",
         "(* the parse table of a case: the rule strings its scope holds, looked up by the escaped text (as eval does) *)",
         RH_PTAB, ""]
    names, defs = shared_defs(cases)
    v += defs + [""]
    differs, classes = [], {}
    cur_cls = None
    for i, c in enumerate(cases):
        if c["cls"] != cur_cls:
            cur_cls = c["cls"]
            v.append("(* ================= %s ================= *)" % comment_safe(cur_cls))
        classes[cur_cls] = classes.get(cur_cls, 0) + 1
        txt = c["text"].decode("utf-8", "replace")
        v.append("(* %d: %s%s *)" % (i, comment_safe(txt), "   [raw text]" if c.get("raw") is not None else ""))
        if c["ufuns"] or c["gfuns"]:
            v.append("(*    %s%s *)" % (
                "add_function: " + ", ".join("%s=%s" % (n, k) for n, k in c["ufuns"]) + "  " if c["ufuns"] else "",
                "role definitions: " + ", ".join("%s/%d" % (n, a) for n, a in c["gfuns"]) + " with the links " +
                comment_safe(repr([tuple(x.decode() if x else None for x in bts_l(lk)) for lk in c["links"]])) if c["gfuns"] else ""))
        if c["ptab"] or any(n.startswith(("p_rule", "p2_rule")) for n, _ in c["scope"]):
            v.append("(*    rule strings: %s *)" % comment_safe(", ".join(
                "%s = %s" % (n, show_eres(x)[3:-1]) for n, x in c["scope"] if n.startswith(("p_rule", "p2_rule")))))
        eng = c["engine"]
        v.append("(*    engine: %s%s;  enforcer: %s *)" % (
            comment_safe(show_eres(eng)) if eng is not None else "(no model value)", ("  (" + comment_safe(c["note"]) + ")") if c["note"] else "", c["enf"]))
        if c.get("raw") is None:
            v.append("Example rh_ex%d_print : print_expr %s =\n  %s.\nProof. vm_compute. reflexivity. Qed." % (i, coq_expr(c["ast"]), coq_text(c["text"])))
        if c.get("parse", True):
            v.append("Example rh_ex%d_parse : parse_expr %s =\n  Some %s.\nProof. vm_compute. reflexivity. Qed." % (i, coq_text(c["text"]), coq_expr(c["ast"])))
        if model[i] == eng:
            v.append("Example rh_ex%d : %s =\n  %s.\nProof. vm_compute. reflexivity. Qed.\n" % (i, eval_term(c, names), coq_eres(eng)))
        else:
            differs.append((i, c, model[i]))
            v.append("(* DISAGREES with the engine%s *)" % ((": " + comment_safe(c["why"])) if c.get("why") else ""))
            v.append("Example rh_ex%d_differs : %s =\n  %s.\nProof. vm_compute. reflexivity. Qed.\n" % (i, eval_term(c, names), coq_eres(model[i])))
    v.append("(* ================= summary ================= *)")
    v.append("(* %d cases, %d of them also run through a real casbin::Enforcer (all consistent with the direct engine);" % (len(cases), ncross))
    for k, n in classes.items():
        v.append("     %4d  %s" % (n, comment_safe(k)))
    v.append("   %d disagreements between the engine and the model:" % len(differs))
    for i, c, mv in differs:
        v.append("     %d: %s   engine %s%s   model %s%s" % (
            i, comment_safe(c["text"].decode("utf-8", "replace")), comment_safe(show_eres(c["engine"])) if c["engine"] is not None else "-",
            (" (" + comment_safe(c["note"]) + ")") if c["note"] else "", comment_safe(show_eres(mv)),
            ("   -- " + comment_safe(c["why"])) if c.get("why") else ""))
    v.append("*)")
    v.append("Definition rh_differs : list nat := [%s]." % "; ".join(str(i) for i, _, _ in differs))
    open(dst, "w", encoding="utf-8").write("\n".join(v) + "\n")
    print("rhai_examples: %d cases written to %s (%d through a real Enforcer too, %d disagreements with the model)" % (
        len(cases), dst, ncross, len(differs)))


def bts_l(lk):
    return [None if x is None else bts(x) for x in lk]


if __name__ == "__main__":
    main()
