#!/usr/bin/env python3
"""rs2coq, part 3: the LOOPS of the policy store (src/model/default_model.rs: get_filtered_policy, remove_filtered_policy,
has_policy, get_values_for_field_in_policy) -> coq/Gen/StoreGen.v over coq/Gen/RustVec.v; proved equal to the model
(select_filtered, m_remove_filtered, rmem, m_values of Model/Engine.v) for all inputs, panics included, in
coq/PinChecks/PcStoreGen.v (lemmas in coq/Proofs/RustVecP.v).  Kept in its own module; rs2coq.py's main() calls main() here."""
import os
import re
import sys

sys.path.insert(0, os.path.dirname(os.path.abspath(__file__)))
import pins  # noqa: E402
import rs2coq  # noqa: E402
from rs2coq import *  # noqa: E402,F401,F403  (Untranslatable, SP, Emit, lexers and helpers of parts 1-2)
# ====================================================================== part 3
# The loops of the policy store: get_filtered_policy, remove_filtered_policy,
# has_policy, get_values_for_field_in_policy of `impl Model for DefaultModel`
# (src/model/default_model.rs) -> coq/Gen/StoreGen.v over the operations of
# coq/Gen/RustVec.v.  coq/PinChecks/PcStoreGen.v proves the translated
# functions equal to the model's select_filtered / m_remove_filtered / rmem /
# column + distinct_last for all inputs.
#
# The lookups `self.model.get[_mut](sec)` / `<map>.get[_mut](ptype)` /
# `self.get_policy(sec, ptype)` are NOT translated: every function is emitted
# twice, as `gen_f .. st_policy` (the assertion exists; `st_policy : list rule`
# is its rule list in stored order, `<assertion>.policy` in the source) and as
# `gen_f_absent ..` (a lookup fails: the guarded block is skipped and
# `self.get_policy(..)` is the empty vector).  For a `&mut self` function the
# value is paired with the final rule list.
#
# Supported subset (anything else: Untranslatable -> `gen_store_translated := false`)
#   statements   let [mut] x [: T] = e;    x = e;    x.push(e);    x.insert(e);  (x: a LinkedHashSet)
#                <assertion>.policy.remove(e);
#                for v in e { .. }    for (i, v) in e.enumerate() { .. }    break;    return e;
#                if c { .. } [else [if ..] { .. }]        the two lookup `if let Some(..)`
#                a final expression (the value of the function)
#   expressions  parameters and locals, integer literals, true, false, vec![], (e, e2), (e)
#                ! && || == != +    e[e2]    e.is_empty()    <assertion>.policy
#                & .clone() .to_vec() .to_owned() .iter() .into_iter() .collect()
#                .map(String::from)                                   (identity)
#                LinkedHashSet::new()    e.fold(init, |mut acc, x| { ..; acc })
#
# Translation.  A block is a term of type `flow S R` (RustVec.v) written in
# continuation-passing style: `let` / assignment rebind the Coq variable v_x,
# an `if` without control flow is a `let` of the variables it assigns, any other
# `if` continues in both branches, a loop is
#    match rs_for (fun <pattern> <carried> => <body>) <list> <carried> with
#    | Done <carried> => <what follows> | Returned ret_ => LReturn ret_ | Panicked => LPanic end
# where <carried> is the tuple (sorted by name) of the mutable locals declared
# outside the loop and assigned inside it.  An expression that contains an index
# has type `option T` (None = panic); `&&` / `||` keep their short-circuit
# order, so `a && v[i] != b` does not evaluate the index when a is false while
# `v[i] != b && a` does.

P3_IDENTITY = ("clone", "to_vec", "to_owned", "iter", "into_iter", "to_string")


class TV:
    """element type of a vector whose type is not known yet (vec![])"""

    def __init__(self, t=None):
        self.t = t


def resolve(t):
    if isinstance(t, tuple) and t[0] == "vec" and isinstance(t[1], TV):
        return ("vec", resolve(t[1].t)) if t[1].t is not None else t
    if isinstance(t, tuple) and t[0] == "vec":
        return ("vec", resolve(t[1]))
    if isinstance(t, tuple) and t[0] == "tuple":
        return ("tuple", tuple(resolve(x) for x in t[1]))
    return t


def unify(a, b):
    """True when the two types can be made equal (filling unknown element types)"""
    a, b = resolve(a), resolve(b)
    if isinstance(a, tuple) and isinstance(b, tuple) and a[0] == b[0] == "vec":
        if isinstance(a[1], TV) and isinstance(b[1], TV):
            return True
        if isinstance(a[1], TV):
            a[1].t = b[1]
            return True
        if isinstance(b[1], TV):
            b[1].t = a[1]
            return True
        return unify(a[1], b[1])
    if isinstance(a, tuple) and isinstance(b, tuple) and a[0] == b[0] == "tuple":
        return len(a[1]) == len(b[1]) and all(unify(x, y) for x, y in zip(a[1], b[1]))
    return a == b


def tyname3(t):
    t = resolve(t)
    if isinstance(t, tuple) and t[0] == "vec":
        return "Vec<%s>" % ("_" if isinstance(t[1], TV) else tyname3(t[1]))
    if isinstance(t, tuple) and t[0] == "tuple":
        return "(%s)" % ", ".join(tyname3(x) for x in t[1])
    return str(t)


def coq_ty(t):
    t = resolve(t)
    if t in ("nat", "text", "bool"):
        return t
    if t == "tset":
        return "list text"
    if t == ("vec", ("vec", "text")):
        return "list rule"
    if isinstance(t, tuple) and t[0] == "vec" and not isinstance(t[1], TV):
        return "list %s" % coq_ty_atom(t[1])
    if isinstance(t, tuple) and t[0] == "tuple":
        return "(%s)" % " * ".join(coq_ty_atom(x) for x in t[1])
    raise Untranslatable("type %s has no Coq counterpart" % tyname3(t))


def coq_ty_atom(t):
    s = coq_ty(t)
    return s if " " not in s or s.startswith("(") else "(%s)" % s


def rust_type(toks):
    """type of a parameter / return value / let annotation, from its tokens"""
    s = "".join(toks)
    s = re.sub(r"&(?:'\w+)?(?:mut)?", "", s)
    if s == "usize":
        return "nat"
    if s in ("str", "String"):
        return "text"
    if s == "bool":
        return "bool"
    m = re.match(r"Vec<(.*)>$", s)
    if m:
        return ("vec", rust_type([m.group(1)]))
    m = re.match(r"\[(.*)\]$", s)
    if m:
        return ("vec", rust_type([m.group(1)]))
    m = re.match(r"\((.*)\)$", s)
    if m:
        parts, depth, cur = [], 0, ""
        for c in m.group(1):
            if c == "," and depth == 0:
                parts.append(cur)
                cur = ""
                continue
            depth += (c in "<(") - (c in ">)")
            cur += c
        if cur:
            parts.append(cur)
        return ("tuple", tuple(rust_type([p]) for p in parts))
    if s == "LinkedHashSet<String>":
        return "tset"
    raise Untranslatable("type " + s)


class SP3(SP):
    """parser of the loop subset.  AST
       block = (stmts, final-expression | None)
       stmt  = ("let", mutable, x, type | None, e) | ("assign", x, e) | ("do", e)   (e a method call)
             | ("if", cond, block, block | None) | ("for", pattern, e, block) | ("break",) | ("ret", e)
       pattern = ("v", x) | ("enum", i, x)
       e     = part-2 expressions + ("int", n) | ("vecnew",) | ("tuple", [e]) | ("add", a, b) | ("index", e, i)
             | ("field", e, name) | ("self",) | ("path", p) | ("pathcall", p, args) | ("closure", [(x, mutable)], block)"""

    def cmp(self):
        a = self.add()
        if self.peek() in (("op", "=="), ("op", "!=")):
            op = self.eat()[1]
            return ("eq", a, self.add(), op == "!=")
        return a

    def add(self):
        a = self.unary()
        while self.peek() == ("op", "+"):
            self.eat()
            a = ("add", a, self.unary())
        return a

    def unary(self):
        if self.peek() == ("op", "!"):
            self.eat()
            return ("not", self.unary())
        if self.peek() == ("op", "&"):          # a reference: identity
            self.eat()
            if self.peek() == ("id", "mut"):
                self.eat()
            return self.unary()
        return self.postfix()

    def postfix(self):
        e = self.primary()
        while True:
            if self.peek() == ("op", "."):
                self.eat()
                kind, name = self.eat()
                if kind != "id" or "::" in name or name.endswith("!"):
                    raise Untranslatable("method / field name " + name)
                if self.peek() != ("op", "("):
                    e = ("field", e, name)
                    continue
                self.eat("(")
                args = []
                while self.peek() != ("op", ")"):
                    args.append(self.expr())
                    if self.peek() == ("op", ","):
                        self.eat()
                self.eat(")")
                e = ("call", name, e, args)
            elif self.peek() == ("op", "["):
                self.eat()
                ix = self.expr()
                self.eat("]")
                e = ("index", e, ix)
            else:
                return e

    def primary(self):
        kind, v = self.peek()
        if kind == "int":
            self.eat()
            return ("int", v)
        if kind == "op" and v == "(":
            self.eat()
            items = [self.expr()]
            while self.peek() == ("op", ","):
                self.eat()
                if self.peek() != ("op", ")"):
                    items.append(self.expr())
            self.eat(")")
            return items[0] if len(items) == 1 else ("tuple", items)
        if kind == "op" and v == "|":
            self.eat()
            params = []
            while self.peek() != ("op", "|"):
                mutable = False
                if self.peek() == ("id", "mut"):
                    self.eat()
                    mutable = True
                k2, x = self.eat()
                if k2 != "id" or "::" in x or x.endswith("!"):
                    raise Untranslatable("closure parameter " + x)
                params.append((x, mutable))
                if self.peek() == ("op", ","):
                    self.eat()
            self.eat("|")
            if self.peek() != ("op", "{"):
                raise Untranslatable("closure without a block body")
            return ("closure", params, self.block())
        if kind == "id":
            if v == "vec!":
                self.eat()
                self.eat("[")
                self.eat("]")
                return ("vecnew",)
            if v == "self":
                self.eat()
                return ("self",)
            if "::" in v and not v.endswith("!"):
                self.eat()
                if self.peek() != ("op", "("):
                    return ("path", v)
                self.eat("(")
                args = []
                while self.peek() != ("op", ")"):
                    args.append(self.expr())
                    if self.peek() == ("op", ","):
                        self.eat()
                self.eat(")")
                return ("pathcall", v, args)
            if v in ("if", "format!") or v in IDENTITY_CTORS:
                raise Untranslatable("unsupported " + v)
        return SP.primary(self)

    def if_(self):
        self.eat("if")
        if self.peek() == ("id", "let"):
            self.eat()
            self.eat("Some")
            self.eat("(")
            kind, x = self.eat()
            if kind != "id" or "::" in x or x.endswith("!"):
                raise Untranslatable("pattern Some(%s)" % x)
            self.eat(")")
            self.eat("=")
            cond = ("iflet", x, self.expr())
        else:
            cond = ("cond", self.expr())
        th = self.block()
        el = None
        if self.peek() == ("id", "else"):
            self.eat()
            if self.peek() == ("id", "if"):
                el = ([self.if_()], None)
            else:
                el = self.block()
        return ("if", cond, th, el)

    def seq(self, closer):
        stmts, final = [], None
        while self.peek()[1] != closer and self.peek()[0] != "eof":
            if final is not None:
                raise Untranslatable("statement after the value of a block")
            kind, v = self.peek()
            if (kind, v) == ("id", "let"):
                self.eat()
                mutable = False
                if self.peek() == ("id", "mut"):
                    self.eat()
                    mutable = True
                k2, x = self.eat()
                if k2 != "id" or "::" in x or x.endswith("!"):
                    raise Untranslatable("let pattern " + x)
                ty = None
                if self.peek() == ("op", ":"):
                    self.eat()
                    toks = []
                    while self.peek() != ("op", "=") and self.peek()[0] != "eof":
                        toks.append(self.eat()[1])
                    ty = rust_type(toks)
                self.eat("=")
                e = self.expr()
                self.eat(";")
                stmts.append(("let", mutable, x, ty, e))
            elif (kind, v) == ("id", "return"):
                self.eat()
                e = self.expr()
                if self.peek() == ("op", ";"):
                    self.eat()
                stmts.append(("ret", e))
            elif (kind, v) == ("id", "break"):
                self.eat()
                self.eat(";")
                stmts.append(("break",))
            elif (kind, v) == ("id", "if"):
                stmts.append(self.if_())
                if self.peek() == ("op", ";"):
                    self.eat()
            elif (kind, v) == ("id", "for"):
                self.eat()
                if self.peek() == ("op", "("):
                    self.eat()
                    i = self.eat()
                    self.eat(",")
                    x = self.eat()
                    self.eat(")")
                    if i[0] != "id" or x[0] != "id":
                        raise Untranslatable("for pattern")
                    pat = ("enum", i[1], x[1])
                else:
                    x = self.eat()
                    if x[0] != "id" or "::" in x[1]:
                        raise Untranslatable("for pattern " + x[1])
                    pat = ("v", x[1])
                self.eat("in")
                it = self.expr()
                stmts.append(("for", pat, it, self.block()))
            elif kind == "id" and self.peek(1) == ("op", "=") and "::" not in v:
                self.eat()
                self.eat("=")
                e = self.expr()
                self.eat(";")
                stmts.append(("assign", v, e))
            else:
                e = self.expr()
                if self.peek() == ("op", ";"):
                    self.eat()
                    if e[0] != "call":
                        raise Untranslatable("expression statement")
                    stmts.append(("do", e))
                else:
                    final = e
        return (stmts, final)


STORE_VAR = "<policy>"     # the pseudo-variable behind `<assertion>.policy`
NILS = []                  # element types of the vec![] met so far


def fill_nils(term):
    """vec![] -> ([] : list T) when T was found (an un-annotated [] in a returned tuple sends Coq's
       type inference into a stack overflow), [] otherwise"""
    def one(m):
        tv = NILS[int(m.group(1))]
        try:
            return "([] : %s)" % coq_ty(("vec", tv.t)) if tv.t is not None else "[]"
        except Untranslatable:
            return "[]"
    return re.sub(r"@NIL(\d+)@", one, term)



def assigned(block, declared=()):
    """names (declared outside the block) that the block may assign"""
    out = set()
    declared = set(declared)
    for st in block[0]:
        k = st[0]
        if k == "let":
            declared.add(st[2])
        elif k == "assign":
            if st[1] not in declared:
                out.add(st[1])
        elif k == "do":
            e = st[1]
            recv = e[2]
            if recv[0] == "var" and e[1] in ("push", "insert"):
                if recv[1] not in declared:
                    out.add(recv[1])
            elif recv[0] == "field" and recv[2] == "policy" and e[1] == "remove":
                out.add(STORE_VAR)
            else:
                raise Untranslatable("statement .%s(..)" % e[1])
        elif k == "if":
            out |= assigned(st[2], declared)
            if st[3] is not None:
                out |= assigned(st[3], declared)
        elif k == "for":
            inner = set(declared)
            inner.update(st[1][1:])
            out |= assigned(st[3], inner)
    return out


def has_partial(e):
    """does evaluating e involve an operation that can panic (an index, a fold)"""
    if isinstance(e, list):
        return any(has_partial(x) for x in e)
    if not isinstance(e, tuple) or not e:
        return False
    if e[0] == "index" or (e[0] == "call" and e[1] == "fold"):
        return True
    if e[0] == "closure":
        return False
    return any(has_partial(x) for x in e[1:])


def plain_block(block):
    """only let / assignment / push / such ifs, with total expressions: can be a `let` of the assigned variables"""
    if block is None:
        return True
    if block[1] is not None:
        return False
    for st in block[0]:
        k = st[0]
        if k in ("for", "break", "ret"):
            return False
        if k == "let" and has_partial(st[4]):
            return False
        if k == "assign" and has_partial(st[2]):
            return False
        if k == "do" and has_partial(st[1]):
            return False
        if k == "if":
            if st[1][0] != "cond" or has_partial(st[1][1]) or not plain_block(st[2]) or not plain_block(st[3]):
                return False
    return True


class Emit3:
    """env: Rust name -> [type, mutable].  mode: "found" | "nosec" | "noptype"."""

    def __init__(self, ret, mutself, mode):
        self.ret = ret
        self.mutself = mutself
        self.mode = mode
        self.loops = []          # carried variables of the enclosing loops; None = a closure
        self.n = 0

    def fresh(self):
        self.n += 1
        return "ix%d" % self.n

    @staticmethod
    def cv(x):
        return "st_policy" if x == STORE_VAR else "v_" + x

    def tup(self, names):
        if not names:
            return "tt"
        if len(names) == 1:
            return self.cv(names[0])
        return "(%s)" % ", ".join(self.cv(x) for x in names)

    def lam_pat(self, names):
        if not names:
            return "(_ : unit)"
        if len(names) == 1:
            return self.cv(names[0])
        return "'" + self.tup(names)

    def match_pat(self, names):
        return "_" if not names else self.tup(names)

    # ---- expressions: (type, term, partial); a partial term has type option T
    def binds(self, parts, build):
        """parts: [(term, partial)]; build(pure terms) -> pure term.  left-to-right evaluation"""
        names = []
        wrap = []
        for term, partial in parts:
            if partial:
                x = self.fresh()
                wrap.append((x, term))
                names.append(x)
            else:
                names.append(term)
        body = build(names)
        if not wrap:
            return body, False
        out = "(Some %s)" % body
        for x, term in reversed(wrap):
            out = "(match %s with Some %s => %s | None => None end)" % (term, x, out)
        return out, True

    def ex(self, e, env):
        k = e[0]
        if k == "var":
            if e[1] not in env:
                raise Untranslatable("identifier " + e[1])
            return env[e[1]][0], "v_" + e[1], False
        if k == "int":
            return "nat", e[1], False
        if k == "lit":
            return "bool", e[1], False
        if k == "str":
            return "text", coq_text(e[1]), False
        if k == "vecnew":
            # annotated with its element type once the whole function is known (NILS, fill_nils)
            tv = TV()
            NILS.append(tv)
            return ("vec", tv), "@NIL%d@" % (len(NILS) - 1), False
        if k == "tuple":
            subs = [self.ex(x, env) for x in e[1]]
            term, partial = self.binds([(s[1], s[2]) for s in subs], lambda xs: "(%s)" % ", ".join(xs))
            return ("tuple", tuple(s[0] for s in subs)), term, partial
        if k == "not":
            t, a, p = self.ex(e[1], env)
            if t != "bool":
                raise Untranslatable("! on a " + tyname3(t))
            term, partial = self.binds([(a, p)], lambda xs: "(negb %s)" % xs[0])
            return "bool", term, partial
        if k in ("and", "or"):
            ta, a, pa = self.ex(e[1], env)
            tb, b, pb = self.ex(e[2], env)
            if ta != "bool" or tb != "bool":
                raise Untranslatable("%s on non-booleans" % k)
            if not pa and not pb:
                return "bool", "(%s %s %s)" % (a, "&&" if k == "and" else "||", b), False
            lifted = b if pb else "(Some %s)" % b
            short = "(Some false)" if k == "and" else "(Some true)"
            if not pa:
                return "bool", ("(if %s then %s else %s)" % ((a, lifted, short) if k == "and" else (a, short, lifted))), True
            if k == "and":
                return "bool", "(match %s with Some true => %s | Some false => %s | None => None end)" % (a, lifted, short), True
            return "bool", "(match %s with Some true => %s | Some false => %s | None => None end)" % (a, short, lifted), True
        if k == "eq":
            ta, a, pa = self.ex(e[1], env)
            tb, b, pb = self.ex(e[2], env)
            if not unify(ta, tb):
                raise Untranslatable("comparison of %s with %s" % (tyname3(ta), tyname3(tb)))
            ta = resolve(ta)
            fn = {"text": "rs_eq", "bool": "Bool.eqb", "nat": "Nat.eqb"}.get(ta) if isinstance(ta, str) else \
                ("rs_vec_eq" if ta == ("vec", "text") else None)
            if fn is None:
                raise Untranslatable("comparison of two %s" % tyname3(ta))
            neg = e[3]
            term, partial = self.binds([(a, pa), (b, pb)],
                                       lambda xs: ("(negb (%s %s %s))" if neg else "(%s %s %s)") % (fn, xs[0], xs[1]))
            return "bool", term, partial
        if k == "add":
            ta, a, pa = self.ex(e[1], env)
            tb, b, pb = self.ex(e[2], env)
            if ta != "nat" or tb != "nat":
                raise Untranslatable("+ on %s and %s" % (tyname3(ta), tyname3(tb)))
            term, partial = self.binds([(a, pa), (b, pb)], lambda xs: "(%s + %s)" % (xs[0], xs[1]))
            return "nat", term, partial
        if k == "index":
            tv, v, pv = self.ex(e[1], env)
            ti, i, pi = self.ex(e[2], env)
            tv = resolve(tv)
            if not (isinstance(tv, tuple) and tv[0] == "vec" and not isinstance(tv[1], TV)) or ti != "nat":
                raise Untranslatable("index of a %s by a %s" % (tyname3(tv), tyname3(ti)))
            if pv or pi:
                x, y = self.fresh(), self.fresh()
                term = "(match %s with Some %s => (match %s with Some %s => rs_index %s %s | None => None end) | None => None end)" % (
                    v if pv else "(Some %s)" % v, x, i if pi else "(Some %s)" % i, y, x, y)
                return tv[1], term, True
            return tv[1], "(rs_index %s %s)" % (v, i), True
        if k == "self":
            return "self", "", False
        if k == "field":
            t, a, p = self.ex(e[1], env)
            if t == "self" and e[2] == "model":
                return "model", "", False
            if t == "assertion" and e[2] == "policy":
                return ("vec", ("vec", "text")), "st_policy", False
            raise Untranslatable("field .%s of a %s" % (e[2], tyname3(t)))
        if k == "pathcall":
            if e[1] == "LinkedHashSet::new" and not e[2]:
                return "tset", "rs_set_new", False
            raise Untranslatable("call of " + e[1])
        if k == "call":
            return self.call(e, env)
        raise Untranslatable("expression " + k)

    def call(self, e, env):
        name, recv, args = e[1], e[2], e[3]
        t, a, p = self.ex(recv, env)
        t = resolve(t)
        if t == "self" and name == "get_policy":
            if len(args) == 2 and [x[0] for x in args] == ["var", "var"] and \
                    [env.get(x[1], [None])[0] for x in args] == ["key:sec", "key:ptype"]:
                return ("vec", ("vec", "text")), ("st_policy" if self.mode == "found" else "([] : list rule)"), False
            raise Untranslatable("self.get_policy with other arguments than (sec, ptype)")
        isvec = isinstance(t, tuple) and t[0] == "vec"
        if name in P3_IDENTITY and not args and (isvec or t in ("text", "tset")):
            return t, a, p
        if name == "collect" and not args and (isvec or t == "tset"):
            if t == "tset":
                term, partial = self.binds([(a, p)], lambda xs: "(rs_set_to_vec %s)" % xs[0])
                return ("vec", "text"), term, partial
            return t, a, p
        if name == "map" and args == [("path", "String::from")] and t == ("vec", "text"):
            return t, a, p
        if name == "is_empty" and not args and (isvec or t == "text"):
            fn = "rs_is_empty" if t == "text" else "rs_vec_is_empty"
            term, partial = self.binds([(a, p)], lambda xs: "(%s %s)" % (fn, xs[0]))
            return "bool", term, partial
        if name == "fold" and len(args) == 2 and isvec and not isinstance(t[1], TV) and args[1][0] == "closure":
            return self.fold(t, a, p, args[0], args[1], env)
        raise Untranslatable("method .%s on a %s" % (name, tyname3(t)))

    def fold(self, t, a, p, init, clo, env):
        ti, ini, pi = self.ex(init, env)
        if p or pi:
            raise Untranslatable("fold over / from an expression that can panic")
        params, blk = clo[1], clo[2]
        if len(params) != 2 or blk[1] is None or blk[1] != ("var", params[0][0]):
            raise Untranslatable("fold closure is not |acc, x| { ..; acc }")
        acc, x = params[0][0], params[1][0]
        env2 = dict(env)
        env2[acc] = [ti, params[0][1]]
        env2[x] = [t[1], False]
        if assigned((blk[0], None), ()) - {acc}:
            raise Untranslatable("fold closure assigns a captured variable")
        self.loops.append(None)
        body = self.seq(blk[0], env2, lambda en: "(LNext v_%s)" % acc)
        self.loops.pop()
        return ti, "(rs_fold (fun v_%s v_%s =>\n %s)\n %s %s)" % (x, acc, body, a, ini), True

    # ---- statements, continuation-passing: k(env) is the term of what follows
    def ret_term(self, e, env):
        t, a, p = self.ex(e, env)
        if not unify(t, self.ret):
            raise Untranslatable("value of type %s where %s is expected" % (tyname3(t), tyname3(self.ret)))
        wrap = (lambda v: "(st_policy, %s)" % v) if (self.mutself and self.mode == "found") else (lambda v: v)
        if p:
            x = self.fresh()
            return "(match %s with Some %s => LReturn %s | None => LPanic end)" % (a, x, wrap(x))
        return "(LReturn %s)" % wrap(a)

    def bind_stmt(self, name, e_term, partial, rest):
        if partial:
            return "(match %s with Some %s => %s | None => LPanic end)" % (e_term, name, rest)
        return "(let %s := %s in\n %s)" % (name, e_term, rest)

    def mutable_in(self, env, names):
        out = []
        for x in sorted(names):
            if x == STORE_VAR:
                if not self.mutself:
                    raise Untranslatable("the rule list is modified through &self")
                if self.mode == "found":
                    out.append(x)
            elif x in env:
                if not env[x][1]:
                    raise Untranslatable("assignment to %s, which is not `let mut`" % x)
                out.append(x)
            else:
                raise Untranslatable("assignment to an unknown variable " + x)
        return out

    def seq(self, stmts, env, k):
        if not stmts:
            return k(env)
        st, rest = stmts[0], stmts[1:]
        kind = st[0]

        def cont(en):
            return self.seq(rest, en, k)
        if kind == "let":
            t, a, p = self.ex(st[4], env)
            if st[3] is not None and not unify(t, st[3]):
                raise Untranslatable("let %s: %s = a %s" % (st[2], tyname3(st[3]), tyname3(t)))
            if isinstance(t, str) and t in ("self", "model", "astmap", "assertion") or t in ("key:sec", "key:ptype"):
                raise Untranslatable("let of a %s" % t)
            env2 = dict(env)
            env2[st[2]] = [t, st[1]]
            return self.bind_stmt("v_" + st[2], a, p, cont(env2))
        if kind == "assign":
            self.mutable_in(env, [st[1]])
            t, a, p = self.ex(st[2], env)
            if not unify(t, env[st[1]][0]):
                raise Untranslatable("assignment of a %s to %s: %s" % (tyname3(t), st[1], tyname3(env[st[1]][0])))
            return self.bind_stmt("v_" + st[1], a, p, cont(env))
        if kind == "do":
            e = st[1]
            name, recv, args = e[1], e[2], e[3]
            if len(args) != 1:
                raise Untranslatable("statement .%s with %d arguments" % (name, len(args)))
            t, a, p = self.ex(args[0], env)
            if recv[0] == "var" and name in ("push", "insert"):
                x = recv[1]
                self.mutable_in(env, [x])
                tx = resolve(env[x][0])
                if name == "push":
                    if not unify(tx, ("vec", t)):
                        raise Untranslatable("push of a %s on %s: %s" % (tyname3(t), x, tyname3(tx)))
                    op = "rs_push"
                else:
                    if tx != "tset" or t != "text":
                        raise Untranslatable("insert of a %s in %s: %s" % (tyname3(t), x, tyname3(tx)))
                    op = "rs_set_insert"
                if p:
                    y = self.fresh()
                    return "(match %s with Some %s => (let v_%s := %s v_%s %s in\n %s) | None => LPanic end)" % (
                        a, y, x, op, x, y, cont(env))
                return "(let v_%s := %s v_%s %s in\n %s)" % (x, op, x, a, cont(env))
            if recv[0] == "field" and recv[2] == "policy" and name == "remove":
                tr = self.ex(recv[1], env)[0]
                if tr != "assertion" or resolve(t) != ("vec", "text") or p:
                    raise Untranslatable("%s.policy.remove(%s)" % (tyname3(tr), tyname3(t)))
                if not self.mutself:
                    raise Untranslatable("the rule list is modified through &self")
                return "(let st_policy := rs_oset_remove st_policy %s in\n %s)" % (a, cont(env))
            raise Untranslatable("statement .%s(..)" % name)
        if kind == "break":
            if rest:
                raise Untranslatable("code after break")
            if not self.loops or self.loops[-1] is None:
                raise Untranslatable("break outside a for loop")
            return "(LBreak %s)" % self.tup(self.loops[-1])
        if kind == "ret":
            if rest:
                raise Untranslatable("code after return")
            if None in self.loops:
                raise Untranslatable("return inside a closure")
            return self.ret_term(st[1], env)
        if kind == "if":
            return self.if_(st, env, cont)
        if kind == "for":
            return self.for_(st, env, cont)
        raise Untranslatable("statement " + kind)

    def if_(self, st, env, cont):
        cond, th, el = st[1], st[2], st[3]
        if th[1] is not None or (el is not None and el[1] is not None):
            raise Untranslatable("if with a value in statement position")
        if cond[0] == "iflet":
            return self.lookup(st, env, cont)
        t, c, p = self.ex(cond[1], env)
        if t != "bool":
            raise Untranslatable("condition of type " + tyname3(t))
        els = el[0] if el is not None else []
        if plain_block(th) and plain_block(el) and not p:
            names = self.mutable_in(env, assigned(th) | (assigned(el) if el is not None else set()))
            if not names:
                return cont(env)            # nothing observable
            a = self.seq(th[0], dict(env), lambda en: self.tup(names))
            b = self.seq(els, dict(env), lambda en: self.tup(names))
            pat = self.tup(names) if len(names) == 1 else "'" + self.tup(names)
            return "(let %s := (if %s then %s else %s) in\n %s)" % (pat, c, a, b, cont(env))
        a = self.seq(th[0], dict(env), lambda en: cont(env))
        b = self.seq(els, dict(env), lambda en: cont(env))
        if p:
            return "(match %s with\n | Some true => %s\n | Some false => %s\n | None => LPanic end)" % (c, a, b)
        return "(if %s\n then %s\n else %s)" % (c, a, b)

    def lookup(self, st, env, cont):
        """if let Some(x) = self.model.get[_mut](sec) { .. }   /   if let Some(y) = x.get[_mut](ptype) { .. }"""
        cond, th, el = st[1], st[2], st[3]
        if el is not None:
            raise Untranslatable("lookup with an else branch")
        e = cond[2]
        if e[0] != "call" or e[1] not in ("get", "get_mut") or len(e[3]) != 1 or e[3][0][0] != "var":
            raise Untranslatable("if let Some(..) on something that is not a lookup of the model")
        tr = self.ex(e[2], env)[0]
        key = env.get(e[3][0][1], [None])[0]
        if tr == "model" and key == "key:sec":
            bound, fails = "astmap", self.mode == "nosec"
        elif tr == "astmap" and key == "key:ptype":
            bound, fails = "assertion", self.mode == "noptype"
        else:
            raise Untranslatable("lookup .%s(%s) on a %s" % (e[1], e[3][0][1], tyname3(tr)))
        if e[1] == "get_mut" and not self.mutself:
            raise Untranslatable("get_mut through &self")
        if fails:
            return cont(env)
        env2 = dict(env)
        env2[cond[1]] = [bound, False]
        return self.seq(th[0], env2, lambda en: cont(env))

    def for_(self, st, env, cont):
        pat, it, body = st[1], st[2], st[3]
        if body[1] is not None:
            raise Untranslatable("loop body with a value")
        enum = False
        if it[0] == "call" and it[1] == "enumerate" and not it[3]:
            enum, it = True, it[2]
        t, a, p = self.ex(it, env)
        t = resolve(t)
        if p or not (isinstance(t, tuple) and t[0] == "vec") or isinstance(t[1], TV):
            raise Untranslatable("for over a %s" % tyname3(t))
        if enum != (pat[0] == "enum"):
            raise Untranslatable("for pattern does not fit the iterator")
        bound = set(pat[1:])
        carried = self.mutable_in(env, assigned(body, bound))
        env2 = dict(env)
        if enum:
            env2[pat[1]] = ["nat", False]
            env2[pat[2]] = [t[1], False]
            lp = "'(v_%s, v_%s)" % (pat[1], pat[2])
            a = "(rs_enumerate %s)" % a
        else:
            env2[pat[1]] = [t[1], False]
            lp = "v_" + pat[1]
        self.loops.append(carried)
        b = self.seq(body[0], env2, lambda en: "(LNext %s)" % self.tup(carried))
        self.loops.pop()
        return ("(match rs_for (fun %s %s =>\n %s)\n %s %s with\n | Done %s => %s\n | Returned ret_ => LReturn ret_\n | Panicked => LPanic end)"
                % (lp, self.lam_pat(carried), b, a, self.tup(carried), self.match_pat(carried), cont(env)))

    def function(self, blk, env):
        stmts, final = blk

        def end(en):
            if final is None:
                raise Untranslatable("control reaches the end of the function without a value")
            return self.ret_term(final, en)
        return self.seq(stmts, env, end)


V2 = ("vec", ("vec", "text"))
# Rust name, Coq name, parameter types after (sec, ptype), return type, &mut self
STORE_FUNCS = (("get_filtered_policy", "gen_get_filtered", ("nat", ("vec", "text")), V2, False),
               ("remove_filtered_policy", "gen_remove_filtered", ("nat", ("vec", "text")), ("tuple", ("bool", V2)), True),
               ("has_policy", "gen_has_policy", (("vec", "text"),), "bool", False),
               ("get_values_for_field_in_policy", "gen_values_for_field", ("nat",), ("vec", "text"), False))
STORE_FILE = "src/model/default_model.rs"


def store_ret_ty(ret, mutself, found):
    return "(list rule * %s)" % coq_ty_atom(ret) if (mutself and found) else coq_ty_atom(ret)


def translate_store_fn(src, start, name, gen, ptypes, ret, mutself):
    hdr = r"fn\s+%s\s*\(([^)]*)\)\s*(?:->\s*([^{;]+?))?\s*(?=\{)" % name
    m = re.compile(hdr).search(src, start)
    if not m:
        raise Untranslatable("%s: signature not found" % name)
    params = [x.strip() for x in m.group(1).split(",") if x.strip()]
    if not params or re.sub(r"\s+", "", params[0]) != ("&mutself" if mutself else "&self"):
        raise Untranslatable("%s: receiver %r" % (name, params[0] if params else ""))
    env = {}
    names = []
    for prm in params[1:]:
        pm = re.match(r"(?:mut\s+)?(\w+)\s*:\s*(.+)$", prm, re.S)
        if not pm:
            raise Untranslatable("%s: parameter %r" % (name, prm))
        names.append((pm.group(1), rust_type([re.sub(r"\s+", "", pm.group(2))])))
    if [x[0] for x in names[:2]] != ["sec", "ptype"] or [x[1] for x in names[:2]] != ["text", "text"]:
        raise Untranslatable("%s: the first two parameters are not sec: &str, ptype: &str" % name)
    if tuple(x[1] for x in names[2:]) != tuple(ptypes):
        raise Untranslatable("%s: parameter types %s" % (name, ", ".join(tyname3(x[1]) for x in names[2:])))
    if m.group(2) is None or rust_type([re.sub(r"\s+", "", m.group(2))]) != ret:
        raise Untranslatable("%s: return type %s" % (name, m.group(2)))
    env["sec"] = ["key:sec", False]
    env["ptype"] = ["key:ptype", False]
    for x, t in names[2:]:
        env[x] = [t, False]
    body = pins.fn_body(src, hdr, start)
    if body is None:
        raise Untranslatable("%s: body not found" % name)
    p = SP3(slex(body.strip()[1:-1]))
    blk = p.seq("}")
    if p.peek()[0] != "eof":
        raise Untranslatable("%s: trailing tokens" % name)
    binders = " ".join("(v_%s : %s)" % (x, coq_ty(t)) for x, t in names[2:])
    found = fill_nils(Emit3(ret, mutself, "found").function(blk, dict(env)))
    nosec = fill_nils(Emit3(ret, mutself, "nosec").function(blk, dict(env)))
    noptype = fill_nils(Emit3(ret, mutself, "noptype").function(blk, dict(env)))
    if nosec != noptype:
        raise Untranslatable("%s: an unknown section and an unknown policy type are treated differently" % name)
    return ("Definition %s %s (st_policy : list rule) : option %s :=\n rs_fn %s.\n\n"
            "Definition %s_absent %s : option %s :=\n rs_fn %s.\n"
            % (gen, binders, store_ret_ty(ret, mutself, True), found,
               gen, binders, store_ret_ty(ret, mutself, False), nosec))


def generate_store():
    out = ["(* GENERATED on every run by tools/rs2coq.py from /repo/src/model/default_model.rs",
           "   (get_filtered_policy, remove_filtered_policy, has_policy, get_values_for_field_in_policy)",
           "   - do not edit.  st_policy = the rule list of the (sec, ptype) assertion, in stored order;",
           "   gen_f_absent = the same function when the section or the policy type is unknown. *)",
           "From CV Require Import Model.Base Gen.RustStr Gen.RustVec.", ""]
    ok = True
    src = pins.read(STORE_FILE)
    imp = re.search(r"impl\s+Model\s+for\s+DefaultModel", src or "")
    for name, gen, ptypes, ret, mutself in STORE_FUNCS:
        try:
            if not imp:
                raise Untranslatable("impl Model for DefaultModel not found in " + STORE_FILE)
            out.append(translate_store_fn(src, imp.start(), name, gen, ptypes, ret, mutself))
        except Exception as ex:   # noqa
            ok = False
            out.append("(* translation of %s failed: %s *)" % (name, str(ex).replace("*)", "* )").replace("(*", "( *")))
            binders = " ".join("(_ : %s)" % coq_ty(t) for t in ptypes)
            out.append("Definition %s %s (_ : list rule) : option %s := None.\n" % (gen, binders, store_ret_ty(ret, mutself, True)))
            out.append("Definition %s_absent %s : option %s := None.\n" % (gen, binders, store_ret_ty(ret, mutself, False)))
    out.append("(* the parts of remove_filtered_policy: the rules selected for removal, the returned flag, the rule list left *)")
    out.append("Definition gen_remove_filtered_select (idx : nat) (vals : list text) (st_policy : list rule) : option (list rule) :=\n"
               " option_map (fun x => snd (snd x)) (gen_remove_filtered idx vals st_policy).")
    out.append("Definition gen_remove_filtered_flag (idx : nat) (vals : list text) (st_policy : list rule) : option bool :=\n"
               " option_map (fun x => fst (snd x)) (gen_remove_filtered idx vals st_policy).")
    out.append("Definition gen_remove_filtered_store (idx : nat) (vals : list text) (st_policy : list rule) : option (list rule) :=\n"
               " option_map fst (gen_remove_filtered idx vals st_policy).\n")
    out.append("Definition gen_store_translated : bool := %s." % ("true" if ok else "false"))
    return "\n".join(out) + "\n", ok


def write_if_changed(dst, txt, ok):
    os.makedirs(os.path.dirname(dst), exist_ok=True)
    old = None
    try:
        old = open(dst, encoding="utf-8").read()
    except OSError:
        pass
    if old != txt:
        open(dst, "w", encoding="utf-8").write(txt)
        print("rs2coq: rewritten", dst, "(translated)" if ok else "(UNTRANSLATABLE)")
    else:
        print("rs2coq: unchanged", dst)



def main(dst_dir=None):
    dst_dir = dst_dir or "/verif/coq/Gen"
    txt3, ok3 = generate_store()
    rs2coq.write_if_changed(os.path.join(dst_dir, "StoreGen.v"), txt3, ok3)


if __name__ == "__main__":
    main(sys.argv[1] if len(sys.argv) > 1 else None)
