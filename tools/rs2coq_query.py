#!/usr/bin/env python3
"""rs2coq, part 13: the READ side of the RBAC API (src/rbac_api.rs) and of the management API
(src/management_api.rs) -> coq/Gen/QueryGen.v over coq/Gen/QueryRt.v (+ RustVec.v / RustIter.v / RustStr.v).
coq/PinChecks/PcQueryGen.v proves every generated function equal to the model's answer `ask s (<query>)`
(Model/Engine.v) for all states and arguments (lemmas in coq/Proofs/QueryP.v).  Kept in its own module;
rs2coq.py's main() calls main() here.

Every target is re-read from the source (VERIF_REPO, default /repo) on every run, lexed, parsed into a small AST
and emitted as

    genq_<name> [ptab] [ord] [fuel] (s : estate) (args ..) : option R   :=  rs_fn (<flow term>)

None = a panic (index out of range in the policy store, `swap_remove` / `remove` on an empty vector, `unwrap` of
None, a panic inside `enforce`) or a `while` loop that did not finish within `fuel` evaluations of its condition.
`ptab` (the table of parsed matcher expressions the model's `enforce` takes), `ord` (the iteration order of hash
containers) and `fuel` are added only to the functions that (transitively) need them.

What comes from the SOURCE: which method each helper delegates to, every literal (section "p" / "g", default
policy type, field index), the argument order, the guards (`if let Some(..)`: the two lookups of the model map),
early `return`s, the loop shapes (`for` with `break`, the `while` work list with `swap_remove(0)`), what is pushed
where and under which condition, `insert(0, ..)` against `push(..)`, which role manager is read (`<assertion>.rm`
against `get_role_manager()`), the iterator chains (`flat_map` / `filter` / `map` closures, `contains`).

Method resolution: `self.m(..)` is looked up in the blanket impl of RbacApi, the trait's default methods, the
blanket impl of MgmtApi, its default methods, then the three CoreApi entry points `get_model()`,
`get_role_manager()`, `enforce(req)`.  Callees are translated on demand and emitted before their callers.

Supported subset (anything else: the function becomes a stub `None`, the reason is put in a comment and
`gen_query_translated := false`, which breaks PcQueryGen.v at its first lemma)
  signatures   &self, x: &str | String | Vec<String> | Vec<Vec<String>> | Option<&str> | usize | bool
               -> Vec<String> | Vec<Vec<String>> | bool            ([async] fn; no .await inside)
  statements   let [mut] x [: T] = e;   x = e;   e;   return e;   break;   continue;
               for pat in e { .. }   while c { .. }   if c { .. } [else ..]   if let Some(x) | Ok(x) = e { .. } [else ..]
               a final expression (the value of the block)
  expressions  variables, "literals", integers, true, false, None, Some(e), &e, *e, (e), !e, ==, !=, &&, ||
               (short-circuit), vec![..], [..], Vec::new(), HashSet::new(), String::from(e), { block }, if / if let /
               match (Some/None, Ok/Err) as values, e[i]
               text: to_string to_owned clone into as_str (identity), is_empty
               Vec / iterators: iter into_iter cloned collect to_vec clone (identity), map filter flat_map any all
                 chain (pure closures), contains is_empty len;  mutators on a `mut` local: push insert(i, x)
                 extend swap_remove(i) remove(i) pop clear
               HashSet<String>: insert (value: newly inserted?) extend contains, into_iter / iter (order `ord`)
               Option: unwrap unwrap_or is_some is_none;  Result of enforce: unwrap_or is_ok, match / if let
               the model: self.get_model() .get_policy .get_filtered_policy .has_policy
                 .get_values_for_field_in_policy .get_model().get(sec) -> <map>.get(ptype) / iteration of the map
                 -> <assertion>.rm / .policy / .get_policy();   <rm>.read().get_roles / get_users
Translation.  Continuation-passing as in parts 3 / 11: a block is a term of type `flow S R` (RustVec.v); `let`
binds a fresh Coq variable, a mutation re-binds the variable's Coq name; an `if` whose branches are total and have
no control flow is a `let` of the tuple of the variables it assigns, any other `if` continues in both branches;
a loop carries the tuple of the outer `mut` locals it assigns:
    match rs_for (fun <pat> <carried> => body) <list> <carried> with
    | Done <carried> => <what follows> | Returned ret_ => LReturn ret_ | Panicked => LPanic end
(`rs_while fuel (fun <carried> => Some cond) (fun <carried> => body) <carried>` for `while`).  An operation that
can panic is `match op with Some t => .. | None => LPanic end`; closures must be total."""
import os
import re
import sys

sys.path.insert(0, os.path.dirname(os.path.abspath(__file__)))
import pins  # noqa: E402
from rs2coq_api import block_after, find_fn, split_top  # noqa: E402  (locating fns inside trait / impl blocks)

RBAC = "src/rbac_api.rs"
MGMT = "src/management_api.rs"


class Untranslatable(Exception):
    pass


class Impure(Exception):
    """internal: the construct cannot be emitted as a total expression without control flow"""


# ====================================================================== lexer
TOK = re.compile(r"""\s*(?:(//[^\n]*)|(/\*.*?\*/)|(\#!?\[(?:[^\[\]]|\[[^\]]*\])*\])|("(?:[^"\\]|\\.)*")"""
                 r"""|(\d+)(?:usize|u64|u32|u16|u8|isize|i64|i32)?\b|([A-Za-z_]\w*(?:!(?!=))?)"""
                 r"""|(=>|->|::|\|\||&&|==|!=|<=|>=|\+=|-=|\.\.|[{}()\[\];=!&.,<>*+\-:?|]))""", re.S)

KEYWORDS = ("let", "mut", "while", "for", "loop", "move", "async", "unsafe", "fn", "struct", "impl", "use", "break",
            "continue", "as", "in", "ref", "dyn", "where", "else", "if", "match", "return", "true", "false", "self")


def lex(src):
    out = []
    i = 0
    while i < len(src):
        if src[i:].strip() == "":
            break
        m = TOK.match(src, i)
        if not m:
            raise Untranslatable("cannot tokenise at: %r" % src[i:i + 30].strip())
        i = m.end()
        if m.group(1) or m.group(2) or m.group(3):
            continue
        for k, kind in ((4, "str"), (5, "int"), (6, "id"), (7, "op")):
            if m.group(k) is not None:
                out.append((kind, m.group(k)))
                break
    return out


# ===================================================================== parser
# AST
#   block = ("block", [stmt], final-expression | None)
#   stmt  = ("let", x, is_mut, type-text | None, e) | ("assign", x, e) | ("expr", e) | ("ret", e) | ("break",)
#         | ("continue",) | ("for", pat, e, block) | ("while", e, block)
#   pat   = ("id", x, is_mut) | ("tuple", [pat]) | ("wild",)
#   e     = ("var", x) | ("str", s) | ("int", n) | ("bool", b) | ("self",) | ("none",) | ("not", e) | ("or", a, b)
#         | ("and", a, b) | ("eq", a, b, negated) | ("mcall", receiver, name, [e], turbofish-text | None)
#         | ("field", e, name) | ("index", e, i) | ("call", path, [e]) | ("list", [e]) | ("closure", [pat], body)
#         | block | ("if", cond, block, block | if | None) | ("match", e, [(cpat, e)])
#   cond  = ("cond", e) | ("iflet", cpat, e)
#   cpat  = ("Some", x) | ("Ok", x) | ("Err", x) | ("None",) | ("wild",)
class QP:
    def __init__(self, toks):
        self.t = toks
        self.i = 0

    def peek(self, k=0):
        return self.t[self.i + k] if self.i + k < len(self.t) else ("eof", "")

    def at(self, val, k=0):
        tk = self.peek(k)
        return tk[0] in ("op", "id") and tk[1] == val

    def eat(self, val=None):
        tk = self.peek()
        if tk[0] == "eof":
            raise Untranslatable("unexpected end of the body")
        if val is not None and not (tk[0] in ("op", "id") and tk[1] == val):
            raise Untranslatable("expected %r, found %r" % (val, tk[1]))
        self.i += 1
        return tk

    def ident(self, what):
        kind, x = self.eat()
        if kind != "id" or x.endswith("!") or x in KEYWORDS:
            raise Untranslatable("%s: %r is not a plain identifier" % (what, x))
        return x

    def type_text(self, stops):
        """the tokens of a type, up to one of `stops` at nesting depth 0"""
        out, depth = [], 0
        while True:
            kind, v = self.peek()
            if kind == "eof":
                raise Untranslatable("unterminated type")
            if depth == 0 and kind == "op" and v in stops:
                return "".join(out)
            if v in ("<", "(", "["):
                depth += 1
            elif v in (">", ")", "]"):
                depth -= 1
            if kind not in ("id", "op") or (kind == "id" and v.endswith("!")):
                raise Untranslatable("type with " + v)
            out.append(v)
            self.eat()

    # ---- patterns
    def pattern(self):
        while self.at("&"):
            self.eat()
        if self.at("_"):
            self.eat()
            return ("wild",)
        if self.at("("):
            self.eat()
            subs = []
            while not self.at(")"):
                subs.append(self.pattern())
                if self.at(","):
                    self.eat()
                elif not self.at(")"):
                    raise Untranslatable("tuple pattern")
            self.eat(")")
            return ("tuple", subs)
        is_mut = False
        if self.at("mut"):
            self.eat()
            is_mut = True
        return ("id", self.ident("pattern"), is_mut)

    def cpattern(self):
        if self.at("_"):
            self.eat()
            return ("wild",)
        kind, v = self.eat()
        if kind == "id" and v == "None":
            return ("None",)
        if kind == "id" and v in ("Some", "Ok", "Err"):
            self.eat("(")
            if self.at("_"):
                self.eat()
                x = "_"
            else:
                while self.at("&") or self.at("ref"):
                    self.eat()
                x = self.ident("pattern variable")
            self.eat(")")
            return (v, x)
        raise Untranslatable("pattern starting with %r" % v)

    # ---- expressions
    def expr(self):
        if self.at("|") or self.at("||") or self.at("move"):
            return self.closure()
        return self.or_()

    def closure(self):
        if self.at("move"):
            self.eat()
        params = []
        if self.at("||"):
            self.eat()
        else:
            self.eat("|")
            while not self.at("|"):
                params.append(self.pattern())
                if self.at(":"):
                    self.eat()
                    self.type_text((",", "|"))
                if self.at(","):
                    self.eat()
                elif not self.at("|"):
                    raise Untranslatable("closure parameters")
            self.eat("|")
        return ("closure", params, self.expr())

    def or_(self):
        e = self.and_()
        while self.at("||"):
            self.eat()
            e = ("or", e, self.and_())
        return e

    def and_(self):
        e = self.cmp()
        while self.at("&&"):
            self.eat()
            e = ("and", e, self.cmp())
        return e

    def cmp(self):
        a = self.unary()
        if self.at("==") or self.at("!="):
            op = self.eat()[1]
            return ("eq", a, self.unary(), op == "!=")
        if self.peek()[0] == "op" and self.peek()[1] in ("<", ">", "<=", ">=", "+", "-", "*", ".."):
            raise Untranslatable("operator " + self.peek()[1])
        return a

    def unary(self):
        if self.at("!"):
            self.eat()
            return ("not", self.unary())
        if self.at("&"):                       # a reference: identity
            self.eat()
            if self.at("mut"):
                self.eat()
            return self.unary()
        if self.at("&&"):                      # && in prefix position: two references
            self.eat()
            return self.unary()
        if self.at("*"):                       # a dereference: identity
            self.eat()
            return self.unary()
        return self.postfix()

    def args(self, closer):
        out = []
        while not self.at(closer):
            out.append(self.expr())
            if self.at(","):
                self.eat()
            elif not self.at(closer):
                raise Untranslatable("expected , or %s, found %r" % (closer, self.peek()[1]))
        self.eat(closer)
        return out

    def turbofish(self):
        self.eat("::")
        self.eat("<")
        txt = self.type_text((">",)) if not self.at(">") else ""
        self.eat(">")
        return txt

    def postfix(self):
        e = self.primary()
        while True:
            if self.at("."):
                self.eat()
                kind, name = self.peek()
                if kind == "int":
                    raise Untranslatable("tuple field .%s" % name)
                if (kind, name) == ("id", "await"):
                    raise Untranslatable(".await")
                name = self.ident("method / field name")
                tf = None
                if self.at("::"):
                    tf = self.turbofish()
                if self.at("("):
                    self.eat("(")
                    e = ("mcall", e, name, self.args(")"), tf)
                else:
                    e = ("field", e, name)
            elif self.at("["):
                self.eat()
                ix = self.expr()
                self.eat("]")
                e = ("index", e, ix)
            elif self.at("?"):
                raise Untranslatable("the ? operator")
            else:
                return e

    def primary(self):
        kind, v = self.peek()
        if kind == "str":
            self.eat()
            return ("str", pins.rust_unescape(v[1:-1]))
        if kind == "int":
            self.eat()
            return ("int", int(v))
        if kind == "op":
            if v == "(":
                self.eat()
                e = self.expr()
                if self.at(","):
                    raise Untranslatable("tuple expression")
                self.eat(")")
                return e
            if v == "[":
                self.eat()
                return ("list", self.args("]"))
            if v == "{":
                return self.block()
            raise Untranslatable("unexpected token " + v)
        if kind != "id":
            raise Untranslatable("unexpected " + (v or "end of the body"))
        if v == "if":
            return self.if_()
        if v == "match":
            return self.match_()
        if v in ("true", "false"):
            self.eat()
            return ("bool", v)
        if v == "self":
            self.eat()
            return ("self",)
        if v == "vec!":
            self.eat()
            closer = "]" if self.at("[") else ")"
            self.eat()
            items = []
            while not self.at(closer):
                items.append(self.expr())
                if self.at(","):
                    self.eat()
                elif self.at(";"):
                    raise Untranslatable("vec![x; n]")
                elif not self.at(closer):
                    raise Untranslatable("vec! items")
            self.eat(closer)
            return ("list", items)
        if v.endswith("!"):
            raise Untranslatable("macro " + v)
        if v in KEYWORDS:
            raise Untranslatable("unsupported " + v)
        self.eat()
        path = v
        while self.at("::"):
            if self.peek(1) == ("op", "<"):
                self.turbofish()
                continue
            self.eat()
            path += "::" + self.ident("path segment")
        if self.at("("):
            self.eat()
            return ("call", path, self.args(")"))
        if path == "None":
            return ("none",)
        if "::" in path:
            raise Untranslatable("path " + path)
        return ("var", path)

    def if_(self):
        self.eat("if")
        if self.at("let"):
            self.eat()
            pat = self.cpattern()
            self.eat("=")
            cond = ("iflet", pat, self.expr())
        else:
            cond = ("cond", self.expr())
        th = self.block()
        el = None
        if self.at("else"):
            self.eat()
            el = ("block", [], self.if_()) if self.at("if") else self.block()
        return ("if", cond, th, el)

    def match_(self):
        self.eat("match")
        scrut = self.expr()
        self.eat("{")
        arms = []
        while not self.at("}"):
            pat = self.cpattern()
            self.eat("=>")
            if self.at("return"):
                self.eat()
                body = ("block", [("ret", self.expr())], None)
            else:
                body = self.expr()
            arms.append((pat, body))
            if self.at(","):
                self.eat()
            elif not self.at("}") and body[0] != "block":
                raise Untranslatable("expected , after a match arm")
        self.eat("}")
        return ("match", scrut, arms)

    def block(self):
        self.eat("{")
        b = self.seq()
        self.eat("}")
        return b

    def seq(self):
        stmts, final = [], None
        while not self.at("}") and self.peek()[0] != "eof":
            if final is not None:
                raise Untranslatable("statement after the value of a block")
            if self.at("let"):
                self.eat()
                is_mut = False
                if self.at("mut"):
                    self.eat()
                    is_mut = True
                if self.at("("):
                    raise Untranslatable("let with a tuple pattern")
                x = "_" if self.at("_") else None
                if x:
                    self.eat()
                else:
                    x = self.ident("let pattern")
                ty = None
                if self.at(":"):
                    self.eat()
                    ty = self.type_text(("=", ";"))
                if not self.at("="):
                    raise Untranslatable("let without an initial value")
                self.eat("=")
                e = self.expr()
                self.eat(";")
                stmts.append(("let", x, is_mut, ty, e))
            elif self.at("return"):
                self.eat()
                if self.at(";") or self.at("}"):
                    raise Untranslatable("return without a value")
                e = self.expr()
                if self.at(";"):
                    self.eat()
                stmts.append(("ret", e))
            elif self.at("break") or self.at("continue"):
                w = self.eat()[1]
                if self.at(";"):
                    self.eat()
                elif not self.at("}"):
                    raise Untranslatable(w + " with a label / value")
                stmts.append((w,))
            elif self.at("for"):
                self.eat()
                pat = self.pattern()
                self.eat("in")
                it = self.expr()
                stmts.append(("for", pat, it, self.block()))
            elif self.at("while"):
                self.eat()
                if self.at("let"):
                    raise Untranslatable("while let")
                c = self.expr()
                stmts.append(("while", c, self.block()))
            elif self.at("loop"):
                raise Untranslatable("loop { }")
            elif self.peek()[0] == "id" and self.peek(1) == ("op", "=") and self.peek()[1] not in KEYWORDS:
                x = self.eat()[1]
                self.eat("=")
                e = self.expr()
                self.eat(";")
                stmts.append(("assign", x, e))
            else:
                e = self.expr()
                if self.peek()[0] == "op" and self.peek()[1] in ("=", "+=", "-="):
                    raise Untranslatable("assignment to something that is not a local variable")
                if self.at(";"):
                    self.eat()
                    stmts.append(("expr", e))
                elif self.at("}") or self.peek()[0] == "eof":
                    final = e
                elif e[0] in ("if", "match", "block"):
                    stmts.append(("expr", e))
                else:
                    raise Untranslatable("expected ; or }, found %r" % self.peek()[1])
        return ("block", stmts, final)


# ====================================================================== types
TEXT, BOOL, NAT, UNIT = "text", "bool", "nat", "unit"
HSET = ("hset",)
RULE = ("list", TEXT)
RULES = ("list", RULE)
OPTT = ("opt", TEXT)
RESB = ("result", BOOL)
OPAQUE = ("self", "model", "secmap", "amap", "assertion", "rm")


class TV:
    """a type that is not known yet (the element type of vec![], the payload of None)"""

    def __init__(self):
        self.t = None


def resolve(t):
    if isinstance(t, TV):
        return resolve(t.t) if t.t is not None else t
    if isinstance(t, tuple):
        return (t[0],) + tuple(resolve(x) for x in t[1:])
    return t


def unify(a, b):
    a, b = resolve(a), resolve(b)
    if a is b:
        return True
    if isinstance(a, TV):
        a.t = b
        return True
    if isinstance(b, TV):
        b.t = a
        return True
    if isinstance(a, tuple) and isinstance(b, tuple):
        return a[0] == b[0] and len(a) == len(b) and all(unify(x, y) for x, y in zip(a[1:], b[1:]))
    return a == b


def ty_name(t):
    t = resolve(t)
    if isinstance(t, TV):
        return "_"
    if isinstance(t, str):
        return t
    if t == HSET:
        return "HashSet<String>"
    return "%s<%s>" % (t[0], ", ".join(ty_name(x) for x in t[1:]))


def coq_ty(t):
    t = resolve(t)
    if isinstance(t, TV):
        raise Untranslatable("a type could not be inferred")
    if t in (TEXT, BOOL, NAT, UNIT):
        return t
    if t == RULE:
        return "rule"
    if t == HSET:
        return "(list text)"
    if t in ("amap", "assertion", "model"):
        return t
    if t == "secmap":
        return "model"
    if t == "rm":
        return "handle"
    if isinstance(t, tuple) and t[0] == "list":
        return "(list %s)" % coq_ty(t[1])
    if isinstance(t, tuple) and t[0] == "opt":
        return "(option %s)" % coq_ty(t[1])
    if isinstance(t, tuple) and t[0] == "pair":
        return "(%s * %s)" % (coq_ty(t[1]), coq_ty(t[2]))
    if isinstance(t, tuple) and t[0] == "result":
        return "(outcome %s)" % coq_ty(t[1])
    raise Untranslatable("type %s has no Gallina counterpart" % ty_name(t))


def rust_type(txt):
    t = re.sub(r"\s+", "", txt)
    t = re.sub(r"'\w+", "", t)
    t = re.sub(r"^(&(mut)?)+", "", t)
    t = re.sub(r"^(mut)(?=[A-Z\[(&])", "", t)
    if t in ("str", "String"):
        return TEXT
    if t == "usize":
        return NAT
    if t == "bool":
        return BOOL
    if t == "_":
        return TV()
    m = re.match(r"(?:Vec|VecDeque)<(.*)>$", t) or re.match(r"\[(.*?)(?:;\d+)?\]$", t)
    if m:
        return ("list", rust_type(m.group(1)))
    m = re.match(r"Option<(.*)>$", t)
    if m:
        return ("opt", rust_type(m.group(1)))
    m = re.match(r"(?:std::collections::)?HashSet<(.*)>$", t)
    if m:
        if rust_type(m.group(1)) not in (TEXT,) and not isinstance(rust_type(m.group(1)), TV):
            raise Untranslatable("HashSet of " + m.group(1))
        return HSET
    m = re.match(r"Result<(.*)>$", t)
    if m:
        return ("result", rust_type(m.group(1)))
    raise Untranslatable("type %s" % txt.strip())


def coq_text(s):
    if any(not (32 <= ord(c) < 127) for c in s):
        raise Untranslatable("string literal with non-printable or non-ASCII characters")
    return "(T %s)" % pins.coq_str(s)


# =================================================================== emission
class Var:
    def __init__(self, ty, g, mutable):
        self.ty, self.g, self.mutable = ty, g, mutable


class Func:
    def __init__(self, name, params, ret, where):
        self.name, self.params, self.ret, self.where = name, params, ret, where
        self.uses = set()        # of "ptab", "ord", "fuel"


EXTRA_ORDER = (("ptab", "(ptab : text -> option expr)"), ("ord", "(ord : list text -> list text)"), ("fuel", "(fuel : nat)"))
TEXT_IDENTITY = ("to_string", "to_owned", "into", "clone", "as_str", "as_ref", "borrow")
LIST_IDENTITY = ("iter", "into_iter", "cloned", "copied", "collect", "to_vec", "clone", "to_owned", "into", "as_slice")
VEC_MUTATORS = ("push", "insert", "extend", "swap_remove", "remove", "pop", "clear")
HSET_MUTATORS = ("insert", "extend", "clear")
MUTATORS = tuple(set(VEC_MUTATORS + HSET_MUTATORS))


def walk(e):
    if isinstance(e, list):
        for x in e:
            yield from walk(x)
    elif isinstance(e, tuple):
        yield e
        for x in e[1:]:
            if isinstance(x, (tuple, list)):
                yield from walk(x)


def mutated_names(node):
    """Rust names that are assigned / mutated through a method somewhere inside the node (syntactic)"""
    out = set()
    for n in walk(node):
        if not n:
            continue
        if n[0] == "assign":
            out.add(n[1])
        elif n[0] == "mcall" and n[1][0] == "var" and n[2] in MUTATORS:
            out.add(n[1][1])
    return out


class Em:
    """emission of one function.  `s` is the enforcer state (never modified: all targets take &self)."""

    def __init__(self, tr, ret):
        self.tr = tr
        self.ret = ret
        self.n = 0
        self.names = set()
        self.loops = []          # carried Coq names of the enclosing loops
        self.pure = []           # stack of the sets of Coq names a total region may re-bind; empty = flow mode
        self.uses = set()
        self.nils = []

    # ---- names
    def fresh(self):
        self.n += 1
        return "t%d" % self.n

    def declare(self, env, x, ty, mutable=False):
        if x == "_":
            return env, "_"
        g = "v_" + x
        k = 0
        while g in self.names:
            k += 1
            g = "v_%s_%d" % (x, k)
        self.names.add(g)
        env2 = dict(env)
        env2[x] = Var(ty, g, mutable)
        if self.pure:
            self.pure[-1].add(g)
        return env2, g

    @staticmethod
    def frozen(env):
        """inside a closure the captured variables cannot be mutated"""
        return dict((x, Var(v.ty, v.g, False)) for x, v in env.items())

    @staticmethod
    def tup(names):
        if not names:
            return "tt"
        return names[0] if len(names) == 1 else "(%s)" % ", ".join(names)

    @staticmethod
    def lam_pat(names):
        if not names:
            return "(_ : unit)"
        return names[0] if len(names) == 1 else "'(%s)" % ", ".join(names)

    @staticmethod
    def let_pat(names):
        return names[0] if len(names) == 1 else "'(%s)" % ", ".join(names)

    def want(self, t, expected, what):
        if not unify(t, expected):
            raise Untranslatable("%s is a %s, not a %s" % (what, ty_name(t), ty_name(expected)))

    def nil(self, elem=None):
        tv = elem if elem is not None else TV()
        self.nils.append(tv)
        return ("list", tv), "@NIL%d@" % (len(self.nils) - 1)

    def fill_nils(self, term):
        def one(m):
            try:
                return "([] : list %s)" % coq_ty(self.nils[int(m.group(1))])
            except Untranslatable:
                return "[]"
        return re.sub(r"@NIL(\d+)@", one, term)

    # ---- partiality / control
    def flow_only(self, what):
        if self.pure:
            raise Impure(what)

    def partial(self, term, k):
        """term : option T (None = panic); k(variable holding the T)"""
        self.flow_only("an operation that can panic")
        x = self.fresh()
        return "(match %s with Some %s => %s | None => LPanic end)" % (term, x, k(x))

    def rebind(self, var, new, rest, what):
        """the Rust variable behind `var` receives `new`; rest() is the term of what follows"""
        if not var.mutable:
            raise Untranslatable("%s of a variable that is not a `mut` local of this function / closure" % what)
        if self.pure and var.g not in self.pure[-1]:
            raise Impure("mutation of an outer variable")
        return "(let %s := %s in\n %s)" % (var.g, new, rest())

    def total(self, allowed, f):
        """run f() as a total region (no panic, no control flow, only `allowed` outer names re-bound)"""
        self.pure.append(set(allowed))
        try:
            return f()
        finally:
            self.pure.pop()

    def pure_val(self, e, env):
        box = []

        def k(t, a):
            box.append(t)
            return a
        term = self.total((), lambda: self.val(e, env, k))
        t = box[0]
        for t2 in box[1:]:
            if not unify(t, t2):
                raise Untranslatable("branches of type %s and %s" % (ty_name(t), ty_name(t2)))
        return t, term

    # ---- expressions: val(e, env, k) with k(type, term) -> the term of what follows
    def val(self, e, env, k):
        kind = e[0]
        if kind == "var":
            if e[1] not in env:
                raise Untranslatable("identifier " + e[1])
            return k(env[e[1]].ty, env[e[1]].g)
        if kind == "str":
            return k(TEXT, coq_text(e[1]))
        if kind == "int":
            return k(NAT, str(e[1]))
        if kind == "bool":
            return k(BOOL, e[1])
        if kind == "none":
            return k(("opt", TV()), "None")
        if kind == "self":
            return k("self", "s")
        if kind == "not":
            def neg(t, a):
                self.want(t, BOOL, "operand of !")
                return k(BOOL, "(negb %s)" % a)
            return self.val(e[1], env, neg)
        if kind in ("and", "or"):
            return self.shortcut(e, env, k)
        if kind == "eq":
            def left(ta, a):
                def right(tb, b):
                    if not unify(ta, tb):
                        raise Untranslatable("comparison of a %s with a %s" % (ty_name(ta), ty_name(tb)))
                    t = resolve(ta)
                    fn = {TEXT: "rs_eq", BOOL: "Bool.eqb", NAT: "Nat.eqb", RULE: "rs_vec_eq"}.get(t if isinstance(t, (str, tuple)) else None)
                    if fn is None:
                        raise Untranslatable("comparison of two %s" % ty_name(t))
                    c = "(%s %s %s)" % (fn, a, b)
                    return k(BOOL, "(negb %s)" % c if e[3] else c)
                return self.val(e[2], env, right)
            return self.val(e[1], env, left)
        if kind == "list":
            if not e[1]:
                return k(*self.nil())
            return self.vals(e[1], env, lambda parts: k(*self.mk_list(parts)))
        if kind == "call":
            return self.call(e, env, k)
        if kind == "mcall":
            return self.mcall(e, env, k)
        if kind == "field":
            return self.val(e[1], env, lambda t, a: k(*self.field(t, a, e[2])))
        if kind == "index":
            def base(tv, v):
                def idx(ti, i):
                    tv2 = resolve(tv)
                    if not (isinstance(tv2, tuple) and tv2[0] == "list"):
                        raise Untranslatable("index of a %s" % ty_name(tv2))
                    self.want(ti, NAT, "index")
                    return self.partial("(rs_index %s %s)" % (v, i), lambda x: k(tv2[1], x))
                return self.val(e[2], env, idx)
            return self.val(e[1], env, base)
        if kind == "closure":
            raise Untranslatable("closure outside an iterator adaptor")
        if kind == "block":
            return self.block_val(e, env, k)
        if kind == "if":
            return self.if_val(e, env, k)
        if kind == "match":
            return self.match_val(e, env, k)
        raise Untranslatable("expression of kind " + kind)

    def vals(self, es, env, k, acc=()):
        if not es:
            return k(list(acc))
        return self.val(es[0], env, lambda t, a: self.vals(es[1:], env, k, acc + ((t, a),)))

    def mk_list(self, parts):
        t = parts[0][0]
        for p in parts[1:]:
            if not unify(t, p[0]):
                raise Untranslatable("vector with elements of type %s and %s" % (ty_name(t), ty_name(p[0])))
        return ("list", t), "[%s]" % "; ".join(p[1] for p in parts)

    def shortcut(self, e, env, k):
        is_or = e[0] == "or"

        def left(ta, a):
            self.want(ta, BOOL, "operand of " + e[0])
            try:
                tb, b = self.pure_val(e[2], env)
            except Impure:
                def right(tb, b):
                    self.want(tb, BOOL, "operand of " + e[0])
                    return k(BOOL, b)
                run = self.val(e[2], env, right)
                skip = k(BOOL, "true" if is_or else "false")
                return "(if %s then %s else %s)" % ((a, skip, run) if is_or else (a, run, skip))
            self.want(tb, BOOL, "operand of " + e[0])
            return k(BOOL, "(%s %s %s)" % (a, "||" if is_or else "&&", b))
        return self.val(e[1], env, left)

    def field(self, t, a, name):
        t = resolve(t)
        if t == "assertion" and name == "rm":
            return "rm", "(a_handle %s)" % a
        if t == "assertion" and name == "policy":
            return RULES, "(a_policy %s)" % a
        raise Untranslatable("field .%s of a %s" % (name, ty_name(t)))

    def call(self, e, env, k):
        path, args = e[1], e[2]
        if path in ("String::from", "Cow::Owned", "Cow::Borrowed", "String::new") and len(args) <= 1:
            if not args:
                return k(TEXT, coq_text(""))

            def txt(t, a):
                self.want(t, TEXT, "argument of " + path)
                return k(TEXT, a)
            return self.val(args[0], env, txt)
        if path == "Some" and len(args) == 1:
            return self.val(args[0], env, lambda t, a: k(("opt", t), "(Some %s)" % a))
        if path in ("Vec::new", "Vec::with_capacity"):
            return k(*self.nil())
        if path == "HashSet::new" and not args:
            return k(HSET, "hs_new")
        if path in ("Arc::clone", "Rc::clone") and len(args) == 1:
            return self.val(args[0], env, k)
        raise Untranslatable("call of " + path)

    # ---- closures (arguments of the iterator adaptors): total, no captured mutation
    def closure(self, clo, elem_ty, env, want_ret=None):
        if clo[0] != "closure" or len(clo[1]) != 1:
            raise Untranslatable("the argument of the adaptor is not a one-parameter closure")
        pat = clo[1][0]
        env2 = self.frozen(env)
        self.loops.append(None)
        try:
            def run():
                envc, binder = self.bind_pattern(env2, pat, elem_ty)
                t, b = self.pure_val_in_region(clo[2], envc)
                return t, binder, b
            try:
                t, binder, b = self.total((), run)
            except Impure as ex:
                raise Untranslatable("closure that is not total (%s)" % ex)
        finally:
            self.loops.pop()
        if want_ret is not None:
            self.want(t, want_ret, "result of the closure")
        return t, "(fun %s => %s)" % (binder, b)

    def pure_val_in_region(self, e, env):
        box = []

        def k(t, a):
            box.append(t)
            return a
        term = self.val(e, env, k)
        if not box:
            raise Untranslatable("closure without a value")
        for t2 in box[1:]:
            if not unify(box[0], t2):
                raise Untranslatable("branches of type %s and %s" % (ty_name(box[0]), ty_name(t2)))
        return box[0], term

    def bind_pattern(self, env, pat, ty):
        """-> (env, Coq binder) for a `for` / closure pattern"""
        ty = resolve(ty)
        if pat[0] == "wild":
            return env, "_"
        if pat[0] == "id":
            env2, g = self.declare(env, pat[1], ty, pat[2])
            return env2, g
        if not (isinstance(ty, tuple) and ty[0] == "pair") or len(pat[1]) != 2:
            raise Untranslatable("tuple pattern for a %s" % ty_name(ty))
        env2, a = self.bind_pattern(env, pat[1][0], ty[1])
        env2, b = self.bind_pattern(env2, pat[1][1], ty[2])
        return env2, "'(%s, %s)" % (a, b)

    # ---- method calls
    def mcall(self, e, env, k):
        recv, name, args, tf = e[1], e[2], e[3], e[4]
        if recv == ("self",):
            return self.self_call(name, args, env, k)
        if recv[0] == "var" and recv[1] in env and name in MUTATORS:
            t = resolve(env[recv[1]].ty)
            if (isinstance(t, tuple) and t[0] == "list" and name in VEC_MUTATORS) or (t == HSET and name in HSET_MUTATORS):
                return self.mutator(env[recv[1]], t, name, args, env, k)
        return self.val(recv, env, lambda t, a: self.method(resolve(t), a, name, args, tf, env, k))

    def self_call(self, name, args, env, k):
        if name == "get_model" and not args:
            return k("model", "(e_model s)")
        if name == "get_role_manager" and not args:
            return k("rm", "cur_role_manager")
        if name == "enforce" and len(args) == 1:
            def req(t, a):
                self.want(t, RULE, "argument of enforce")
                self.uses.add("ptab")
                return k(RESB, "(enf_enforce ptab s %s)" % a)
            return self.val(args[0], env, req)
        fn = self.tr.func(name)
        if len(args) != len(fn.params):
            raise Untranslatable("%s called with %d arguments" % (name, len(args)))

        def doit(parts):
            for (t, _), (pn, pt) in zip(parts, fn.params):
                self.want(t, pt, "argument %s of %s" % (pn, name))
            self.uses |= fn.uses
            term = "(genq_%s%s s%s)" % (name, "".join(" " + x for x, _ in EXTRA_ORDER if x in fn.uses),
                                       "".join(" " + p[1] for p in parts))
            return self.partial(term, lambda x: k(fn.ret, x))
        return self.vals(args, env, doit)

    def mutator(self, var, t, name, args, env, k):
        what = "." + name
        if t == HSET:
            if name == "insert" and len(args) == 1:
                def ins(tx, x):
                    self.want(tx, TEXT, "inserted element")
                    b = self.fresh()
                    return "(let %s := hs_insert_new %s %s in\n %s)" % (
                        b, var.g, x, self.rebind(var, "hs_insert %s %s" % (var.g, x), lambda: k(BOOL, b), what))
                return self.val(args[0], env, ins)
            if name == "extend" and len(args) == 1:
                def ext(tx, x):
                    self.want(self.as_list(tx), RULE, "argument of extend")
                    return self.rebind(var, "hs_extend %s %s" % (var.g, self.listify(tx, x)), lambda: k(UNIT, "tt"), what)
                return self.val(args[0], env, ext)
            if name == "clear" and not args:
                return self.rebind(var, "hs_new", lambda: k(UNIT, "tt"), what)
            raise Untranslatable("HashSet%s with %d argument(s)" % (what, len(args)))
        elem = t[1]
        if name == "push" and len(args) == 1:
            def push(tx, x):
                self.want(tx, elem, "pushed element")
                return self.rebind(var, "rs_push %s %s" % (var.g, x), lambda: k(UNIT, "tt"), what)
            return self.val(args[0], env, push)
        if name == "insert" and len(args) == 2:
            def ins2(parts):
                (ti, i), (tx, x) = parts
                self.want(ti, NAT, "index of insert")
                self.want(tx, elem, "inserted element")
                if args[0] == ("int", 0):
                    return self.rebind(var, "(%s :: %s)" % (x, var.g), lambda: k(UNIT, "tt"), what)
                return self.partial("(rs_vec_insert %s %s %s)" % (var.g, i, x),
                                    lambda y: self.rebind(var, y, lambda: k(UNIT, "tt"), what))
            return self.vals(args, env, ins2)
        if name == "extend" and len(args) == 1:
            def ext2(tx, x):
                self.want(self.as_list(tx), ("list", elem), "argument of extend")
                return self.rebind(var, "rs_extend %s %s" % (var.g, self.listify(tx, x)), lambda: k(UNIT, "tt"), what)
            return self.val(args[0], env, ext2)
        if name in ("swap_remove", "remove") and len(args) == 1:
            def rem(ti, i):
                self.want(ti, NAT, "index of " + name)
                op = "rs_swap_remove" if name == "swap_remove" else "rs_vec_remove"
                x = self.fresh()
                self.flow_only("an operation that can panic")
                return "(match %s %s %s with Some (%s, %s_) => %s | None => LPanic end)" % (
                    op, var.g, i, x, x, self.rebind(var, x + "_", lambda: k(elem, x), what))
            return self.val(args[0], env, rem)
        if name == "pop" and not args:
            x = self.fresh()
            return "(let '(%s, %s_) := rs_vec_pop %s in\n %s)" % (
                x, x, var.g, self.rebind(var, x + "_", lambda: k(("opt", elem), x), what))
        if name == "clear" and not args:
            return self.rebind(var, self.nil(elem)[1], lambda: k(UNIT, "tt"), what)
        raise Untranslatable("Vec%s with %d argument(s)" % (what, len(args)))

    def as_list(self, t):
        t = resolve(t)
        if t == HSET:
            return RULE
        if t == "amap":
            return ("list", ("pair", TEXT, "assertion"))
        return t

    def listify(self, t, a):
        """the items an expression yields when iterated"""
        if resolve(t) == HSET:
            self.uses.add("ord")
            return "(hs_to_vec ord %s)" % a
        return a

    def method(self, t, a, name, args, tf, env, k):
        n = len(args)
        if t == TEXT:
            if name in TEXT_IDENTITY and n == 0:
                return k(TEXT, a)
            if name == "is_empty" and n == 0:
                return k(BOOL, "(rs_is_empty %s)" % a)
        if t == "model":
            if name == "get_model" and n == 0:
                return k("secmap", a)
            table = {"get_policy": ([TEXT, TEXT], RULES, "mdl_get_policy", False),
                     "get_filtered_policy": ([TEXT, TEXT, NAT, RULE], RULES, "mdl_get_filtered_policy", True),
                     "has_policy": ([TEXT, TEXT, RULE], BOOL, "mdl_has_policy", True),
                     "get_values_for_field_in_policy": ([TEXT, TEXT, NAT], RULE, "mdl_values_for_field", True)}
            if name in table:
                ptys, ret, fn, part = table[name]
                if n != len(ptys):
                    raise Untranslatable("Model::%s with %d arguments" % (name, n))

                def doit(parts):
                    for i, ((tx, _), pt) in enumerate(zip(parts, ptys)):
                        self.want(tx, pt, "argument %d of Model::%s" % (i + 1, name))
                    term = "(%s %s %s)" % (fn, a, " ".join(p[1] for p in parts))
                    return self.partial(term, lambda x: k(ret, x)) if part else k(ret, term)
                return self.vals(args, env, doit)
        if t in ("secmap", "amap") and name == "get" and n == 1:
            def key(tx, x):
                self.want(tx, TEXT, "key of .get")
                if t == "secmap":
                    return k(("opt", "amap"), "(hm_get_section %s %s)" % (a, x))
                return k(("opt", "assertion"), "(amap_get %s %s)" % (a, x))
            return self.val(args[0], env, key)
        if t == "amap" and n == 0:
            if name in ("iter", "into_iter"):
                return k(("list", ("pair", TEXT, "assertion")), a)
            if name == "values":
                return k(("list", "assertion"), "(map snd %s)" % a)
            if name == "keys":
                return k(RULE, "(map fst %s)" % a)
        if t == "assertion" and name == "get_policy" and n == 0:
            return k(RULES, "(a_policy %s)" % a)
        if t == "rm":
            if name in ("read", "clone") and n == 0:
                return k("rm", a)
            if name in ("get_roles", "get_users") and n == 2:
                def doit2(parts):
                    self.want(parts[0][0], TEXT, "name")
                    self.want(parts[1][0], OPTT, "domain")
                    self.uses.add("ord")
                    return k(RULE, "(rm_%s ord (e_fs s) %s %s %s)" % (name, a, parts[0][1], parts[1][1]))
                return self.vals(args, env, doit2)
        if t == HSET:
            if name in ("iter", "into_iter", "drain") and n == 0:
                return k(RULE, self.listify(t, a))
            if name == "contains" and n == 1:
                def has(tx, x):
                    self.want(tx, TEXT, "argument of contains")
                    return k(BOOL, "(hs_contains %s %s)" % (a, x))
                return self.val(args[0], env, has)
            if name == "clone" and n == 0:
                return k(HSET, a)
            if name == "is_empty" and n == 0:
                return k(BOOL, "(rs_vec_is_empty %s)" % a)
        if isinstance(t, tuple) and t[0] == "opt":
            if name == "unwrap" and n == 0:
                return self.partial(a, lambda x: k(t[1], x))
            if name == "unwrap_or" and n == 1:
                def dflt(td, d):
                    self.want(td, t[1], "argument of unwrap_or")
                    return k(t[1], "(rs_unwrap_or %s %s)" % (a, d))
                return self.val(args[0], env, dflt)
            if name in ("is_some", "is_none") and n == 0:
                return k(BOOL, "(rs_is_some %s)" % a if name == "is_some" else "(negb (rs_is_some %s))" % a)
            if name in ("cloned", "clone", "copied") and n == 0:
                return k(t, a)
        if isinstance(t, tuple) and t[0] == "result":
            if name == "unwrap_or" and n == 1:
                def dflt2(td, d):
                    self.want(td, t[1], "argument of unwrap_or")
                    self.flow_only("an operation that can panic")
                    x = self.fresh()
                    return "(match %s with Ok %s => %s | Err _ => %s | Panic => LPanic end)" % (a, x, k(t[1], x), k(t[1], d))
                return self.val(args[0], env, dflt2)
            if name == "is_ok" and n == 0:
                self.flow_only("an operation that can panic")
                return "(match %s with Ok _ => %s | Err _ => %s | Panic => LPanic end)" % (a, k(BOOL, "true"), k(BOOL, "false"))
        if isinstance(t, tuple) and t[0] == "list":
            elem = t[1]
            if name == "collect" and n == 0 and tf is not None and "HashSet" in tf:
                self.want(elem, TEXT, "element collected into a HashSet")
                return k(HSET, "(hs_extend hs_new %s)" % a)
            if name == "collect" and n == 0 and tf is not None and not re.match(r"Vec<.*>$", re.sub(r"\s+", "", tf)):
                raise Untranslatable("collect::<%s>" % tf)
            if name in LIST_IDENTITY and n == 0:
                return k(t, a)
            if name in ("map", "filter", "flat_map", "any", "all") and n == 1:
                if name == "map":
                    tb, f = self.closure(args[0], elem, env)
                    return k(("list", tb), "(rs_iter_map %s %s)" % (f, a))
                if name == "flat_map":
                    tb, f = self.closure(args[0], elem, env)
                    tb = self.as_list(tb)
                    if not (isinstance(resolve(tb), tuple) and resolve(tb)[0] == "list"):
                        raise Untranslatable("flat_map closure producing a " + ty_name(tb))
                    return k(resolve(tb), "(rs_iter_flat_map %s %s)" % (f, a))
                tb, f = self.closure(args[0], elem, env, BOOL)
                if name == "filter":
                    return k(t, "(rs_iter_filter %s %s)" % (f, a))
                return k(BOOL, "(%s %s %s)" % ("rs_iter_any" if name == "any" else "rs_iter_all", f, a))
            if name == "chain" and n == 1:
                def ch(tx, x):
                    self.want(self.as_list(tx), t, "argument of chain")
                    return k(t, "(rs_iter_chain %s %s)" % (a, self.listify(tx, x)))
                return self.val(args[0], env, ch)
            if name == "contains" and n == 1:
                def has2(tx, x):
                    self.want(elem, TEXT, "element type of the vector searched with contains")
                    self.want(tx, TEXT, "argument of contains")
                    return k(BOOL, "(rs_vec_contains %s %s)" % (a, x))
                return self.val(args[0], env, has2)
            if name == "is_empty" and n == 0:
                return k(BOOL, "(rs_vec_is_empty %s)" % a)
            if name == "len" and n == 0:
                return k(NAT, "(rs_vec_len %s)" % a)
        raise Untranslatable("method .%s with %d argument(s) on a %s" % (name, n, ty_name(t)))

    # ---- branching: the arms are (binder text, env, body block/expr); build(arm terms) gives the match / if
    def branch_val(self, arms, build, k, can_total=True):
        """a value computed by branches: one term when every branch is total, else k continues in every branch"""
        if can_total:
            try:
                def attempt():
                    parts = [self.pure_val_in_region(body, env) for env, body in arms]
                    return parts
                parts = self.total((), attempt)
                t = parts[0][0]
                for p in parts[1:]:
                    if not unify(t, p[0]):
                        raise Untranslatable("branches of type %s and %s" % (ty_name(t), ty_name(p[0])))
                return k(t, build([p[1] for p in parts]))
            except Impure:
                if self.pure:
                    raise
        return build([self.val(body, env, k) for env, body in arms])

    def if_val(self, e, env, k):
        cond, th, el = e[1], e[2], e[3]
        if el is None:
            raise Untranslatable("if without else where a value is needed")
        return self.cond(cond, env, lambda env_t, build, tot: self.branch_val([(env_t, th), (env, el)], build, k, tot))

    def cond(self, cond, env, then):
        """evaluate the condition of an if; then(env of the first branch, build([a, b]) -> term, may the whole
           `if` be one total term?)"""
        if cond[0] == "cond":
            def on_bool(t, c):
                self.want(t, BOOL, "condition")
                return then(env, lambda ab: "(if %s then %s else %s)" % (c, ab[0], ab[1]), True)
            return self.val(cond[1], env, on_bool)
        pat = cond[1]

        def on_scrut(t, v):
            t = resolve(t)
            if pat[0] == "Some":
                if not (isinstance(t, tuple) and t[0] == "opt"):
                    raise Untranslatable("Some(..) pattern on a " + ty_name(t))
                env2, g = self.declare(env, pat[1], t[1])
                return then(env2, lambda ab: "(match %s with Some %s => %s | None => %s end)" % (v, g, ab[0], ab[1]), True)
            if pat[0] == "None":
                if not (isinstance(t, tuple) and t[0] == "opt"):
                    raise Untranslatable("None pattern on a " + ty_name(t))
                return then(env, lambda ab: "(match %s with None => %s | Some _ => %s end)" % (v, ab[0], ab[1]), True)
            if pat[0] in ("Ok", "Err"):
                if not (isinstance(t, tuple) and t[0] == "result"):
                    raise Untranslatable("%s(..) pattern on a %s" % (pat[0], ty_name(t)))
                self.flow_only("a call of enforce (it can panic)")
                if pat[0] == "Ok":
                    env2, g = self.declare(env, pat[1], t[1])
                    return then(env2, lambda ab: "(match %s with Ok %s => %s | Err _ => %s | Panic => LPanic end)" % (v, g, ab[0], ab[1]), False)
                if pat[1] != "_":
                    raise Untranslatable("the error of a Result is bound to a variable")
                return then(env, lambda ab: "(match %s with Err _ => %s | Ok _ => %s | Panic => LPanic end)" % (v, ab[0], ab[1]), False)
            raise Untranslatable("if let with pattern " + pat[0])
        return self.val(cond[2], env, on_scrut)

    @staticmethod
    def norm_match(arms):
        """a two-arm match on an Option / Result as (pattern of the first branch, first branch, other branch)"""
        kinds = [p[0] for p, _ in arms]
        if len(arms) != 2 or kinds[0] == "wild" or kinds[0] == kinds[1]:
            raise Untranslatable("match with arms " + "/".join(kinds))
        (p1, b1), (p2, b2) = arms
        ok = {"Some": ("None", "wild"), "None": ("Some", "wild"), "Ok": ("Err", "wild"), "Err": ("Ok", "wild")}
        if p1[0] not in ok or p2[0] not in ok[p1[0]]:
            raise Untranslatable("match with arms " + "/".join(kinds))
        if p2[0] in ("Some", "Ok"):
            return p2, b2, b1          # the binding arm first
        return p1, b1, b2

    def match_val(self, e, env, k):
        p1, b1, b2 = self.norm_match(e[2])
        return self.cond(("iflet", p1, e[1]), env,
                         lambda env_t, build, tot: self.branch_val([(env_t, b1), (env, b2)], build, k, tot))

    # ---- blocks and statements
    def block_val(self, blk, env, k):
        """the value of a block (nested scope)"""
        if blk[0] != "block":
            return self.val(blk, env, k)

        def end(env2):
            if blk[2] is None:
                raise Untranslatable("block without a value where one is needed")
            return self.val(blk[2], env2, k)
        return self.stmts(blk[1], env, end)

    def block_unit(self, blk, env, k):
        """a block run for its effect; k() is the term of what follows"""
        if blk is None:
            return k()
        if blk[0] != "block":
            return self.stmt(("expr", blk), env, lambda env2: k())

        def end(env2):
            if blk[2] is None:
                return k()
            return self.stmt(("expr", blk[2]), env2, lambda env3: k())
        return self.stmts(blk[1], env, end)

    def stmts(self, sts, env, kend):
        if not sts:
            return kend(env)
        st, rest = sts[0], sts[1:]
        if st[0] in ("ret", "break", "continue") and rest:
            raise Untranslatable("code after " + {"ret": "return"}.get(st[0], st[0]))
        return self.stmt(st, env, lambda env2: self.stmts(rest, env2, kend))

    def stmt(self, st, env, k):
        """k(env) is the term of what follows"""
        kind = st[0]
        if kind == "let":
            x, is_mut, ann, e = st[1], st[2], st[3], st[4]

            def bound(t, v):
                t2, v2 = t, v
                if ann is not None:
                    ta = rust_type(ann)
                    if resolve(ta) == HSET and isinstance(resolve(t), tuple) and resolve(t)[0] == "list":
                        self.want(resolve(t)[1], TEXT, "element collected into a HashSet")
                        t2, v2 = HSET, "(hs_extend hs_new %s)" % v
                    elif isinstance(resolve(ta), tuple) and resolve(ta)[0] == "list" and resolve(t) == HSET:
                        raise Untranslatable("a HashSet bound to a Vec")
                    else:
                        self.want(t, ta, "value bound to %s" % x)
                if resolve(t2) in ("self",):
                    raise Untranslatable("let of self")
                env2, g = self.declare(env, x, t2, is_mut)
                return "(let %s := %s in\n %s)" % (g, v2, k(env2))
            return self.val(e, env, bound)
        if kind == "assign":
            if st[1] not in env:
                raise Untranslatable("identifier " + st[1])
            var = env[st[1]]

            def assigned(t, v):
                self.want(t, var.ty, "value assigned to " + st[1])
                return self.rebind(var, v, lambda: k(env), "assignment")
            return self.val(st[2], env, assigned)
        if kind == "ret":
            self.flow_only("return")
            if None in self.loops:
                raise Untranslatable("return inside a closure")

            def ret(t, v):
                self.want(t, self.ret, "returned value")
                return "(LReturn %s)" % v
            return self.val(st[1], env, ret)
        if kind in ("break", "continue"):
            self.flow_only(kind)
            if not self.loops or self.loops[-1] is None:
                raise Untranslatable(kind + " outside a loop")
            return "(%s %s)" % ("LBreak" if kind == "break" else "LNext", self.tup(self.loops[-1]))
        if kind == "for":
            return self.for_(st, env, k)
        if kind == "while":
            return self.while_(st, env, k)
        e = st[1]
        if e[0] == "if":
            return self.if_stmt(e, env, k)
        if e[0] == "match":
            p1, b1, b2 = self.norm_match(e[2])
            blk = lambda b: b if b[0] == "block" else ("block", [], b)   # noqa: E731
            return self.if_stmt(("if", ("iflet", p1, e[1]), blk(b1), blk(b2)), env, k)
        if e[0] == "block":
            return self.block_unit(e, env, lambda: k(env))
        return self.val(e, env, lambda t, v: k(env))

    def carried(self, node, env):
        """the outer `mut` locals a statement may re-bind (sorted by Rust name): [Var]"""
        return [env[x] for x in sorted(mutated_names(node)) if x in env and env[x].mutable]

    def if_stmt(self, e, env, k):
        cond, th, el = e[1], e[2], e[3]

        def branches(env_t, build, can_total):
            vs = self.carried([th, el], env)
            names = [v.g for v in vs]
            try:
                if not can_total:
                    raise Impure("a match that can panic")

                def attempt():
                    a = self.block_unit(th, env_t, lambda: self.tup(names))
                    b = self.block_unit(el, env, lambda: self.tup(names))
                    return a, b
                a, b = self.total(names, attempt)
            except Impure:
                if self.pure:
                    raise
                return build([self.block_unit(th, env_t, lambda: k(env)), self.block_unit(el, env, lambda: k(env))])
            if not names:
                return k(env)      # total branches without effect on the outside
            return "(let %s := %s in\n %s)" % (self.let_pat(names), build([a, b]), k(env))
        return self.cond(cond, env, branches)

    def for_(self, st, env, k):
        pat, it, body = st[1], st[2], st[3]
        self.flow_only("a loop")

        def over(t, a):
            tl = resolve(self.as_list(t))
            if not (isinstance(tl, tuple) and tl[0] == "list"):
                raise Untranslatable("for over a " + ty_name(tl))
            a2 = self.listify(t, a)         # a HashSet iterated directly: its elements in the order `ord`
            return self.loop_term(body, env, k,
                                  lambda envb: self.bind_pattern(envb, pat, tl[1]),
                                  lambda binder, cpat, b, ctup: "rs_for (fun %s %s =>\n %s)\n %s %s" % (binder, cpat, b, a2, ctup))
        return self.val(it, env, over)

    def while_(self, st, env, k):
        c, body = st[1], st[2]
        self.flow_only("a loop")
        self.uses.add("fuel")

        def head(binder, cpat, b, ctup):
            tc, cterm = self.pure_val(c, env)
            self.want(tc, BOOL, "condition of while")
            return "rs_while fuel (fun %s => Some %s)\n (fun %s =>\n %s)\n %s" % (cpat, cterm, cpat, b, ctup)
        try:
            return self.loop_term([c, body], env, k, lambda envb: (envb, None), head, body_node=body)
        except Impure as ex:
            raise Untranslatable("condition of while that is not total (%s)" % ex)

    def loop_term(self, node, env, k, bind, head, body_node=None):
        vs = self.carried(node, env)
        names = [v.g for v in vs]
        envb, binder = bind(env)
        self.loops.append(names)
        try:
            b = self.block_unit(body_node if body_node is not None else node, envb, lambda: "(LNext %s)" % self.tup(names))
        finally:
            self.loops.pop()
        done = "_" if not names else self.tup(names)
        return ("(match %s with\n | Done %s => %s\n | Returned ret_ => LReturn ret_\n | Panicked => LPanic end)"
                % (head(binder, self.lam_pat(names), b, self.tup(names)), done, k(env)))

    def function(self, blk, env):
        def end(env2):
            if blk[2] is None:
                raise Untranslatable("control reaches the end of the function without a value")

            def ret(t, v):
                self.want(t, self.ret, "value of the function")
                return "(LReturn %s)" % v
            return self.val(blk[2], env2, ret)
        return self.fill_nils(self.stmts(blk[1], env, end))


# ================================================================ the targets
# name -> (parameter types, return type) the obligations of PcQueryGen.v are stated for
TARGETS = [
    # management API, blanket impl
    ("get_named_policy", [TEXT], RULES), ("get_all_policy", [], RULES),
    ("get_filtered_named_policy", [TEXT, NAT, RULE], RULES), ("has_named_policy", [TEXT, RULE], BOOL),
    ("get_named_grouping_policy", [TEXT], RULES), ("get_all_grouping_policy", [], RULES),
    ("get_filtered_named_grouping_policy", [TEXT, NAT, RULE], RULES), ("has_grouping_named_policy", [TEXT, RULE], BOOL),
    ("get_all_named_subjects", [TEXT], RULE), ("get_all_named_objects", [TEXT], RULE),
    ("get_all_named_actions", [TEXT], RULE), ("get_all_named_roles", [TEXT], RULE),
    # management API, default methods
    ("get_policy", [], RULES), ("get_filtered_policy", [NAT, RULE], RULES), ("has_policy", [RULE], BOOL),
    ("get_grouping_policy", [], RULES), ("get_filtered_grouping_policy", [NAT, RULE], RULES),
    ("has_grouping_policy", [RULE], BOOL),
    ("get_all_subjects", [], RULE), ("get_all_objects", [], RULE), ("get_all_actions", [], RULE), ("get_all_roles", [], RULE),
    # RBAC API
    ("get_roles_for_user", [TEXT, OPTT], RULE), ("get_users_for_role", [TEXT, OPTT], RULE),
    ("has_role_for_user", [TEXT, TEXT, OPTT], BOOL), ("get_permissions_for_user", [TEXT, OPTT], RULES),
    ("has_permission_for_user", [TEXT, RULE], BOOL), ("get_implicit_roles_for_user", [TEXT, OPTT], RULE),
    ("get_implicit_permissions_for_user", [TEXT, OPTT], RULES), ("get_implicit_users_for_permission", [RULE], RULE),
]
TARGET_SIG = dict((n, (p, r)) for n, p, r in TARGETS)
# the implicit parameters of the pristine translation (used for the stub of a function that failed, so that the
# obligations still typecheck up to gen_query_translated_ok)
STUB_EXTRAS = {
    "get_roles_for_user": ("ord",), "get_users_for_role": ("ord",), "has_role_for_user": ("ord",),
    "get_implicit_roles_for_user": ("ord", "fuel"), "get_implicit_permissions_for_user": ("ord", "fuel"),
    "get_implicit_users_for_permission": ("ptab", "ord"),
}


def parse_sig(params_txt, ret_txt):
    params = []
    for p in split_top(params_txt):
        if re.match(r"&\s*(?:'\w+\s+)?self$", p):
            continue
        if re.match(r"(&\s*(?:'\w+\s+)?mut\s+|mut\s+)?self$", p):
            raise Untranslatable("receiver %s (a read-only method takes &self)" % p)
        m = re.match(r"(mut\s+)?(\w+)\s*:\s*(.+)$", p, re.S)
        if not m:
            raise Untranslatable("parameter %r" % p)
        params.append((m.group(2), rust_type(m.group(3)), bool(m.group(1))))
    m = re.match(r"\s*->\s*(.*)$", ret_txt.strip(), re.S)
    if not m:
        raise Untranslatable("no return type")
    return params, rust_type(m.group(1))


class Translator:
    def __init__(self, reader):
        self.layers = []
        self.problems = []
        rb = pins.strip_rust_comments(reader(RBAC) or "")
        mg = pins.strip_rust_comments(reader(MGMT) or "")
        for label, src, hdr in (
                (RBAC + ": impl RbacApi for T", rb, r"\bimpl\s*<[^>]*>\s*RbacApi\s+for\s+\w+"),
                (RBAC + ": trait RbacApi (default method)", rb, r"\btrait\s+RbacApi\b"),
                (MGMT + ": impl MgmtApi for T", mg, r"\bimpl\s*<[^>]*>\s*MgmtApi\s+for\s+\w+"),
                (MGMT + ": trait MgmtApi (default method)", mg, r"\btrait\s+MgmtApi\b")):
            blk = block_after(src, hdr)
            if blk is None:
                self.problems.append("block not found: " + label)
            else:
                self.layers.append((label, blk))
        self.done = {}
        self.defs = []
        self.stack = []

    def locate(self, name):
        for label, blk in self.layers:
            f = find_fn(blk, name)
            if f is not None and f[2] is not None:
                return label, f
        return None

    def func(self, name):
        if name in self.stack:
            raise Untranslatable("recursive call of " + name)
        if name not in self.done:
            self.translate(name)
        r = self.done[name]
        if isinstance(r, Untranslatable):
            raise Untranslatable("callee %s is untranslatable" % name)
        return r

    def translate(self, name):
        self.stack.append(name)
        label = "?"
        try:
            loc = self.locate(name)
            if loc is None:
                raise Untranslatable("no method %s with a body in RbacApi / MgmtApi, and not get_model / "
                                     "get_role_manager / enforce" % name)
            label, (ptxt, rtxt, body) = loc
            params, ret = parse_sig(ptxt, rtxt)
            if name in TARGET_SIG:
                want_p, want_r = TARGET_SIG[name]
                if [resolve(t) for _, t, _ in params] != want_p or resolve(ret) != want_r:
                    raise Untranslatable("signature (%s) -> %s differs from the one the obligations are stated for"
                                         % (", ".join(ty_name(t) for _, t, _ in params), ty_name(ret)))
            p = QP(lex(body.strip()[1:-1]))
            blk = p.seq()
            if p.peek()[0] != "eof":
                raise Untranslatable("trailing tokens")
            em = Em(self, ret)
            env = {}
            binders = []
            for x, t, is_mut in params:
                env, g = em.declare(env, x, t, is_mut)
                binders.append("(%s : %s)" % (g, coq_ty(t)))
            term = em.function(blk, env)
            fn = Func(name, [(x, t) for x, t, _ in params], ret, label)
            fn.uses = set(em.uses)
            extras = "".join(" " + b for x, b in EXTRA_ORDER if x in fn.uses)
            self.defs.append("(* %s :: %s *)\nDefinition genq_%s%s (s : estate)%s : option %s :=\n rs_fn %s.\n"
                             % (label, name, name, extras, "".join(" " + b for b in binders), coq_ty(ret), term))
            self.done[name] = fn
        except (Untranslatable, Impure) as ex:
            ex = ex if isinstance(ex, Untranslatable) else Untranslatable("not total: %s" % ex)
            self.done[name] = ex
            why = str(ex).replace("*)", "* )").replace("(*", "( *")
            self.problems.append("%s: %s" % (name, why))
            self.defs.append("(* translation of %s (%s) failed: %s *)" % (name, label, why))
            if name in TARGET_SIG:
                ptys, ret = TARGET_SIG[name]
                extras = "".join(" " + b for x, b in EXTRA_ORDER if x in STUB_EXTRAS.get(name, ()))
                self.defs.append("Definition genq_%s%s (s : estate)%s : option %s := None.\n"
                                 % (name, extras, "".join(" (_ : %s)" % coq_ty(t) for t in ptys), coq_ty(ret)))
        finally:
            self.stack.pop()


HEADER = ["(* GENERATED on every run by tools/rs2coq_query.py from /repo/src/rbac_api.rs and",
          "   /repo/src/management_api.rs (the read-only query helpers) - do not edit.  Vocabulary: Gen/QueryRt.v,",
          "   Gen/RustVec.v, Gen/RustIter.v; obligations: PinChecks/PcQueryGen.v.  None = panic / out of fuel. *)",
          "From CV Require Import Model.Base Model.RoleGraph Model.Expr Model.Enforce Model.Engine.",
          "From CV Require Import Gen.RustStr Gen.RustVec Gen.RustIter Gen.QueryRt.", ""]


def generate(repo_reader=None):
    """-> (text of coq/Gen/QueryGen.v, everything translated?)"""
    reader = repo_reader or pins.read
    out = list(HEADER)
    try:
        tr = Translator(reader)
        for name, _, _ in TARGETS:
            if name not in tr.done:
                tr.translate(name)
        out.extend("(* %s *)" % p for p in tr.problems if p.startswith("block not found"))
        out.extend(tr.defs)
        problems = tr.problems
    except Exception as ex:   # noqa  (a bug of the translator must not look like a success)
        problems = ["internal error: %r" % (ex,)]
        out = list(HEADER)
        out.append("(* translation failed: %s *)" % repr(ex).replace("*)", "* )").replace("(*", "( *"))
        for name, ptys, ret in TARGETS:
            extras = "".join(" " + b for x, b in EXTRA_ORDER if x in STUB_EXTRAS.get(name, ()))
            out.append("Definition genq_%s%s (s : estate)%s : option %s := None."
                       % (name, extras, "".join(" (_ : %s)" % coq_ty(t) for t in ptys), coq_ty(ret)))
    ok = not problems
    out.append("Definition gen_query_translated : bool := %s." % ("true" if ok else "false"))
    return "\n".join(out) + "\n", ok


def write_if_changed(dst, txt, ok):
    os.makedirs(os.path.dirname(dst), exist_ok=True)
    old = None
    try:
        old = open(dst, encoding="utf-8").read()
    except OSError:
        pass
    if old != txt:
        open(dst, "w", encoding="utf-8").write(txt)
        print("rs2coq: rewritten", dst, "(translated)" if ok else "(UNTRANSLATABLE)")
    else:
        print("rs2coq: unchanged", dst)


def main(dst_dir=None):
    dst_dir = dst_dir or (sys.argv[1] if len(sys.argv) > 1 else "/verif/coq/Gen")
    txt, ok = generate()
    write_if_changed(os.path.join(dst_dir, "QueryGen.v"), txt, ok)
    return 0


if __name__ == "__main__":
    sys.exit(main())
