#!/usr/bin/env python3
"""Robustness / sensitivity demonstration for the string-function part (part 2) and the
policy-store loops (part 3, labels S..) of rs2coq.

For every variant: copy /repo/src to a scratch repo, replace the body of one of
the four functions, run rs2coq on the scratch repo, rebuild
PinChecks/PcStrFnGen.vo and compare the outcome with the expectation
(meaning-preserving rewrite -> proofs pass; change of meaning / outside the
subset -> a proof fails).  The pristine generated files are restored at the end.

Part 3 variants replace the body of one of get_filtered_policy / remove_filtered_policy /
has_policy / get_values_for_field_in_policy in `impl Model for DefaultModel` and rebuild
PinChecks/PcStoreGen.vo.

usage: python3 tools/rs2coq_demo.py [label-prefix ..]   e.g. `rs2coq_demo.py S` for part 3 only
(development tool; rebuilds coq/PinChecks/PcStrFnGen.vo or PcStoreGen.vo per variant and restores the generated files)
"""
import os
import re
import shutil
import subprocess
import sys

HERE = os.path.dirname(os.path.abspath(__file__))
ROOT = os.path.dirname(HERE)
COQ = os.path.join(ROOT, "coq")
import tempfile  # noqa: E402
SCRATCH = tempfile.mkdtemp(prefix="rs2coq_demo_")     # outside /repo and /verif; removed at the end
sys.path.insert(0, HERE)
import pins  # noqa: E402

FILES = {"key_match": "src/model/function_map.rs", "key_get": "src/model/function_map.rs",
         "csv_field": "src/util.rs", "remove_comment": "src/util.rs"}

# (label, expectation, function, new body)
VARIANTS = [
    ("P0 unmodified sources", "pass", None, None),
    ("P1 csv_field: negated condition, branches swapped", "pass", "csv_field", """{
    if !value.contains(',') {
        Cow::Borrowed(value)
    } else {
        Cow::Owned(format!("\\"{}\\"", value))
    }
}"""),
    ("P2 key_match: let-bound prefix, == with swapped operands, negated starts_with", "pass", "key_match", """{
    if let Some(star_at) = key2.find('*') {
        let pre = &key2[..star_at];
        if !key1.starts_with(pre) { false } else { true }
    } else {
        key2 == key1
    }
}"""),
    ("P3 key_get: early returns in both branches of the emptiness test", "pass", "key_get", """{
    if let Some(i) = key2.find('*') {
        if let Some(rest) = key1.strip_prefix(&key2[..i]) {
            if rest.is_empty() {
                return "".to_owned();
            } else {
                return rest.to_owned();
            }
        }
    }
    String::from("")
}"""),
    ("P4 key_get: one expression, NO emptiness test (an empty rest is \"\" anyway)", "pass", "key_get", """{
    if let Some(i) = key2.find('*') {
        if let Some(rest) = key1.strip_prefix(&key2[..i]) {
            rest.to_string()
        } else {
            "".to_string()
        }
    } else {
        "".to_string()
    }
}"""),
    ("P5 remove_comment: early return instead of the shadowing let", "pass", "remove_comment", """{
    if let Some(idx) = s.find('#') {
        return s[..idx].trim_end().to_string();
    }
    s.trim_end().to_owned()
}"""),
    ("P6 key_match: early return, != in the tail", "pass", "key_match", """{
    if let Some(i) = key2.find('*') {
        return key1.starts_with(&key2[..i]);
    }
    !(key1 != key2)
}"""),
    ("P7 key_match: extra (redundant) fast path, else-if chain", "pass", "key_match", """{
    // both empty: no star, equal
    if key1.is_empty() && key2.is_empty() {
        true
    } else if let Some(i) = key2.find('*') {
        key1.starts_with(&key2[..i])
    } else {
        key1 == key2
    }
}"""),
    ("N1 key_match: looks for '/' instead of '*'", "fail", "key_match", """{
    if let Some(i) = key2.find('/') {
        key1.starts_with(&key2[..i])
    } else {
        key1 == key2
    }
}"""),
    ("N2 key_match: prefix test also without a star", "fail", "key_match", """{
    if let Some(i) = key2.find('*') {
        key1.starts_with(&key2[..i])
    } else {
        key1.starts_with(key2)
    }
}"""),
    ("N3 key_get: emptiness test inverted", "fail", "key_get", """{
    if let Some(i) = key2.find('*') {
        if let Some(rest) = key1.strip_prefix(&key2[..i]) {
            if rest.is_empty() {
                return rest.to_string();
            }
        }
    }
    "".to_string()
}"""),
    ("N4 key_get: returns key1 instead of the rest", "fail", "key_get", """{
    if let Some(i) = key2.find('*') {
        if let Some(rest) = key1.strip_prefix(&key2[..i]) {
            if !rest.is_empty() {
                return key1.to_string();
            }
        }
    }
    "".to_string()
}"""),
    ("N5 key_get: star searched in key1, key2 sliced with it (may panic; rejected by the translator)", "fail", "key_get", """{
    if let Some(i) = key1.find('*') {
        if let Some(rest) = key1.strip_prefix(&key2[..i]) {
            if !rest.is_empty() {
                return rest.to_string();
            }
        }
    }
    "".to_string()
}"""),
    ("N6 csv_field: quotes on ';' instead of ','", "fail", "csv_field", """{
    if value.contains(';') {
        Cow::Owned(format!("\\"{}\\"", value))
    } else {
        Cow::Borrowed(value)
    }
}"""),
    ("N7 csv_field: single quotes", "fail", "csv_field", """{
    if value.contains(',') {
        Cow::Owned(format!("'{}'", value))
    } else {
        Cow::Borrowed(value)
    }
}"""),
    ("N8 remove_comment: no trim_end", "fail", "remove_comment", """{
    let s = if let Some(idx) = s.find('#') {
        &s[..idx]
    } else {
        s
    };

    s.to_owned()
}"""),
    ("N9 remove_comment: trims only when there is a comment", "fail", "remove_comment", """{
    if let Some(idx) = s.find('#') {
        return s[..idx].trim_end().to_string();
    }
    s.to_owned()
}"""),
    ("N10 key_match: outside the subset (len / index arithmetic)", "fail", "key_match", """{
    if let Some(i) = key2.find('*') {
        key1.len() >= i && key1[..i] == key2[..i]
    } else {
        key1 == key2
    }
}"""),
]

STORE_FILE = "src/model/default_model.rs"
STORE_FNS = ("get_filtered_policy", "remove_filtered_policy", "has_policy", "get_values_for_field_in_policy")

GF_HEAD = """{
        let mut res = vec![];
        if let Some(t1) = self.model.get(sec) {
            if let Some(t2) = t1.get(ptype) {
                for rule in t2.policy.iter() {
"""
GF_TAIL = """
                }
            }
        }
        res
    }"""


def gf(inner):
    """get_filtered_policy with the given text as the body of the loop over the rules"""
    return GF_HEAD + inner + GF_TAIL


RF_HEAD = """{
        if field_values.is_empty() {
            return (false, vec![]);
        }

        let mut res = false;
        let mut rules_removed: Vec<Vec<String>> = vec![];
        if let Some(ast_map) = self.model.get_mut(sec) {
            if let Some(ast) = ast_map.get_mut(ptype) {
"""
RF_SELECT = """                for rule in ast.policy.iter() {
                    let mut matched = true;
                    for (i, field_value) in field_values.iter().enumerate() {
                        if !field_value.is_empty()
                            && &rule[field_index + i] != field_value
                        {
                            matched = false;
                            break;
                        }
                    }
                    if matched {
                        res = true;
                        rules_removed.push(rule.clone());
                    }
                }
"""
RF_REMOVE = """                if res && !rules_removed.is_empty() {
                    for rule in rules_removed.iter() {
                        ast.policy.remove(rule);
                    }
                }
"""
RF_TAIL = """            }
        }
        (res, rules_removed)
    }"""

# (label, expectation, function, new body)
STORE_VARIANTS = [
    ("SP0 unmodified sources", "pass", None, None),
    ("SP1 get_filtered: `if v.is_empty() {} else if ..` instead of `!v.is_empty() && ..`", "pass", "get_filtered_policy", gf("""
                    let mut matched = true;
                    for (i, field_value) in field_values.iter().enumerate() {
                        if field_value.is_empty() {
                            // wildcard: nothing to compare
                        } else if &rule[field_index + i] != field_value {
                            matched = false;
                            break;
                        }
                    }
                    if matched {
                        res.push(rule.iter().map(String::from).collect());
                    }""")),
    ("SP2 get_filtered: De Morgan `!(v.is_empty() || rule[..] == v)`, == with swapped operands, to_vec", "pass", "get_filtered_policy", gf("""
                    let mut matched = true;
                    for (i, field_value) in field_values.iter().enumerate() {
                        if !(field_value.is_empty() || field_value == &rule[field_index + i]) {
                            matched = false;
                            break;
                        }
                    }
                    if matched {
                        res.push(rule.to_vec());
                    }""")),
    ("SP3 get_filtered: flag of the opposite polarity (`differs`), nested ifs, renamed locals", "pass", "get_filtered_policy", gf("""
                    let mut differs = false;
                    for (k, wanted) in field_values.iter().enumerate() {
                        if !wanted.is_empty() {
                            if wanted != &rule[field_index + k] {
                                differs = true;
                                break;
                            }
                        }
                    }
                    if !differs {
                        res.push(rule.clone());
                    }""")),
    ("SP4 has_policy: flag + break instead of the early return", "pass", "has_policy", """{
        let policy = self.get_policy(sec, ptype);
        let mut found = false;
        for r in policy.iter() {
            if &rule == r {
                found = true;
                break;
            }
        }
        found
    }"""),
    ("SP5 has_policy: loops over the stored list directly, negated test with else", "pass", "has_policy", """{
        if let Some(t1) = self.model.get(sec) {
            if let Some(t2) = t1.get(ptype) {
                for r in t2.policy.iter() {
                    if r != &rule {
                    } else {
                        return true;
                    }
                }
            }
        }
        false
    }"""),
    ("SP6 remove_filtered: opposite polarity, push before the flag, removal guarded by the flag only", "pass", "remove_filtered_policy",
     RF_HEAD + """                for rule in ast.policy.iter() {
                    let mut skip = false;
                    for (i, field_value) in field_values.iter().enumerate() {
                        if field_value.is_empty() {
                        } else if &rule[field_index + i] != field_value {
                            skip = true;
                            break;
                        }
                    }
                    if !skip {
                        rules_removed.push(rule.clone());
                        res = true;
                    }
                }
                if res {
                    for rule in rules_removed.iter() {
                        ast.policy.remove(rule);
                    }
                }
""" + RF_TAIL),
    ("SP7 remove_filtered: unconditional removal loop (it is empty when nothing matched)", "pass", "remove_filtered_policy",
     RF_HEAD + RF_SELECT + """                for rule in &rules_removed {
                    ast.policy.remove(rule);
                }
""" + RF_TAIL),
    ("SP8 values_for_field: a for loop over a mutable set instead of fold + closure", "pass", "get_values_for_field_in_policy", """{
        let mut seen = LinkedHashSet::new();
        for x in self.get_policy(sec, ptype) {
            seen.insert(x[field_index].clone());
        }
        seen.into_iter().collect()
    }"""),
    ("SN1 get_filtered: the inner loop BREAKS at an empty filter value instead of skipping it", "fail", "get_filtered_policy", gf("""
                    let mut matched = true;
                    for (i, field_value) in field_values.iter().enumerate() {
                        if field_value.is_empty() {
                            break;
                        }
                        if &rule[field_index + i] != field_value {
                            matched = false;
                            break;
                        }
                    }
                    if matched {
                        res.push(rule.iter().map(String::from).collect());
                    }""")),
    ("SN2 get_filtered: compares rule[i] instead of rule[field_index + i]", "fail", "get_filtered_policy", gf("""
                    let mut matched = true;
                    for (i, field_value) in field_values.iter().enumerate() {
                        if !field_value.is_empty()
                            && &rule[i] != field_value
                        {
                            matched = false;
                            break;
                        }
                    }
                    if matched {
                        res.push(rule.iter().map(String::from).collect());
                    }""")),
    ("SN3 get_filtered: the loop over the rules breaks after the first match", "fail", "get_filtered_policy", gf("""
                    let mut matched = true;
                    for (i, field_value) in field_values.iter().enumerate() {
                        if !field_value.is_empty()
                            && &rule[field_index + i] != field_value
                        {
                            matched = false;
                            break;
                        }
                    }
                    if matched {
                        res.push(rule.iter().map(String::from).collect());
                        break;
                    }""")),
    ("SN4 get_filtered: swapped && operands (the index is now evaluated for an empty value: panics on a short rule)", "fail", "get_filtered_policy", gf("""
                    let mut matched = true;
                    for (i, field_value) in field_values.iter().enumerate() {
                        if &rule[field_index + i] != field_value
                            && !field_value.is_empty()
                        {
                            matched = false;
                            break;
                        }
                    }
                    if matched {
                        res.push(rule.iter().map(String::from).collect());
                    }""")),
    ("SN5 get_filtered: no break after a mismatch (later indices are evaluated: panics on a short rule)", "fail", "get_filtered_policy", gf("""
                    let mut matched = true;
                    for (i, field_value) in field_values.iter().enumerate() {
                        if !field_value.is_empty()
                            && &rule[field_index + i] != field_value
                        {
                            matched = false;
                        }
                    }
                    if matched {
                        res.push(rule.iter().map(String::from).collect());
                    }""")),
    ("SN6 has_policy: inverted comparison", "fail", "has_policy", """{
        let policy = self.get_policy(sec, ptype);
        for r in policy {
            if r != rule {
                return true;
            }
        }
        false
    }"""),
    ("SN7 remove_filtered: no early return on an empty filter (it would match, and remove, every rule)", "fail", "remove_filtered_policy",
     """{
        let mut res = false;
        let mut rules_removed: Vec<Vec<String>> = vec![];
        if let Some(ast_map) = self.model.get_mut(sec) {
            if let Some(ast) = ast_map.get_mut(ptype) {
""" + RF_SELECT + RF_REMOVE + RF_TAIL),
    ("SN8 remove_filtered: the selected rules are reported but never removed", "fail", "remove_filtered_policy",
     RF_HEAD + RF_SELECT + RF_TAIL),
    ("SN9 remove_filtered: the flag is set for every examined rule, matched or not", "fail", "remove_filtered_policy",
     RF_HEAD + RF_SELECT.replace("""                    if matched {
                        res = true;
""", """                    res = true;
                    if matched {
""") + RF_REMOVE + RF_TAIL),
    ("SN10 values_for_field: plain vector, no de-duplication", "fail", "get_values_for_field_in_policy", """{
        let mut seen = vec![];
        for x in self.get_policy(sec, ptype) {
            seen.push(x[field_index].clone());
        }
        seen
    }"""),
    ("SN11 values_for_field: reads column field_index + 1", "fail", "get_values_for_field_in_policy", """{
        self.get_policy(sec, ptype)
            .into_iter()
            .fold(LinkedHashSet::new(), |mut acc, x| {
                acc.insert(x[field_index + 1].clone());
                acc
            })
            .into_iter()
            .collect()
    }"""),
    ("SN12 has_policy: outside the subset (iterator adaptor; rejected by the translator)", "fail", "has_policy", """{
        self.get_policy(sec, ptype).iter().any(|r| r == &rule)
    }"""),
]


def run(cmd, **kw):
    return subprocess.run(cmd, stdout=subprocess.PIPE, stderr=subprocess.STDOUT, text=True, **kw)

# ---- for a failing part-3 variant that WAS translated: a concrete input on which the translated
# function and the model differ (evaluated by vm_compute on a few fixed inputs), so that a failed
# proof is seen to be a change of meaning and not a weakness of the tactic
WITNESS_V = r"""
From CV Require Import Model.Base Model.Enforce Model.Engine Gen.RustStr Gen.RustVec Gen.StoreGen Proofs.RustVecP.
Definition P : list rule := [[T "alice"; T "data1"; T "read"]; [T "bob"; T "data2"; T "write"]; [T "alice"; T "data2"; T "write"]].
Definition lreqb := list_eqb reqb.
Definition oeqb {A} (e : A -> A -> bool) (a b : option A) : bool :=
  match a, b with Some x, Some y => e x y | None, None => true | _, _ => false end.
Definition gf_in : list (nat * list text * list rule) :=
  [(0, [T "alice"; T ""; T "write"], P); (1, [T "data2"], P); (1, [T ""], [[T "carol"]]); (0, [T "bob"; T "x"], [[T "carol"]])].
Definition rf_in : list (nat * list text * list rule) :=
  [(1, [T "data2"], P); (1, [T "zzz"], P); (1, [], P); (0, [T "alice"; T ""; T "write"], P)].
Definition hp_in : list (list text * list rule) := [([T "bob"; T "data2"; T "write"], P); ([T "zed"], P); ([T "zed"], [])].
Definition vf_in : list (nat * list rule) := [(0, P); (1, P); (3, P)].
Eval vm_compute in (map (fun x => let '(i, v, p) := x in oeqb lreqb (gen_get_filtered i v p) (select_filtered i v p)) gf_in).
Eval vm_compute in (map (fun x => let '(i, v, p) := x in
   oeqb (fun a b => lreqb (fst a) (fst b) && Bool.eqb (fst (snd a)) (fst (snd b)) && lreqb (snd (snd a)) (snd (snd b)))
        (gen_remove_filtered i v p) (remove_filtered_spec i v p)) rf_in).
Eval vm_compute in (map (fun x => let '(r, p) := x in oeqb Bool.eqb (gen_has_policy r p) (Some (rmem r p))) hp_in).
Eval vm_compute in (map (fun x => let '(i, p) := x in
   oeqb reqb (gen_values_for_field i p) (match column i p with Some c => Some (distinct_last c) | None => None end)) vf_in).
"""
WITNESS_IN = [
    ("get_filtered_policy", ["(0, [alice, \"\", write], P)", "(1, [data2], P)", "(1, [\"\"], [[carol]])", "(0, [bob, x], [[carol]])"]),
    ("remove_filtered_policy", ["(1, [data2], P)", "(1, [zzz], P)", "(1, [], P)", "(0, [alice, \"\", write], P)"]),
    ("has_policy", ["([bob, data2, write], P)", "([zed], P)", "([zed], [])"]),
    ("get_values_for_field_in_policy", ["(0, P)", "(1, P)", "(3, P)"]),
]


def witness():
    path = os.path.join(SCRATCH, "Witness.v")
    open(path, "w").write(WITNESS_V)
    r = run(["timeout", "300", "coqc", "-Q", ".", "CV", path], cwd=COQ)
    rows = re.findall(r"=\s*\[([^\]]*)\]\s*:\s*list bool", r.stdout)
    if r.returncode != 0 or len(rows) != len(WITNESS_IN):
        return ""
    out = []
    for (fn, descr), row in zip(WITNESS_IN, rows):
        vals = [x.strip() for x in row.split(";")]
        bad = [d for d, v in zip(descr, vals) if v == "false"]
        if bad:
            out.append("%s differs from the model on %s" % (fn, bad[0]))
    return "; ".join(out) if out else "no difference on the fixed inputs"



def replace_body(fn, body):
    """replace the body of fn in the scratch copy"""
    if fn in STORE_FNS:
        path = os.path.join(SCRATCH, STORE_FILE)
        src = open(path, encoding="utf-8").read()
        start = re.search(r"impl\s+Model\s+for\s+DefaultModel", src).start()
        old = pins.fn_body(src, r"fn\s+%s\s*\(" % fn, start)
    else:
        path = os.path.join(SCRATCH, FILES[fn])
        src = open(path, encoding="utf-8").read()
        old = pins.fn_body(src, r"pub\s+fn\s+%s\s*\(" % fn)
    assert old is not None and src.count(old) == 1, fn
    open(path, "w", encoding="utf-8").write(src.replace(old, body))


def main():
    only = sys.argv[1:]
    results = []
    for part, variants in (("PcStrFnGen", VARIANTS), ("PcStoreGen", STORE_VARIANTS)):
        gen_file = "StrFnGen.v" if part == "PcStrFnGen" else "StoreGen.v"
        for label, expect, fn, body in variants:
            if only and not any(label.startswith(o) for o in only):
                continue
            shutil.rmtree(SCRATCH, ignore_errors=True)
            shutil.copytree("/repo/src", os.path.join(SCRATCH, "src"))
            if fn is not None:
                replace_body(fn, body)
            env = dict(os.environ, VERIF_REPO=SCRATCH)
            run([sys.executable, os.path.join(HERE, "rs2coq.py"), os.path.join(COQ, "Gen", "EffectorGen.v")], env=env)
            mk = run(["timeout", "600", "make", "PinChecks/%s.vo" % part], cwd=COQ)
            ok = mk.returncode == 0
            why = ""
            if not ok:
                m = re.search(r'File "\./PinChecks/%s\.v", line (\d+).*?\n(Error:.*?)(?:\n\n|\nmake)' % part, mk.stdout, re.S)
                if m:
                    thm = ""
                    lines = open(os.path.join(COQ, "PinChecks", part + ".v")).read().split("\n")
                    for k in range(int(m.group(1)) - 1, -1, -1):
                        mm = re.match(r"(?:Theorem|Lemma|Example)\s+(\w+)", lines[k])
                        if mm:
                            thm = mm.group(1)
                            break
                    why = "%s: %s" % (thm, " ".join(m.group(2).split())[:90])
                else:
                    why = mk.stdout.strip().split("\n")[-3:]
            gen = open(os.path.join(COQ, "Gen", gen_file)).read()
            note = ""
            fm = re.search(r"\(\* translation of (\w+) failed: (.*?) \*\)", gen, re.S)
            if fm:
                note = " [untranslatable %s: %s]" % (fm.group(1), fm.group(2))
            if part == "PcStoreGen" and not ok and not fm:
                note += " [witness: %s]" % witness()
            verdict = "pass" if ok else "fail"
            flag = "as expected" if verdict == expect else "UNEXPECTED"
            print("%-4s (%s) %s%s%s" % (verdict.upper(), flag, label, (" -> " + str(why)) if why else "", note))
            sys.stdout.flush()
            results.append(verdict == expect)
    # restore the pristine generated files
    env = dict(os.environ, VERIF_REPO="/repo")
    run([sys.executable, os.path.join(HERE, "rs2coq.py"), os.path.join(COQ, "Gen", "EffectorGen.v")], env=env)
    mk = run(["timeout", "600", "make", "PinChecks/PcStrFnGen.vo", "PinChecks/PcEffectorGen.vo", "PinChecks/PcStoreGen.vo"], cwd=COQ)
    print("restored from /repo:", "build ok" if mk.returncode == 0 else "BUILD FAILED")
    shutil.rmtree(SCRATCH, ignore_errors=True)
    print("%d/%d variants behaved as expected" % (sum(results), len(results)))
    return 0 if all(results) and mk.returncode == 0 else 1


if __name__ == "__main__":
    sys.exit(main())
