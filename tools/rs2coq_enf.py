#!/usr/bin/env python3
"""rs2coq, part 7: the sequencing methods of `impl CoreApi for Enforcer`
(src/enforcer.rs) -> coq/Gen/EnforcerGen.v, programs over the primitives of
Model/Engine.v, Gen/InternalPrims.v (flow) and Gen/EnforcerPrims.v (one
definition per Rust operation that has no primitive of its own).
coq/PinChecks/PcEnforcerGen.v proves each generated program equal to the model's
hand-written step, for all states and arguments.

Targets (features incremental, watcher, cached ON; logging, explain OFF):
  is_filtered, build_role_links, load_policy, load_filtered_policy, save_policy,
  clear_policy, set_role_manager, set_model, set_adapter, enable_enforce,
  enable_auto_save, enable_auto_build_role_links, enable_auto_notify_watcher,
  add_function, set_effector.

What is READ from the text (nothing of it is assumed):
  * the order of the statements, which calls are followed by `?`, `.await`;
  * `let backup = self.model.get_model().clone()` (WHERE the backup is taken),
    `*self.model.get_mut_model() = backup` (what an error path restores) and the
    `return Err(e)` after it;
  * the guards `if self.auto_save`, `if self.auto_build_role_links`,
    `if !b { off } else if !self.auto_notify_watcher { on }`, `assert!(..)`;
  * the event constructors, their payload (a local built with `extend`) and the
    position of `emit`;
  * the assignments to the fields of the enforcer;
  * the cfg attributes (on blocks and on single statements), resolved for FEATURES;
  * the one-line accessors of the same impl (get_mut_adapter, has_auto_save_enabled ..)
    are parsed too and only then accepted as synonyms of the field they return.

Subset (everything else is Untranslatable and gives gen_enforcer_translated := false):
  block = (stmts, final expression | None)
  stmt  = ("let", ("v", x, mut) | ("wild",), e) | ("assign", lhs, e) | ("ret", e) | ("expr", e) | ("block", block)
        | ("if", e, block, block | None) | ("iflet", "Err" | "Ok", x, e, block, block | None)
        | ("assert", e) | ("panic",)
  e     = part 4's expressions + ("field", e, name) | ("deref", e)
  values: bool text rules model errc unit result event evkind:K callback rmref modelref
          modeldef adapter rmarg filter ufun effector conv:T
          lres / lerr / outcome = the Result of an adapter call / of a model-level
          call / of a translated sibling, bound to a Gallina variable AFTER its
          effect on the state; consumed by `?`, `if let Err(e) = ..`, `let _ = ..`,
          `return ..` or as the value of the function.
Emission is continuation-passing as in part 4: the Gallina variable `s` is always
the current enforcer state; joins go through InternalPrims.flow.
"""
import os
import re
import sys

HERE = os.path.dirname(os.path.abspath(__file__))
sys.path.insert(0, HERE)
import pins  # noqa: E402
import rs2coq as R  # noqa: E402

Untranslatable = R.Untranslatable
FEATURES = R.FEATURES
EFILE = "src/enforcer.rs"

ETOK = re.compile(r"""\s*(?:(//[^\n]*)|(/\*.*?\*/)|("(?:[^"\\]|\\.)*")|(\d+)"""
                  r"""|([A-Za-z_]\w*(?:::[A-Za-z_]\w*)*!?)|(\|\||&&|==|!=|[#{}()\[\];=!&.,<>?|*:])|(\S))""", re.S)


def elex(src):
    out = []
    i = 0
    while i < len(src):
        if src[i:].strip() == "":
            break
        m = ETOK.match(src, i)
        if not m:
            raise Untranslatable("cannot tokenise at: %r" % src[i:i + 30])
        i = m.end()
        if m.group(1) or m.group(2):
            continue
        if m.group(7) is not None:
            raise Untranslatable("unexpected character %r" % m.group(7))
        for k, kind in ((3, "str"), (4, "int"), (5, "id"), (6, "op")):
            if m.group(k) is not None:
                out.append((kind, m.group(k)))
                break
    return out


# ---------------------------------------------------------------- parser
class EP(R.IP):
    """part 4's parser + fields, `&mut`, `*e`, assignments, `let mut`, `let _`,
       `if let Err(x) = e`, assert!/panic!, a cfg attribute on a single statement"""

    def unary(self):
        if self.peek() == ("op", "!"):
            self.eat()
            return ("not", self.unary())
        if self.peek() == ("op", "&"):
            self.eat()
            if self.peek() == ("id", "mut"):
                self.eat()
            return self.unary()
        if self.peek() == ("op", "*"):
            self.eat()
            return ("deref", self.unary())
        return self.postfix()

    def postfix(self):
        e = self.primary()
        while True:
            if self.peek() == ("op", "."):
                self.eat()
                kind, name = self.eat()
                if kind != "id" or "::" in name or name.endswith("!"):
                    raise Untranslatable("method or field name " + name)
                if name == "await":
                    e = ("await", e)
                elif self.peek() == ("op", "("):
                    self.eat()
                    e = ("mcall", e, name, self.args())
                else:
                    e = ("field", e, name)
            elif self.peek() == ("op", "?"):
                self.eat()
                e = ("try", e)
            else:
                return e

    def ident(self, what):
        kind, x = self.eat()
        if kind != "id" or "::" in x or x.endswith("!") or x in R.I_KEYWORDS:
            raise Untranslatable("%s %s" % (what, x))
        return x

    def if_(self):
        self.eat("if")
        if self.peek() == ("id", "let"):
            self.eat()
            ctor = self.eat()
            if ctor not in (("id", "Err"), ("id", "Ok")):
                raise Untranslatable("if let %s" % ctor[1])
            self.eat("(")
            x = self.ident("if-let pattern")
            self.eat(")")
            self.eat("=")
            e = self.expr()
            th = self.block()
            return ("iflet", ctor[1], x, e, th, self.else_())
        c = self.expr()
        th = self.block()
        return ("if", c, th, self.else_())

    def else_(self):
        if self.peek() != ("id", "else"):
            return None
        self.eat()
        if self.peek() == ("id", "if"):
            return ([self.if_()], None)
        return self.block()

    def stmt(self):
        """one statement -> (node, is the value of the block)"""
        kind, v = self.peek()
        if (kind, v) == ("op", "{"):
            return ("block", self.block()), False
        if (kind, v) == ("id", "let"):
            self.eat()
            mut = False
            if self.peek() == ("id", "mut"):
                self.eat()
                mut = True
            if self.peek() == ("op", "("):
                raise Untranslatable("tuple pattern in let")
            x = self.ident("let pattern")
            pat = ("wild",) if x == "_" else ("v", x, mut)
            if self.peek() == ("op", ":"):
                raise Untranslatable("type annotation in let")
            self.eat("=")
            e = self.expr()
            self.eat(";")
            return ("let", pat, e), False
        if (kind, v) == ("id", "return"):
            self.eat()
            if self.peek() == ("op", ";"):
                raise Untranslatable("return without a value")
            e = self.expr()
            if self.peek() == ("op", ";"):
                self.eat()
            return ("ret", e), False
        if (kind, v) == ("id", "if"):
            st = self.if_()
            if self.peek() == ("op", ";"):
                self.eat()
            return st, False
        if (kind, v) == ("id", "assert!"):
            self.eat()
            self.eat("(")
            c = self.expr()
            if self.peek() == ("op", ","):
                self.eat()
                self.args()          # the message
            else:
                self.eat(")")
            self.eat(";")
            return ("assert", c), False
        if (kind, v) == ("id", "panic!"):
            self.eat()
            self.eat("(")
            self.args()
            if self.peek() == ("op", ";"):
                self.eat()
            return ("panic",), False
        e = self.expr()
        if self.peek() == ("op", "="):
            self.eat()
            rhs = self.expr()
            self.eat(";")
            return ("assign", e, rhs), False
        if self.peek() == ("op", ";"):
            self.eat()
            return ("expr", e), False
        return e, True

    def seq(self):
        stmts, final = [], None
        while self.peek() != ("op", "}") and self.peek()[0] != "eof":
            if final is not None:
                raise Untranslatable("statement after the value of a block")
            keep = True
            while self.peek() == ("op", "#"):
                keep = self.cfg() and keep
            st, is_final = self.stmt()
            if not keep:
                continue
            if is_final:
                final = st
            else:
                stmts.append(st)
        if final is None and stmts and stmts[-1][0] == "block" and stmts[-1][1][1] is not None:
            final = ("blockv", stmts[-1][1])
            stmts = stmts[:-1]
        return (stmts, final)


def parse_body(body):
    p = EP(elex(body.strip()[1:-1]), FEATURES)
    blk = p.seq()
    if p.peek()[0] != "eof":
        raise Untranslatable("trailing tokens")
    return blk


# ---------------------------------------------------------------- analysis
SELF = ("var", "self")
FLAG_FIELDS = {"enabled": "e_enabled", "auto_save": "e_auto_save",
               "auto_build_role_links": "e_auto_build", "auto_notify_watcher": "e_auto_notify"}
FLAG_ORDER = ("enabled", "auto_save", "auto_build_role_links", "auto_notify_watcher")
# one-line accessors of the impl; accepted as the field they return once their body has been read
ACCESSOR_NAMES = ("get_model", "get_mut_model", "get_adapter", "get_mut_adapter", "has_auto_save_enabled",
                  "has_auto_notify_watcher_enabled", "has_auto_build_role_links_enabled", "is_enabled")
IDENTITY = ("clone", "to_owned", "to_string", "into")
PURE_METHODS = set(ACCESSOR_NAMES) | set(IDENTITY) | {"is_filtered", "get_all_policy", "get_all_grouping_policy"}


def effectful(e):
    return any(n[0] in ("try", "await", "assign") or (n[0] == "mcall" and n[2] not in PURE_METHODS)
               or (n[0] == "path" and n[1] == "Self::register_function") for n in R.i_nodes(e))


def may_exit(x):
    return any(n[0] in ("ret", "try", "panic", "assert") for n in R.i_nodes(x))


def always_exits(blk):
    stmts, final = blk
    if final is not None or not stmts:
        return False
    st = stmts[-1]
    if st[0] in ("ret", "panic"):
        return True
    if st[0] == "block":
        return always_exits(st[1])
    if st[0] == "if":
        return st[3] is not None and always_exits(st[2]) and always_exits(st[3])
    if st[0] == "iflet":
        return st[5] is not None and always_exits(st[4]) and always_exits(st[5])
    return False


def tailify(blk):
    """the value of the function body becomes an explicit return (also inside a trailing if / block)"""
    if blk is None:
        return None
    stmts, final = blk
    if final is not None:
        if final[0] == "blockv":
            return (stmts + [("block", tailify(final[1]))], None)
        return (stmts + [("ret", final)], None)
    if stmts:
        st = stmts[-1]
        if st[0] == "if" and st[3] is not None and (st[2][1] is not None or st[3][1] is not None):
            return (stmts[:-1] + [("if", st[1], tailify(st[2]), tailify(st[3]))], None)
        if st[0] == "iflet" and st[5] is not None and (st[4][1] is not None or st[5][1] is not None):
            return (stmts[:-1] + [("iflet", st[1], st[2], st[3], tailify(st[4]), tailify(st[5]))], None)
    return blk


def tyname(t):
    return t if isinstance(t, str) else "tuple"


# name -> (parameter kinds, return kind, async) for the theorem statements of PcEnforcerGen.v, in emission order
E_FUNCS = (("is_filtered", (), "bool", False),
           ("build_role_links", (), "result", False),
           ("load_policy", (), "result", True),
           ("load_filtered_policy", ("filter",), "result", True),
           ("save_policy", (), "result", True),
           ("clear_policy", (), "result", True),
           ("set_role_manager", ("rmarg",), "result", False),
           ("set_model", ("modeldef",), "result", True),
           ("set_adapter", ("adapter",), "result", True),
           ("enable_enforce", ("bool",), "unit", False),
           ("enable_auto_save", ("bool",), "unit", False),
           ("enable_auto_build_role_links", ("bool",), "unit", False),
           ("enable_auto_notify_watcher", ("bool",), "unit", False),
           ("add_function", ("text", "ufun"), "unit", False),
           ("set_effector", ("effector",), "unit", False))
E_SIG = {n: (p, r, a) for n, p, r, a in E_FUNCS}
COQ_TY = {"bool": "bool", "text": "text", "ufun": "ufun", "effector": "effector_arg", "rmarg": "new_rm",
          "filter": "filter_arg", "modeldef": "modeldef", "adapter": "adapter"}
BINDABLE = ("bool", "text", "rules", "model", "errc", "lres", "lerr", "outcome", "modeldef", "adapter",
            "rmarg", "filter", "ufun", "effector")


# ---------------------------------------------------------------- emission
class EE:
    def __init__(self, ret, defined, accessors):
        self.ret = ret                # "result" | "unit"
        self.defined = defined        # siblings already emitted (a call to a later one is outside the subset)
        self.acc = accessors          # accessor name -> field
        self.n = 0
        self.nest = 0                 # > 0 inside a branch / nested block
        self.mut = set()
        self.exitf = lambda o: "(s, %s)" % o

    def fresh(self, base):
        self.n += 1
        return "%s_%d" % (base, self.n)

    def flow(self, f):
        old = self.exitf
        self.exitf = lambda o: "(s, Exit %s)" % o
        try:
            return f()
        finally:
            self.exitf = old

    def join(self, flow_term, k):
        o, c = self.fresh("o"), self.fresh("c")
        return "match %s with\n| (s, Exit %s) => %s\n| (s, Next %s) =>\n%s\nend" % (
            flow_term, o, self.exitf(o), c, k(c))

    @staticmethod
    def upd(x, rest):
        return x if rest == "s" else "let s := %s in\n%s" % (x, rest)

    def norm(self, e):
        """self.get_mut_adapter() -> self.adapter .. (only accessors whose body has been read)"""
        if e[0] == "mcall" and e[1] == SELF and not e[3] and e[2] in ACCESSOR_NAMES:
            if e[2] not in self.acc:
                raise Untranslatable("self.%s(): the accessor is not the plain field access expected" % e[2])
            return ("field", SELF, self.acc[e[2]])
        return e

    def pure(self, e, env, what):
        if effectful(e):
            raise Untranslatable("%s with an effect" % what)
        box = []

        def k(v):
            box.append(v)
            return ""
        self.ev(e, env, k)
        if len(box) != 1:
            raise Untranslatable("%s could not be evaluated" % what)
        return box[0]

    def typed(self, what, args, tys, env):
        if len(args) != len(tys):
            raise Untranslatable("%s with %d argument(s), expected %d" % (what, len(args), len(tys)))
        out = []
        for a, ty in zip(args, tys):
            t, term = self.pure(a, env, "argument of " + what)
            if t != ty:
                raise Untranslatable("argument of %s: a %s where a %s is expected" % (what, tyname(t), ty))
            out.append(term)
        return out

    # ---- expressions
    def ev(self, e, env, k):
        e = self.norm(e)
        kind = e[0]
        if kind == "var":
            if e[1] == "notify_logger_and_watcher" and e[1] not in env:
                return k(("callback", ""))
            if e[1] not in env:
                raise Untranslatable("identifier " + e[1])
            return k(env[e[1]])
        if kind == "str":
            return k(("text", R.coq_text(e[1])))
        if kind == "lit":
            return k(("bool", e[1]))
        if kind == "not":
            def knot(v):
                if v[0] != "bool":
                    raise Untranslatable("! on a " + tyname(v[0]))
                return k(("bool", "(negb %s)" % v[1]))
            return self.ev(e[1], env, knot)
        if kind in ("and", "or"):
            return self.ev_short(e, env, k)
        if kind == "eq":
            ta, a = self.pure(e[1], env, "operand of a comparison")
            tb, b = self.pure(e[2], env, "operand of a comparison")
            if ta != tb or ta not in ("text", "bool"):
                raise Untranslatable("comparison of %s with %s" % (tyname(ta), tyname(tb)))
            c = "(%s %s %s)" % ("teqb" if ta == "text" else "Bool.eqb", a, b)
            return k(("bool", "(negb %s)" % c if e[3] else c))
        if kind == "blockv":
            stmts, final = e[1]
            if stmts or final is None:
                raise Untranslatable("block expression with statements")
            return self.ev(final, env, k)
        if kind == "tuple":
            if e[1]:
                raise Untranslatable("tuple expression")
            return k(("unit", "tt"))
        if kind == "field":
            return self.ev_field(e, env, k)
        if kind == "deref":
            if self.norm(e[1]) == ("field", SELF, "model"):
                return k(("modelref", ""))       # `&mut *self.model`
            raise Untranslatable("dereference")
        if kind == "path":
            return self.ev_path(e, env, k)
        if kind == "try":
            return self.ev(e[1], env, lambda v: self.consume_try(v, k))
        if kind == "await":
            if e[1][0] != "mcall":
                raise Untranslatable(".await on something that is not a call")
            return self.ev_mcall(e[1], True, env, k)
        if kind == "mcall":
            return self.ev_mcall(e, False, env, k)
        raise Untranslatable("expression " + kind)

    def ev_short(self, e, env, k):
        op = e[0]
        sym = "&&" if op == "and" else "||"

        def chk(v):
            if v[0] != "bool":
                raise Untranslatable("%s on a %s" % (sym, tyname(v[0])))
            return v[1]
        if not effectful(e[2]):
            return self.ev(e[1], env, lambda va: self.ev(
                e[2], env, lambda vb: k(("bool", "(%s %s %s)" % (chk(va), sym, chk(vb))))))

        def ka(va):
            a = chk(va)
            rhs = self.flow(lambda: self.ev(e[2], env, lambda vb: "(s, Next %s)" % chk(vb)))
            if op == "and":
                term = "(if %s then\n%s\nelse (s, Next false))" % (a, rhs)
            else:
                term = "(if %s then (s, Next true) else\n%s)" % (a, rhs)
            return self.join(term, lambda c: k(("bool", c)))
        return self.ev(e[1], env, ka)

    def ev_field(self, e, env, k):
        if e[1] != SELF:
            raise Untranslatable("field .%s of something that is not self" % e[2])
        f = e[2]
        if f in FLAG_FIELDS:
            return k(("bool", "(%s s)" % FLAG_FIELDS[f]))
        if f in ("model", "adapter", "rm", "fm", "engine"):
            return k(("obj:" + f, ""))
        raise Untranslatable("field self." + f)

    def ev_path(self, e, env, k):
        name, args = e[1], e[2]
        if name == "EventData::SavePolicy" and args is not None:
            (x,) = self.typed(name, args, ("rules",), env)
            return k(("event", "(EvSave %s)" % x))
        if name == "EventData::ClearPolicy" and args is None:
            return k(("event", "EvClear"))
        if name in ("Event::PolicyChange", "Event::ClearCache") and args is None:
            return k(("evkind:" + name.split("::")[1], ""))
        if name == "Arc::clone" and args is not None and len(args) == 1 and args[0] == ("field", SELF, "rm"):
            return k(("rmref", ""))               # the enforcer's current manager
        if name == "Ok" and args is not None and len(args) == 1:
            t, _ = self.pure(args[0], env, "operand of Ok")
            if t == "unit" and self.ret == "result":
                return k(("result", "(Ok true)"))    # Ok(()) : the model's steps answer Ok true
            raise Untranslatable("Ok of a %s in a function returning %s" % (tyname(t), self.ret))
        if name == "Err" and args is not None and len(args) == 1:
            t, x = self.pure(args[0], env, "operand of Err")
            if t == "errc" and self.ret == "result":
                return k(("result", "(Err %s)" % x))
            raise Untranslatable("Err of a %s" % tyname(t))
        raise Untranslatable("path " + name + ("(..)" if args is not None else ""))

    def consume_try(self, v, k):
        """the `?` operator"""
        t, r = v
        err = self.fresh("e")
        if t == "outcome":
            return "match %s with\n| Ok _ =>\n%s\n| Err %s => %s\n| Panic => %s\nend" % (
                r, k(("unit", "tt")), err, self.exitf("(Err %s)" % err), self.exitf("Panic"))
        if t == "lres":
            return "match %s with\n| LROk =>\n%s\n| LRErr %s => %s\n| LRPanic => %s\nend" % (
                r, k(("unit", "tt")), err, self.exitf("(Err %s)" % err), self.exitf("Panic"))
        if t == "lerr":
            return "match %s with\n| LOk =>\n%s\n| LErr %s => %s\nend" % (
                r, k(("unit", "tt")), err, self.exitf("(Err %s)" % err))
        if isinstance(t, str) and t.startswith("conv:"):
            # m.try_into_model().await? : outside the model (the op carries the converted value)
            return k((t[5:], r))
        raise Untranslatable("`?` on a " + tyname(t))

    def as_outcome(self, v):
        """a Result<()> as the value of the function / of `return`"""
        t, r = v
        if t == "result":
            return self.exitf(r)
        if t == "outcome":
            return self.exitf(r)
        err = self.fresh("e")
        if t == "lerr":
            return "match %s with\n| LOk => %s\n| LErr %s => %s\nend" % (
                r, self.exitf("(Ok true)"), err, self.exitf("(Err %s)" % err))
        if t == "lres":
            return "match %s with\n| LROk => %s\n| LRErr %s => %s\n| LRPanic => %s\nend" % (
                r, self.exitf("(Ok true)"), err, self.exitf("(Err %s)" % err), self.exitf("Panic"))
        raise Untranslatable("return of a " + tyname(t))

    def need_await(self, what, is_async, awaited):
        if is_async and not awaited:
            raise Untranslatable("%s without .await" % what)
        if awaited and not is_async:
            raise Untranslatable(".await on " + what)

    def ev_mcall(self, e, awaited, env, k):
        recv, name, args = self.norm(e[1]), e[2], e[3]
        if recv == SELF:
            return self.ev_self_call(name, args, awaited, env, k)
        if recv == ("field", SELF, "adapter"):
            return self.ev_adapter_call(name, args, awaited, env, k)
        if recv == ("field", SELF, "model"):
            return self.ev_model_call(name, args, awaited, env, k)
        if recv == ("mcall", ("field", SELF, "rm"), "write", []) and name == "clear" and not args:
            self.need_await("rm.write().clear()", False, awaited)
            return self.upd("rm_clear s", k(("unit", "tt")))
        if recv == ("field", SELF, "fm") or recv == ("field", SELF, "engine"):
            raise Untranslatable("self.%s.%s(..) outside the pair `self.fm.add_function(n, f); "
                                 "Self::register_function(&mut self.engine, n, f);`" % (recv[2], name))
        # a method of a value
        if name in ("try_into_model", "try_into_adapter") and not args:
            want = "modeldef" if name == "try_into_model" else "adapter"
            t, x = self.pure(recv, env, "receiver of " + name)
            if t != want:
                raise Untranslatable(".%s() on a %s" % (name, tyname(t)))
            self.need_await(name, True, awaited)
            return k(("conv:" + want, x))
        if name in IDENTITY and not args and not awaited:
            def kid(v):
                if v[0] not in ("text", "rules", "model", "bool"):
                    raise Untranslatable(".%s() on a %s" % (name, tyname(v[0])))
                return k(v)
            return self.ev(recv, env, kid)
        raise Untranslatable("method .%s(..)" % name)

    def ev_self_call(self, name, args, awaited, env, k):
        if name == "is_filtered" and not args:
            self.need_await("is_filtered", False, awaited)
            if "is_filtered" not in self.defined:
                raise Untranslatable("self.is_filtered(): not translated")
            return k(("bool", "(gen_is_filtered s)"))
        if name in ("get_all_policy", "get_all_grouping_policy") and not args:
            self.need_await(name, False, awaited)
            # MgmtApi (management_api.rs): every rule of the section as sec :: ptype :: fields
            return k(("rules", "(m_get_all (e_model s) (T \"%s\"))" % ("p" if name == "get_all_policy" else "g")))
        if name == "emit" and len(args) == 2:
            self.need_await("emit", False, awaited)
            tk, _ = self.pure(args[0], env, "event kind")
            td, d = self.pure(args[1], env, "event data")
            if tk == "evkind:PolicyChange" and td == "event":
                return self.upd("emit s %s" % d, k(("unit", "tt")))
            raise Untranslatable("emit(%s, %s)" % (tyname(tk), tyname(td)))
        if name == "off" and len(args) == 1:
            self.need_await("off", False, awaited)
            tk, _ = self.pure(args[0], env, "event kind")
            if tk != "evkind:PolicyChange":
                raise Untranslatable("off(%s)" % tyname(tk))
            return self.upd("off_policy_change s", k(("unit", "tt")))
        if name == "on" and len(args) == 2:
            self.need_await("on", False, awaited)
            tk, _ = self.pure(args[0], env, "event kind")
            tc, _ = self.pure(args[1], env, "callback")
            if tk != "evkind:PolicyChange" or tc != "callback":
                raise Untranslatable("on(%s, %s)" % (tyname(tk), tyname(tc)))
            return self.upd("on_policy_change s", k(("unit", "tt")))
        if name == "register_g_functions" and not args:
            self.need_await(name, False, awaited)
            le = self.fresh("le")
            return "let (s, %s) := register_g_functions s in\n%s" % (le, k(("lerr", le)))
        if name in E_SIG and E_SIG[name][1] != "bool":
            ptys, ret, is_async = E_SIG[name]
            if name not in self.defined:
                raise Untranslatable("call of self.%s(..), which is not translated before this function" % name)
            self.need_await("self.%s(..)" % name, is_async, awaited)
            ts = self.typed("self." + name, args, ptys, env)
            call = " ".join(["gen_" + name, "s"] + ts)
            if ret == "unit":
                return "let (s, _) := %s in\n%s" % (call, k(("unit", "tt")))
            r = self.fresh("r")
            return "let (s, %s) := %s in\n%s" % (r, call, k(("outcome", r)))
        raise Untranslatable("self.%s(..)" % name)

    def ev_adapter_call(self, name, args, awaited, env, k):
        if name == "is_filtered" and not args:
            self.need_await("adapter.is_filtered()", False, awaited)
            return k(("bool", "(ad_is_filtered (e_adapter s))"))
        ad, md, r = self.fresh("ad"), self.fresh("md"), self.fresh("r")
        if name == "load_policy":
            self.typed("adapter.load_policy", args, ("modelref",), env)
            self.need_await("adapter.load_policy", True, awaited)
            return ("let '(%s, %s, %s) := ad_load (e_adapter s) (e_model s) in\n"
                    "let s := upd_model (upd_adapter s %s) %s in\n%s" % (ad, md, r, ad, md, k(("lres", r))))
        if name == "load_filtered_policy":
            _, f = self.typed("adapter.load_filtered_policy", args, ("modelref", "filter"), env)
            self.need_await("adapter.load_filtered_policy", True, awaited)
            return ("let '(%s, %s, %s) := ad_load_filtered (e_adapter s) (fst %s) (snd %s) (e_model s) in\n"
                    "let s := upd_model (upd_adapter s %s) %s in\n%s" % (ad, md, r, f, f, ad, md, k(("lres", r))))
        if name == "save_policy":
            self.typed("adapter.save_policy", args, ("modelref",), env)
            self.need_await("adapter.save_policy", True, awaited)
            return "let (%s, %s) := ad_save (e_adapter s) (e_model s) in\nlet s := upd_adapter s %s in\n%s" % (
                ad, r, ad, k(("lres", r)))
        if name == "clear_policy":
            self.typed("adapter.clear_policy", args, (), env)
            self.need_await("adapter.clear_policy", True, awaited)
            return "let (%s, %s) := ad_clear (e_adapter s) in\nlet s := upd_adapter s %s in\n%s" % (
                ad, r, ad, k(("lres", r)))
        raise Untranslatable("adapter method " + name)

    def ev_model_call(self, name, args, awaited, env, k):
        self.need_await("model." + name, False, awaited)
        if name == "clear_policy" and not args:
            return self.upd("upd_model s (m_clear_policy (e_model s))", k(("unit", "tt")))
        if name == "get_model" and not args:
            return k(("model", "(e_model s)"))       # the assertion map
        if name == "build_role_links":
            self.typed("model.build_role_links", args, ("rmref",), env)
            le = self.fresh("le")
            return "let (s, %s) := model_build_role_links s in\n%s" % (le, k(("lerr", le)))
        raise Untranslatable("model method " + name)

    # ---- statements
    def run(self, stmts, env, k):
        if not stmts:
            return k(env)
        st, rest = stmts[0], stmts[1:]
        if st[0] == "let":
            def klet(v):
                if st[1][0] == "wild":
                    return self.run(rest, env, k)            # `let _ = e;` : the value is dropped
                if v[0] not in BINDABLE:
                    raise Untranslatable("let of a " + tyname(v[0]))
                env2 = dict(env)
                x = "v_" + st[1][1]
                env2[st[1][1]] = (v[0], x)
                if st[1][2]:
                    self.mut.add(st[1][1])
                else:
                    self.mut.discard(st[1][1])
                return "let %s := %s in\n%s" % (x, v[1], self.run(rest, env2, k))
            return self.ev(st[2], env, klet)
        if st[0] == "assign":
            return self.run_assign(st, rest, env, k)
        if st[0] == "ret":
            if rest:
                raise Untranslatable("code after return")
            return self.ev(st[1], env, self.as_outcome)
        if st[0] == "panic":
            if rest:
                raise Untranslatable("code after panic!")
            return self.exitf("Panic")
        if st[0] == "assert":
            t, c = self.pure(st[1], env, "condition of assert!")
            if t != "bool":
                raise Untranslatable("assert! on a " + tyname(t))
            return "if %s then\n%s\nelse %s" % (c, self.run(rest, env, k), self.exitf("Panic"))
        if st[0] == "expr":
            e = st[1]
            if e[0] == "mcall" and e[2] == "extend" and e[1][0] == "var":
                return self.run_extend(e, rest, env, k)
            if e[0] == "mcall" and e[1] == ("field", SELF, "fm") and e[2] == "add_function":
                return self.run_add_function(e, rest, env, k)

            def kex(v):
                if v[0] != "unit":
                    raise Untranslatable("expression statement of type %s (a Result must be consumed: "
                                         "`?`, `if let Err(e) = ..`, `let _ = ..`)" % tyname(v[0]))
                return self.run(rest, env, k)
            return self.ev(e, env, kex)
        if st[0] == "block":
            return self.branch(st[1], env, lambda _e: self.run(rest, env, k))
        if st[0] == "if":
            return self.run_if(st, rest, env, k)
        if st[0] == "iflet":
            return self.run_iflet(st, rest, env, k)
        raise Untranslatable("statement " + str(st[0]))

    def run_extend(self, e, rest, env, k):
        x = e[1][1]
        if x not in env or env[x][0] != "rules":
            raise Untranslatable("%s.extend(..) on something that is not a list of rules" % x)
        if x not in self.mut:
            raise Untranslatable("%s.extend(..): %s is not `let mut`" % (x, x))
        if self.nest:
            raise Untranslatable("%s.extend(..) inside a branch or nested block" % x)
        (y,) = self.typed(x + ".extend", e[3], ("rules",), env)
        return "let %s := (%s ++ %s) in\n%s" % (env[x][1], env[x][1], y, self.run(rest, env, k))

    def run_add_function(self, e, rest, env, k):
        a = self.typed("fm.add_function", e[3], ("text", "ufun"), env)
        nxt = rest[0] if rest else None
        if not (nxt and nxt[0] == "expr" and nxt[1][0] == "path" and nxt[1][1] == "Self::register_function"
                and nxt[1][2] is not None and len(nxt[1][2]) == 3 and nxt[1][2][0] == ("field", SELF, "engine")):
            raise Untranslatable("self.fm.add_function(..) not followed by Self::register_function(&mut self.engine, ..): "
                                 "the model keeps one table for both")
        b = self.typed("Self::register_function", nxt[1][2][1:], ("text", "ufun"), env)
        if a != b:
            raise Untranslatable("function map and engine receive different arguments")
        return self.upd("add_user_function s %s %s" % (a[0], a[1]), self.run(rest[1:], env, k))

    def run_assign(self, st, rest, env, k):
        lhs, rhs = st[1], st[2]

        def kv(v):
            t, x = v
            if lhs[0] == "field" and lhs[1] == SELF:
                f = lhs[2]
                if f in FLAG_FIELDS:
                    if t != "bool":
                        raise Untranslatable("self.%s = a %s" % (f, tyname(t)))
                    slots = [x if g == f else "(%s s)" % FLAG_FIELDS[g] for g in FLAG_ORDER]
                    return self.upd("upd_flags s %s (e_callbacks s)" % " ".join(slots), self.run(rest, env, k))
                want = {"model": ("modeldef", "replace_model"), "adapter": ("adapter", "upd_adapter"),
                        "rm": ("rmarg", "replace_rm"), "eft": ("effector", "replace_eft")}.get(f)
                if want is None:
                    raise Untranslatable("assignment to self." + f)
                if t != want[0]:
                    raise Untranslatable("self.%s = a %s" % (f, tyname(t)))
                return self.upd("%s s %s" % (want[1], x), self.run(rest, env, k))
            if lhs[0] == "deref" and lhs[1][0] == "mcall" and self.norm(lhs[1][1]) == ("field", SELF, "model") \
                    and lhs[1][2] == "get_mut_model" and not lhs[1][3]:
                if t != "model":
                    raise Untranslatable("*self.model.get_mut_model() = a %s" % tyname(t))
                return self.upd("upd_model s %s" % x, self.run(rest, env, k))
            raise Untranslatable("assignment target")
        return self.ev(rhs, env, kv)

    def body_of(self, blk):
        if blk is None:
            return []
        if blk[1] is not None:
            raise Untranslatable("value of a block in statement position")
        return blk[0]

    def branch(self, blk, env, k):
        """a nested scope; its continuation k is run in the OUTER scope again"""
        outer = self.nest

        def k2(_env):
            inner = self.nest
            self.nest = outer
            try:
                return k(env)
            finally:
                self.nest = inner
        self.nest = outer + 1
        try:
            return self.run(self.body_of(blk), env, k2)
        finally:
            self.nest = outer

    @staticmethod
    def dead(_e):
        raise Untranslatable("internal: continuation of a block that always returns")

    def run_if(self, st, rest, env, k):
        th, el = st[2], st[3] if st[3] is not None else ([], None)
        a_th, a_el = always_exits(th), always_exits(el)

        def kc(v):
            if v[0] != "bool":
                raise Untranslatable("condition of type " + tyname(v[0]))
            c = v[1]
            follow = lambda _e: self.run(rest, env, k)   # noqa: E731
            if a_th and a_el:
                if rest:
                    raise Untranslatable("code after an if whose branches both return")
                return "if %s then\n%s\nelse\n%s" % (c, self.branch(th, env, self.dead), self.branch(el, env, self.dead))
            if a_th:
                return "if %s then\n%s\nelse\n%s" % (c, self.branch(th, env, self.dead), self.branch(el, env, follow))
            if a_el:
                return "if %s then\n%s\nelse\n%s" % (c, self.branch(th, env, follow), self.branch(el, env, self.dead))
            if not may_exit(th) and not may_exit(el):
                t1 = self.branch(th, env, lambda _e: "s")
                t2 = self.branch(el, env, lambda _e: "s")
                return "let s := (if %s then\n%s\nelse\n%s) in\n%s" % (c, t1, t2, self.run(rest, env, k))
            t1 = self.flow(lambda: self.branch(th, env, lambda _e: "(s, Next tt)"))
            t2 = self.flow(lambda: self.branch(el, env, lambda _e: "(s, Next tt)"))
            return self.join("(if %s then\n%s\nelse\n%s)" % (c, t1, t2), lambda _c: self.run(rest, env, k))
        return self.ev(st[1], env, kc)

    def run_iflet(self, st, rest, env, k):
        ctor, x, e = st[1], st[2], st[3]
        th, el = st[4], st[5] if st[5] is not None else ([], None)

        def kv(v):
            t, r = v
            pats = {"lres": ("LROk", "LRErr %s", "LRPanic"), "lerr": ("LOk", "LErr %s", None),
                    "outcome": ("Ok _", "Err %s", "Panic")}.get(t)
            if pats is None:
                raise Untranslatable("if let %s(..) on a %s" % (ctor, tyname(t)))
            err = self.fresh("e")
            env_ok = env_er = env
            if ctor == "Err":
                okb, erb = el, th
                if x != "_":
                    env_er = dict(env)
                    env_er[x] = ("errc", err)
                    self.mut.discard(x)
            else:
                okb, erb = th, el
                if x != "_":
                    raise Untranslatable("if let Ok(%s): the value is ()" % x)

            def arms(f_ok, f_er, f_panic):
                out = "match %s with\n| %s =>\n%s\n| %s =>\n%s\n" % (r, pats[0], f_ok, pats[1] % err, f_er)
                if pats[2]:
                    out += "| %s => %s\n" % (pats[2], f_panic)
                return out + "end"
            a_ok, a_er = always_exits(okb), always_exits(erb)
            follow = lambda _e: self.run(rest, env, k)   # noqa: E731
            if a_ok and a_er:
                if rest:
                    raise Untranslatable("code after an if let whose branches both return")
                return arms(self.branch(okb, env_ok, self.dead), self.branch(erb, env_er, self.dead), self.exitf("Panic"))
            if a_er:
                return arms(self.branch(okb, env_ok, follow), self.branch(erb, env_er, self.dead), self.exitf("Panic"))
            if a_ok:
                return arms(self.branch(okb, env_ok, self.dead), self.branch(erb, env_er, follow), self.exitf("Panic"))
            t1 = self.flow(lambda: self.branch(okb, env_ok, lambda _e: "(s, Next tt)"))
            t2 = self.flow(lambda: self.branch(erb, env_er, lambda _e: "(s, Next tt)"))
            tp = self.flow(lambda: self.exitf("Panic"))
            return self.join("(" + arms(t1, t2, tp) + ")", lambda _c: self.run(rest, env, k))
        return self.ev(e, env, kv)

    def function(self, blk, env):
        if self.ret == "result":
            blk = tailify(blk)
            if not always_exits(blk):
                raise Untranslatable("control reaches the end of the function without a value")
            return self.run(blk[0], env, self.dead)
        # a function without a return type: falling off the end is the model's Ok true
        stmts, final = blk
        if final is not None:
            stmts = stmts + [("expr", final)]
        return self.run(stmts, env, lambda _e: self.exitf("(Ok true)"))


# ---------------------------------------------------------------- functions
def split_params(s):
    out, depth, cur = [], 0, ""
    for ch in s:
        if ch in "<([":
            depth += 1
        elif ch in ">)]":
            depth -= 1
        if ch == "," and depth == 0:
            out.append(cur)
            cur = ""
        else:
            cur += ch
    if cur.strip():
        out.append(cur)
    return [x.strip() for x in out if x.strip()]


def param_kind(ty, generics):
    t = re.sub(r"\s+", "", ty)
    if t in generics:
        return {"TryIntoModel": "modeldef", "TryIntoAdapter": "adapter"}.get(generics[t])
    return {"bool": "bool", "&str": "text", "OperatorFunction": "ufun", "Box<dynEffector>": "effector",
            "Arc<RwLock<dynRoleManager>>": "rmarg", "Filter<'a>": "filter", "Filter<'_>": "filter",
            "Filter": "filter"}.get(t)


def find_fn(src, start, name):
    """-> (async, generics, receiver, [(param, kind)], return kind, body) of `fn name` after start;
       the cfg attributes in front of it must hold for FEATURES"""
    hdr = (r"((?:#\[[^\]]*\]\s*)*)(async\s+)?fn\s+%s\s*(<[^>]*>)?\s*\(([^)]*)\)\s*(?:->\s*([^{;]+?))?\s*(?=[{;])" % name)
    m = None
    for mm in re.finditer(hdr, src[start:]):
        if src[start + mm.end()] == "{":
            m = mm
            break
    if m is None:
        raise Untranslatable("%s: definition not found" % name)
    for attr in re.findall(r"#\[[^\]]*\]", m.group(1)):
        if re.match(r"#\[\s*cfg\b", attr):
            p = EP(elex(attr), FEATURES)
            if not p.cfg():
                raise Untranslatable("%s: compiled out by %s" % (name, attr))
    generics = {}
    if m.group(3):
        for g in split_params(m.group(3)[1:-1]):
            gm = re.match(r"(\w+)\s*:\s*(\w+)$", g)
            if gm:
                generics[gm.group(1)] = gm.group(2)
            elif not re.match(r"'\w+$", g):
                raise Untranslatable("%s: generic parameter %r" % (name, g))
    prms = split_params(m.group(4))
    recv = re.sub(r"\s+", "", prms[0]) if prms else ""
    if recv not in ("&mutself", "&self"):
        raise Untranslatable("%s: receiver %r" % (name, recv))
    params = []
    for prm in prms[1:]:
        pm = re.match(r"(\w+)\s*:\s*(.+)$", prm, re.S)
        kind = param_kind(pm.group(2), generics) if pm else None
        if kind is None:
            raise Untranslatable("%s: parameter %r" % (name, prm))
        params.append((pm.group(1), kind))
    rt = re.sub(r"\s+", "", m.group(5) or "")
    ret = {"": "unit", "Result<()>": "result", "bool": "bool"}.get(rt, "other: " + rt)
    body = pins.balanced(src, start + m.end())
    if body is None:
        raise Untranslatable("%s: body not found" % name)
    return bool(m.group(2)), recv, params, ret, body


def read_accessors(src, start):
    """name -> field, for the accessors of the impl that ARE the plain field access"""
    acc = {}
    for name in ACCESSOR_NAMES:
        try:
            is_async, _recv, params, _ret, body = find_fn(src, start, name)
            stmts, final = parse_body(body)
            while final is not None and final[0] == "deref":
                final = final[1]
            if not is_async and not params and not stmts and final is not None \
                    and final[0] == "field" and final[1] == SELF:
                acc[name] = final[2]
        except Untranslatable:
            pass
    return acc


def signature(name):
    ptys, ret, _a = E_SIG[name]
    binders = "".join(" (_ : %s)" % COQ_TY[t] for t in ptys)
    return binders, ("bool" if ret == "bool" else "estate * outcome bool")


def translate_fn(src, start, name, defined, acc):
    want_p, want_r, want_async = E_SIG[name]
    is_async, recv, params, ret, body = find_fn(src, start, name)
    if tuple(t for _, t in params) != tuple(want_p):
        raise Untranslatable("%s: parameter types %s" % (name, [t for _, t in params]))
    if ret != want_r:
        raise Untranslatable("%s: return type (%s)" % (name, ret))
    if is_async != want_async:
        raise Untranslatable("%s: %s" % (name, "async" if is_async else "not async"))
    blk = parse_body(body)
    env = {x: (t, "v_" + x) for x, t in params}
    binders = "".join(" (v_%s : %s)" % (x, COQ_TY[t]) for x, t in params)
    em = EE(ret, defined, acc)
    if ret == "bool":
        stmts, final = blk
        if stmts or final is None:
            raise Untranslatable("%s: not a single expression" % name)
        t, term = em.pure(final, env, "value of " + name)
        if t != "bool":
            raise Untranslatable("%s: a %s" % (name, tyname(t)))
        return "Definition gen_%s (s : estate)%s : bool :=\n  %s.\n" % (name, binders, term)
    if recv != "&mutself":
        raise Untranslatable("%s: receiver is not &mut self" % name)
    term = em.function(blk, env)
    return "Definition gen_%s (s : estate)%s : estate * outcome bool :=\n%s.\n" % (name, binders, R.i_indent(term))


def generate():
    out = ["(* GENERATED on every run by tools/rs2coq_enf.py (rs2coq part 7) from /repo/src/enforcer.rs",
           "   (impl CoreApi for Enforcer; cfg resolved for the features %s) - do not edit. *)" % (
               ", ".join("%s%s" % ("" if v else "!", f) for f, v in sorted(FEATURES.items()))),
           "From CV Require Import Model.Base Model.Enforce Model.Engine Gen.InternalPrims Gen.EnforcerPrims.", ""]
    ok = True
    src = pins.read(EFILE)
    imp = re.search(r"impl\s+CoreApi\s+for\s+Enforcer\b", src or "")
    acc = read_accessors(src, imp.end()) if imp else {}
    out.append("(* accessors read as plain field accesses: %s *)\n" % (
        ", ".join("%s -> self.%s" % (a, acc[a]) for a in ACCESSOR_NAMES if a in acc) or "none"))
    defined = set()
    for name, _ptys, _ret, _async in E_FUNCS:
        try:
            if imp is None:
                raise Untranslatable("impl CoreApi for Enforcer not found")
            out.append(translate_fn(src, imp.end(), name, defined, acc))
        except Exception as ex:   # noqa
            ok = False
            msg = str(ex) if isinstance(ex, Untranslatable) else "%s: %s" % (type(ex).__name__, ex)
            out.append("(* translation of %s failed: %s *)" % (name, msg.replace("*)", "* )").replace("(*", "( *")))
            binders, ty = signature(name)
            out.append("Definition gen_%s (s : estate)%s : %s := %s.\n" % (
                name, binders, ty, "false" if ty == "bool" else "(s, Panic)"))
        defined.add(name)
    out.append("Definition gen_enforcer_translated : bool := %s." % ("true" if ok else "false"))
    return "\n".join(out) + "\n", ok


def main(dst=None):
    if dst is None:
        dst = sys.argv[1] if len(sys.argv) > 1 else os.path.join(os.path.dirname(HERE), "coq", "Gen", "EnforcerGen.v")
    txt, ok = generate()
    R.write_if_changed(dst, txt, ok)
    return ok


if __name__ == "__main__":
    main()
