#!/usr/bin/env python3
"""rs2coq, part 22: the last crate functions that no part translated (Proofs/LinkingP.v `untranslated_crate`)
-> coq/Gen/MiscGen.v, over coq/Gen/MiscRt.v (hand-written, TRUSTED) and the runtimes of parts 9, 12, 15, 17, 18.
coq/PinChecks/PcMiscGen.v proves every generated function equal to the model's / the earlier restatement; the
statements are in coq/Properties/MiscGen.v; coq/Proofs/Linking2P.v discharges the hypothesis ML_null_adapter of
the capstone with the generated NullAdapter::add_policy.

Translated (features as in part 15: runtime-tokio, incremental, watcher, cached ON; glob, ip, logging, explain OFF)
  src/adapter/null_adapter.rs   every method that `trait Adapter` (src/adapter/mod.rs) declares, as implemented by
                                `impl Adapter for NullAdapter` (the list of methods and their signatures are READ
                                from the trait; the bodies go through the parser / emitter of parts 9 and 17:
                                rs2coq_adapters.py, rs2coq_fsave.py)
  src/model/function_map.rs     enum OperatorFunction (the declaration, as a table), `impl Default for FunctionMap`
                                (the map AND what every closure computes), FunctionMap::add_function, get_functions
  src/enforcer.rs               Enforcer::register_function
  src/model/assertion.rs        Assertion::default, get_policy, get_mut_policy (over the record IniGen.gen_assertion
                                that part 12 generates from the struct)
  src/frontend.rs               casbin_js_get_permission_for_user
  src/model/mod.rs              declares `trait Model` and re-exports: it is checked to contain no function body

Everything is READ from the Rust text on every run.  Parts B-D use the lexer and the recursive-descent parser of
part 15 (rs2coq_enf2.py: items are located by name, signature and body parsed) and a small TYPED emitter (below).
Subset of the emitter:
  types        &str String usize bool ()  Vec<T> HashMap<K, V> LinkedHashSet<Vec<String>> Option<T> (T, U)
               OperatorFunction  fn(ImmutableString, ..) -> Dynamic  Engine  FunctionMap  Assertion  Self
               Arc<RwLock<dyn RoleManager>>  impl Iterator<Item = (&K, &V)>  &Enforcer  &dyn Model
               Result<String, Box<dyn Error>>  serde_json::Value  (a type variable for an unannotated `let`)
  statements   let [mut] x = e;  let _ = e;  e;  place = e;  return e;  for pat in e { .. }
               if c { .. } [else ..]   if let Some(p) = e { .. } [else { .. }]   match e { Variant(p) => .., .. }
  expressions  literals, variables, fields, & &mut * (identity), struct literals, vec![..], blocks,
               `?` (as `let x = e?;`, `e?;`, `return e?`, or ONE argument of a returned call: Ok(e?)),
               the methods / associated functions that Emit.mcall / Emit.path / Emit.mutation list (each only on
               a receiver of the type named there), a closure ONLY as the payload of OperatorFunction::ArgN:
               |p1, .., pN| F(&pi, ..).into() with F a translated function of function_map.rs
A mutating call rebinds the variable (or the field of `self`) it mutates.  A function without loops, `?` and
partial calls is emitted as plain nested lets; otherwise as `rs_fn (.. LReturn v ..)` (RustVec.flow), None = panic.
Anything else raises Untranslatable: the function gets a stub of the expected type, `gen_misc_translated := false`,
and the reason is in a comment; the file still compiles.
"""
import os
import re
import sys

HERE = os.path.dirname(os.path.abspath(__file__))
sys.path.insert(0, HERE)
import pins  # noqa: E402
import rs2coq as R  # noqa: E402
import rs2coq_adapters as A  # noqa: E402
import rs2coq_fsave as F  # noqa: E402
import rs2coq_enf2 as E2  # noqa: E402

Untranslatable = R.Untranslatable
GEN_DIR = os.path.join(os.path.dirname(HERE), "coq", "Gen")

NA = "src/adapter/null_adapter.rs"
AM = "src/adapter/mod.rs"
FM = "src/model/function_map.rs"
AS = "src/model/assertion.rs"
EN = "src/enforcer.rs"
MM = "src/model/mod.rs"
FE = "src/frontend.rs"


def source(rel):
    src = pins.read(rel)
    if not src:
        raise Untranslatable(rel + " not found")
    return src


def comment_safe(s):
    return " ".join(str(s).split()).replace("*)", "* )").replace("(*", "( *")


# ====================================================================== A. null_adapter.rs
def split_params(txt):
    out, depth, cur = [], 0, ""
    for i, c in enumerate(txt):
        if c == "," and depth == 0:
            out.append(cur)
            cur = ""
            continue
        if c in "<([":
            depth += 1
        elif c in ")]" or (c == ">" and not (i > 0 and txt[i - 1] == "-")):
            depth -= 1
        cur += c
    if cur.strip():
        out.append(cur)
    return [x.strip() for x in out]


def trait_methods(src, trait):
    """the methods a trait DECLARES -> [dict(name, asyn, recv, params=[(name, type text)], ret=text|None, provided)]"""
    src = pins.strip_rust_comments(src)
    m = re.search(r"\btrait\s+%s\b[^{;]*\{" % re.escape(trait), src)
    if not m:
        raise Untranslatable("trait %s not found" % trait)
    body = pins.balanced(src, m.end() - 1)
    if body is None:
        raise Untranslatable("trait %s: unbalanced" % trait)
    out = []
    for fm in re.finditer(r"((?:#\[[^\]]*\]\s*)*)(async\s+)?fn\s+(\w+)\s*(?:<[^>]*>)?\s*\(", body):
        for attr in re.findall(r"#\[\s*cfg\b[^\]]*\]", fm.group(1)):
            raise Untranslatable("trait %s: %s under %s" % (trait, fm.group(3), attr))
        i = fm.end()
        depth, j = 1, i
        while j < len(body) and depth:
            depth += (body[j] == "(") - (body[j] == ")")
            j += 1
        params = split_params(body[i:j - 1])
        semi, brace = body.find(";", j), body.find("{", j)
        provided = brace >= 0 and (semi < 0 or brace < semi)
        end = brace if provided else semi
        if end < 0:
            raise Untranslatable("trait %s: declaration of %s" % (trait, fm.group(3)))
        rm = re.match(r"\s*->\s*(.+?)\s*(?:where\b.*)?$", body[j:end], re.S)
        if not rm and body[j:end].strip():
            raise Untranslatable("trait %s: signature of %s" % (trait, fm.group(3)))
        recv, ps = None, []
        for idx, p in enumerate(params):
            flat = re.sub(r"\s+", "", p)
            if idx == 0 and flat in ("&mutself", "&self"):
                recv = "mut" if flat == "&mutself" else "shared"
                continue
            pm = re.match(r"(?:mut\s+)?(\w+)\s*:\s*(.+)$", p, re.S)
            if not pm:
                raise Untranslatable("trait %s: parameter %r of %s" % (trait, p, fm.group(3)))
            ps.append((pm.group(1), pm.group(2)))
        if recv is None:
            raise Untranslatable("trait %s: %s has no self receiver" % (trait, fm.group(3)))
        out.append(dict(name=fm.group(3), asyn=bool(fm.group(2)), recv=recv, params=ps,
                        ret=rm.group(1) if rm else None, provided=provided))
    if not out:
        raise Untranslatable("trait %s declares no method" % trait)
    return out


NULL_IMPL = r"impl\s+Adapter\s+for\s+NullAdapter\b"


def null_signature(tm, aliases, talias):
    """-> (parameter types, return type) of a trait method, in the types of parts 9 / 17"""
    ptys = tuple(F.rust_type(t, {}, aliases, talias) for _n, t in tm["params"])
    ret = F.rust_type(tm["ret"], {}, aliases, talias) if tm["ret"] is not None else "unit"
    return ptys, ret


def null_binders(ptys, names):
    """Coq binders of the parameters; the model behind `&mut dyn Model` is the state st_m"""
    out = []
    for t, x in zip(ptys, names):
        if t == "mref":
            continue
        if t == "filter":
            out.append("(v_%s_p : list text) (v_%s_g : list text)" % (x, x))
        else:
            out.append("(v_%s : %s)" % (x, F.coq_ty(t)))
    return out


def null_result_ty(ptys, recv, ret):
    state = ["model"] if "mref" in ptys else []
    return F.result_ty(state, ret)


def translate_null_method(tm, tsig):
    src = source(NA)
    aliases = F.use_aliases(src)
    talias = F.type_aliases(src)
    code = pins.strip_rust_comments(src)
    sm = re.search(r"\bstruct\s+NullAdapter\b\s*([;{(])", code)
    if not sm:
        raise Untranslatable("struct NullAdapter not found")
    if sm.group(1) != ";":
        raise Untranslatable("NullAdapter is not a unit struct (the model's ANull has no state)")
    im = re.search(NULL_IMPL, src)
    if not im:
        raise Untranslatable("impl Adapter for NullAdapter not found")
    blk_start = src.find("{", im.end())
    blk = pins.balanced(src, blk_start)
    if blk is None:
        raise Untranslatable("impl Adapter for NullAdapter: unbalanced")
    name = tm["name"]
    params, ret_txt, body = A.find_fn(src, blk_start, name)
    if not re.search(r"\bfn\s+%s\b" % name, blk):
        raise Untranslatable("%s is not defined in impl Adapter for NullAdapter" % name)
    hm = list(re.finditer(r"(async\s+)?fn\s+%s\b" % name, blk))
    if len(hm) != 1 or bool(hm[0].group(1)) != tm["asyn"]:
        raise Untranslatable("%s: async differs from the declaration of the trait" % name)
    ptys, ret = tsig
    r0 = re.sub(r"\s+", "", params[0]) if params else ""
    if r0 != ("&mutself" if tm["recv"] == "mut" else "&self"):
        raise Untranslatable("%s: receiver %r" % (name, params[0] if params else ""))
    env, state, got, names = {}, [], [], []
    mparam = None
    for prm in params[1:]:
        pm = re.match(r"(mut\s+)?(\w+)\s*:\s*(.+)$", prm, re.S)
        if not pm:
            raise Untranslatable("%s: parameter %r" % (name, prm))
        x = pm.group(2)
        tytxt = re.sub(r"\s+", "", re.sub(r"&\s*'\w+\s*", "&", pm.group(3)))
        t = F.rust_type(pm.group(3), {}, aliases, talias)
        got.append(t)
        names.append(x)
        if t == "mref":
            if not tytxt.startswith("&mut"):
                raise Untranslatable("%s: the model is not taken by &mut" % name)
            if mparam is not None:
                raise Untranslatable("%s: two models" % name)
            mparam = x
            env[x] = ["mref", True]
        elif t == "filter":
            env[x] = ["filter", False]
        else:
            env[x] = [t, bool(pm.group(1))]
    if tuple(got) != tuple(ptys):
        raise Untranslatable("%s: parameter types %s differ from the trait's" % (name, ", ".join(F.tyname(t) for t in got)))
    rt = F.rust_type(ret_txt, {}, aliases, talias) if ret_txt is not None else "unit"
    if rt != ret:
        raise Untranslatable("%s: return type %s differs from the trait's" % (name, ret_txt))
    binders = []
    if mparam is not None:
        binders.append("(st_m : model)")
        state.append(mparam)
    binders += null_binders(ptys, names)
    ctx = {"aliases": aliases, "talias": talias, "generics": {}, "fields": [], "methods": {}, "free_fns": {}}
    p = F.SPF(F.slex(body.strip()[1:-1]))
    blk_ast = p.seq("}")
    if p.peek()[0] != "eof":
        raise Untranslatable("%s: trailing tokens" % name)
    del F.NILS[:]
    em = F.EmitF(ret, state, mparam, ctx)
    em.cur_env = env
    term = F.fill_nils(em.function(blk_ast, dict(env)))
    return "Definition gen_null_%s %s: option %s :=\n rs_fn %s.\n" % (
        name, "".join(b + " " for b in binders), null_result_ty(ptys, tm["recv"], ret), term)


def null_stub(tm, tsig):
    ptys, ret = tsig
    binders = (["(st_m : model)"] if "mref" in ptys else []) + null_binders(ptys, [n for n, _t in tm["params"]])
    return "Definition gen_null_%s %s: option %s := None.\n" % (
        tm["name"], "".join(b + " " for b in binders), null_result_ty(ptys, tm["recv"], ret))


# the signatures PinChecks/PcMiscGen.v is written against (used for the stubs when the trait itself cannot be read)
NULL_FALLBACK = (
    ("load_policy", "(st_m : model) ", "(model * (res casbin_error unit))"),
    ("load_filtered_policy", "(st_m : model) (v_f_p : list text) (v_f_g : list text) ", "(model * (res casbin_error unit))"),
    ("save_policy", "(st_m : model) ", "(model * (res casbin_error unit))"),
    ("clear_policy", "", "(res casbin_error unit)"),
    ("is_filtered", "", "bool"),
    ("add_policy", "(v_sec : text) (v_ptype : text) (v_rule : list text) ", "(res casbin_error bool)"),
    ("add_policies", "(v_sec : text) (v_ptype : text) (v_rules : list rule) ", "(res casbin_error bool)"),
    ("remove_policy", "(v_sec : text) (v_ptype : text) (v_rule : list text) ", "(res casbin_error bool)"),
    ("remove_policies", "(v_sec : text) (v_ptype : text) (v_rules : list rule) ", "(res casbin_error bool)"),
    ("remove_filtered_policy", "(v_sec : text) (v_ptype : text) (v_field_index : nat) (v_field_values : list text) ",
     "(res casbin_error bool)"),
)


def generate_null(out):
    ok = True
    try:
        tsrc = source(AM)
        aliases, talias = F.use_aliases(tsrc), F.type_aliases(tsrc)
        methods = trait_methods(tsrc, "Adapter")
        sigs = [null_signature(tm, aliases, talias) for tm in methods]
    except Exception as ex:   # noqa
        out.append("(* trait Adapter (%s) could not be read: %s *)" % (AM, comment_safe(ex)))
        for name, binders, ty in NULL_FALLBACK:
            out.append("Definition gen_null_%s %s: option %s := None.\n" % (name, binders, ty))
        out.append("Definition gen_null_methods : list text := [].\n")
        return False
    for tm, tsig in zip(methods, sigs):
        try:
            if tm["provided"]:
                raise Untranslatable("%s has a provided body in the trait" % tm["name"])
            txt = translate_null_method(tm, tsig)
            out.append("(* %s, impl Adapter for NullAdapter %s *)" % (NA, tm["name"]))
            out.append(txt)
        except Exception as ex:   # noqa
            ok = False
            out.append("(* translation of NullAdapter::%s failed: %s *)" % (tm["name"], comment_safe(ex)))
            out.append(null_stub(tm, tsig))
    out.append("(* the methods `trait Adapter` (%s) declares, in its order *)" % AM)
    out.append("Definition gen_null_methods : list text := [%s].\n" % "; ".join(R.coq_text(tm["name"]) for tm in methods))
    return ok


# ====================================================================== B-D. the typed emitter
class NeedFlow(Exception):
    pass


class TV:
    """a type variable (an unannotated `let x = HashMap::new()`)"""

    def __init__(self):
        self.t = None


def res(t):
    while isinstance(t, TV) and t.t is not None:
        t = t.t
    if isinstance(t, tuple):
        return tuple(res(x) if isinstance(x, (tuple, TV)) else x for x in t)
    return t


def unify(a, b):
    a, b = res(a), res(b)
    if isinstance(a, TV):
        if a is not b:
            a.t = b
        return True
    if isinstance(b, TV):
        b.t = a
        return True
    if isinstance(a, tuple) and isinstance(b, tuple):
        return len(a) == len(b) and all(
            (unify(x, y) if isinstance(x, (tuple, TV)) or isinstance(y, (tuple, TV)) else x == y) for x, y in zip(a, b))
    return a == b


def tyname(t):
    t = res(t)
    if isinstance(t, TV):
        return "_"
    if isinstance(t, tuple):
        return "%s<%s>" % (t[0], ", ".join(tyname(x) for x in t[1:]))
    return str(t)


OSET = ("set", ("vec", "text"))
STRUCTS = {
    # Rust struct -> (Coq record, [(field, projection, setter, type)])
    "FunctionMap": ("function_map", [("fm", "fm_fm", "set_fm_fm", ("hm", "text", "opfn"))]),
    "Assertion": ("gen_assertion", [("key", "ga_key", "set_ga_key", "text"), ("value", "ga_value", "set_ga_value", "text"),
                                    ("tokens", "ga_tokens", "set_ga_tokens", ("vec", "text")),
                                    ("policy", "ga_policy", "set_ga_policy", OSET), ("rm", "ga_rm", "set_ga_rm", "rmh")]),
}
STRUCT_FILES = {"FunctionMap": FM, "Assertion": AS}


def coq_ty(t):
    t = res(t)
    if isinstance(t, TV):
        raise Untranslatable("a type that nothing determines")
    simple = {"text": "text", "bool": "bool", "nat": "nat", "unit": "unit", "opfn": "operator_function", "engine": "engine",
              "rmh": "rm_handle", "json": "json", "enforcer": "renf", "dynmodel": "modeldef", "amap": "amap",
              "smap": "model", "assertion_m": "assertion", "dyn": "eres", "serde_err": "serde_error", "dynerr": "dyn_error"}
    if t in simple:
        return simple[t]
    if t[0] == "fnptr":
        return "fnptr"
    if t[0] == "struct":
        return STRUCTS[t[1]][0]
    if t[0] in ("vec", "set", "iter"):
        return "list %s" % coq_ty_atom(t[1])
    if t[0] == "hm":
        return "list (%s * %s)" % (coq_ty_atom(t[1]), coq_ty_atom(t[2]))
    if t[0] == "pair":
        return "(%s * %s)" % (coq_ty_atom(t[1]), coq_ty_atom(t[2]))
    if t[0] == "opt":
        return "option %s" % coq_ty_atom(t[1])
    if t[0] == "res":
        return "res %s %s" % (coq_ty_atom(t[2]), coq_ty_atom(t[1]))
    if t[0] == "place":
        return "place %s %s" % (coq_ty_atom(t[1]), coq_ty_atom(t[2]))
    raise Untranslatable("no Coq type for %s" % tyname(t))


def coq_ty_atom(t):
    s = coq_ty(t)
    return s if " " not in s or s.startswith("(") else "(%s)" % s


def eqb_of(t):
    t = res(t)
    if t == "text":
        return "teqb"
    raise Untranslatable("a HashMap with keys of type %s" % tyname(t))


def flat(s):
    return re.sub(r"\s+", "", s)


def split_generic(s):
    """'A<B,C>' -> ('A', ['B', 'C']) on flattened type text"""
    m = re.match(r"([\w:]+)<(.*)>$", s)
    if not m:
        return s, []
    return m.group(1), [flat(x) for x in split_params(m.group(2))]


MUTREF = r"&mut(?=[A-Z(\[]|dyn[A-Z]|str$|usize$|bool$)"


def rust_type(txt, selfty=None):
    """-> (type, reference kind: None | 'shared' | 'mut')"""
    s = flat(re.sub(r"&\s*'\w+\s*", "&", txt))
    ref = None
    if re.match(MUTREF, s):
        ref, s = "mut", s[4:]
    elif s.startswith("&"):
        ref, s = "shared", s[1:]
    return rust_type_inner(s, selfty), ref


def rust_type_inner(s, selfty):
    if re.match(MUTREF, s):
        s = s[4:]
    elif s.startswith("&"):
        s = s[1:]
    if s in ("str", "String"):
        return "text"
    if s == "usize":
        return "nat"
    if s == "bool":
        return "bool"
    if s == "()":
        return "unit"
    if s == "OperatorFunction":
        return "opfn"
    if s == "Engine":
        return "engine"
    if s == "Enforcer":
        return "enforcer"
    if s == "dynModel":
        return "dynmodel"
    if s == "Self":
        if selfty is None:
            raise Untranslatable("Self outside an impl")
        return ("struct", selfty)
    if s in STRUCTS:
        return ("struct", s)
    if s in ("Value", "serde_json::Value"):
        return "json"
    m = re.match(r"fn\((.*)\)->Dynamic$", s)
    if m:
        ps = [p for p in split_params(m.group(1)) if p]
        if any(p != "ImmutableString" for p in ps):
            raise Untranslatable("fn type %s: a parameter that is not ImmutableString" % s)
        return ("fnptr", len(ps))
    head, args = split_generic(s)
    if head == "Vec" and len(args) == 1:
        return ("vec", rust_type_inner(args[0], selfty))
    if head in ("HashMap", "std::collections::HashMap") and len(args) == 2:
        return ("hm", rust_type_inner(args[0], selfty), rust_type_inner(args[1], selfty))
    if head == "LinkedHashSet" and len(args) == 1:
        return ("set", rust_type_inner(args[0], selfty))
    if head == "Option" and len(args) == 1:
        return ("opt", rust_type_inner(args[0], selfty))
    if s == "Arc<RwLock<dynRoleManager>>":
        return "rmh"
    m = re.match(r"implIterator<Item=\((.*)\)>$", s)
    if m:
        parts = [rust_type_inner(p, selfty) for p in split_params(m.group(1))]
        if len(parts) != 2:
            raise Untranslatable("iterator item " + s)
        return ("iter", ("pair", parts[0], parts[1]))
    m = re.match(r"\((.*)\)$", s)
    if m:
        parts = [rust_type_inner(p, selfty) for p in split_params(m.group(1))]
        if len(parts) == 2:
            return ("pair", parts[0], parts[1])
    if s in ("Result<String,Box<dynstd::error::Error>>", "Result<String,Box<dynError>>"):
        return ("res", "text", "dynerr")
    raise Untranslatable("type " + s)


def struct_decl(name):
    """the fields of `struct name { .. }` as declared -> [(field, type)]; checked against STRUCTS"""
    src = pins.strip_rust_comments(source(STRUCT_FILES[name]))
    m = re.search(r"\bstruct\s+%s\s*\{" % name, src)
    if not m:
        raise Untranslatable("struct %s { .. } not found" % name)
    body = pins.balanced(src, m.end() - 1)
    fields = []
    for part in split_params(body[1:-1]):
        if not part:
            continue
        fm = re.match(r"(?:#\[[^\]]*\]\s*)*(?:pub(?:\([^)]*\))?\s+)?(\w+)\s*:\s*(.+)$", part, re.S)
        if not fm:
            raise Untranslatable("field %r of %s" % (part, name))
        fields.append((fm.group(1), rust_type(fm.group(2), name)[0]))
    want = [(f, t) for f, _p, _s, t in STRUCTS[name][1]]
    if [(f, res(t)) for f, t in fields] != want:
        raise Untranslatable("struct %s: fields %s (the record %s has %s)" % (
            name, ", ".join("%s: %s" % (f, tyname(t)) for f, t in fields), STRUCTS[name][0],
            ", ".join("%s: %s" % (f, tyname(t)) for f, t in want)))
    return fields


def enum_operator_function():
    """enum OperatorFunction { ArgN(fn(ImmutableString, ..) -> Dynamic), .. } -> [(variant, number of parameters)]"""
    src = pins.strip_rust_comments(source(FM))
    m = re.search(r"\benum\s+OperatorFunction\s*\{", src)
    if not m:
        raise Untranslatable("enum OperatorFunction not found")
    body = pins.balanced(src, m.end() - 1)
    out = []
    for part in split_params(body[1:-1]):
        if not part:
            continue
        vm = re.match(r"(\w+)\s*\((.*)\)$", part, re.S)
        if not vm:
            raise Untranslatable("variant %r of OperatorFunction" % part)
        t = rust_type_inner(flat(vm.group(2)).rstrip(","), None)
        if not (isinstance(t, tuple) and t[0] == "fnptr"):
            raise Untranslatable("variant %s of OperatorFunction does not carry a fn" % vm.group(1))
        out.append((vm.group(1), t[1]))
    return out


def callee_registry(gen_dir):
    """the matcher functions translated by parts 2 and 16: Rust name -> (Coq name, number of text parameters, result)"""
    out = {}
    for fname in ("StrFnGen.v", "FmapGen.v"):
        try:
            txt = open(os.path.join(gen_dir, fname), encoding="utf-8").read()
        except OSError:
            continue
        for m in re.finditer(r"^Definition gen_(\w+)((?:\s*\(\w+ : text\))+)\s*:\s*(bool|text|option bool|option text)\s*:=", txt, re.M):
            out[m.group(1)] = ("gen_" + m.group(1), len(re.findall(r"\(\w+ : text\)", m.group(2))), m.group(3))
    return out


INTO_DYN = {"bool": "dyn_bool", "text": "dyn_str", "option bool": "dyn_obool", "option text": "dyn_otext"}
IDENTITY = ("clone", "to_owned", "to_string", "as_str", "as_ref", "as_mut", "borrow", "borrow_mut", "into_iter")
MUTATOR_NAMES = ("insert", "remove", "register_fn", "push", "extend", "clear", "or_insert", "or_insert_with", "push_str")


class Val:
    def __init__(self, t, term, partial=False):
        self.t = t
        self.term = term
        self.partial = partial      # term : option <t>, None = a panic


class Var:
    def __init__(self, t, term, mut):
        self.t = t
        self.term = term
        self.mut = mut


class Emit:
    def __init__(self, tr, selfty, mode, ret):
        self.tr = tr
        self.selfty = selfty
        self.mode = mode            # "pure" | "flow"
        self.ret = ret              # return type of the function
        self.n = 0
        self.extra = []             # extra binders the body needs (order, dynamic dispatch)

    # ---- helpers
    def fresh(self, base):
        self.n += 1
        return "%s_%d" % (base, self.n)

    def panic(self):
        if self.mode == "pure":
            raise NeedFlow()
        return "LPanic"

    def need(self, binder):
        if binder not in self.extra:
            self.extra.append(binder)

    def bind_partial(self, v, k):
        """k(term of the value) with a partial value bound first"""
        if not v.partial:
            return k(v.term)
        x = self.fresh("px")
        return "(match %s with\n| Some %s =>\n%s\n| None => %s\nend)" % (v.term, x, k(x), self.panic())

    def pure(self, e, env, want=None, what="an operand"):
        v = self.ex(e, env, want)
        if v.partial:
            raise Untranslatable("%s that can panic, inside an expression" % what)
        return v

    def want(self, v, t, what):
        if not unify(v.t, t):
            raise Untranslatable("%s: a %s where a %s is expected" % (what, tyname(v.t), tyname(t)))
        return v

    # ---- places
    def place(self, e, env):
        """a variable or a field of a variable -> (root name, getter term, setter: new value term -> new root term, type)"""
        while e[0] in ("ref", "deref"):
            e = e[1]
        if e[0] == "var":
            if e[1] not in env:
                raise Untranslatable("unknown variable %s" % e[1])
            v = env[e[1]]
            return e[1], v.term, (lambda new: new), v.t
        if e[0] == "field":
            root, get, setr, t = self.place(e[1], env)
            t = res(t)
            if not (isinstance(t, tuple) and t[0] == "struct"):
                raise Untranslatable("field .%s of a %s" % (e[2], tyname(t)))
            for f, proj, setter, ft in STRUCTS[t[1]][1]:
                if f == e[2]:
                    return root, "(%s %s)" % (proj, get), (lambda new, s=setter, g=get, up=setr: up("(%s %s %s)" % (s, g, new))), ft
            raise Untranslatable("%s has no field %s" % (t[1], e[2]))
        raise Untranslatable("not a place: %s" % e[0])

    def rebind(self, root, newterm, env, k):
        v = env[root]
        if not v.mut:
            raise Untranslatable("%s is mutated but not declared `mut` / taken by &mut" % root)
        env2 = dict(env)
        env2[root] = Var(v.t, v.term, True)
        return "(let %s := %s in\n%s)" % (v.term, newterm, k(env2))

    # ---- mutating calls, as statements
    def mutation(self, e, env):
        """e = a call that mutates a place -> (root, new root term, [partial values to bind first]) or None"""
        if e[0] != "mcall":
            return None
        recv, name, args = e[1], e[2], e[3]
        # m.entry(k).or_insert(v)
        if name == "or_insert" and recv[0] == "mcall" and recv[2] == "entry" and len(recv[3]) == 1 and len(args) == 1:
            root, get, setr, t = self.place(recv[1], env)
            t = res(t)
            if not (isinstance(t, tuple) and t[0] == "hm"):
                raise Untranslatable(".entry() on a %s" % tyname(t))
            kv = self.want(self.pure(recv[3][0], env, t[1]), t[1], "key of entry()")
            vv = self.want(self.pure(args[0], env, t[2]), t[2], "value of or_insert()")
            return root, setr("(hm_or_insert %s %s %s %s)" % (eqb_of(t[1]), get, kv.term, vv.term))
        if name not in MUTATOR_NAMES:
            return None
        root, get, setr, t = self.place(recv, env)
        t = res(t)
        if isinstance(t, tuple) and t[0] == "hm" and name == "insert" and len(args) == 2:
            kv = self.want(self.pure(args[0], env, t[1]), t[1], "key of insert()")
            vv = self.want(self.pure(args[1], env, t[2]), t[2], "value of insert()")
            return root, setr("(Enforcer2Rt.hm_insert %s %s %s %s)" % (eqb_of(t[1]), get, kv.term, vv.term))
        if isinstance(t, tuple) and t[0] == "hm" and name == "remove" and len(args) == 1:
            kv = self.want(self.pure(args[0], env, t[1]), t[1], "key of remove()")
            return root, setr("(Enforcer2Rt.hm_remove %s %s %s)" % (eqb_of(t[1]), get, kv.term))
        if isinstance(t, tuple) and t[0] == "hm" and name == "clear" and not args:
            return root, setr("(Enforcer2Rt.hm_clear %s)" % get)
        if t == "engine" and name == "register_fn" and len(args) == 2:
            kv = self.want(self.pure(args[0], env, "text"), "text", "name given to register_fn")
            fv = self.pure(args[1], env)
            ft = res(fv.t)
            if not (isinstance(ft, tuple) and ft[0] == "fnptr"):
                raise Untranslatable("register_fn with a %s" % tyname(ft))
            return root, setr("(eng_register_fn %s %s %d (FnOp %s))" % (get, kv.term, ft[1], fv.term))
        if isinstance(t, tuple) and t[0] == "vec" and name == "push" and len(args) == 1:
            xv = self.want(self.pure(args[0], env, t[1]), t[1], "argument of push()")
            return root, setr("(rs_push %s %s)" % (get, xv.term))
        if isinstance(t, tuple) and t[0] == "vec" and name == "extend" and len(args) == 1:
            xv = self.pure(args[0], env, t)
            xt = res(xv.t)
            if not (isinstance(xt, tuple) and xt[0] in ("vec", "iter", "set") and unify(xt[1], t[1])):
                raise Untranslatable("extend() with a %s" % tyname(xt))
            return root, setr("(rs_vec_extend %s %s)" % (get, xv.term))
        if isinstance(t, tuple) and t[0] == "vec" and name == "clear" and not args:
            return root, setr("[]")
        raise Untranslatable(".%s() on a %s (as a statement)" % (name, tyname(t)))

    # ---- expressions
    def ex(self, e, env, want=None):
        k = e[0]
        if k == "str":
            return Val("text", R.coq_text(e[1]))
        if k == "int":
            return Val("nat", str(e[1]))
        if k == "bool":
            return Val("bool", e[1])
        if k == "var":
            if e[1] not in env:
                raise Untranslatable("unknown variable %s" % e[1])
            v = env[e[1]]
            return Val(v.t, v.term)
        if k in ("ref", "deref"):
            return self.ex(e[1], env, want)
        if k == "field":
            _root, get, _setr, t = self.place(e, env)
            return Val(t, get)
        if k == "tuple":
            if not e[1]:
                return Val("unit", "tt")
            if len(e[1]) == 2:
                a, b = self.pure(e[1][0], env), self.pure(e[1][1], env)
                return Val(("pair", a.t, b.t), "(%s, %s)" % (a.term, b.term))
            raise Untranslatable("a tuple of %d components" % len(e[1]))
        if k == "not":
            v = self.want(self.pure(e[1], env, "bool"), "bool", "operand of !")
            return Val("bool", "(negb %s)" % v.term)
        if k == "bin":
            return self.binop(e, env)
        if k == "vec":
            elt = TV()
            if want is not None:
                w = res(want)
                if isinstance(w, tuple) and w[0] == "vec":
                    elt = w[1]
            items = [self.want(self.pure(x, env, elt), elt, "element of vec![]") for x in e[1]]
            if not items:
                return Val(("vec", elt), "[]")
            return Val(("vec", elt), "[%s]" % "; ".join(v.term for v in items))
        if k == "struct":
            return self.struct_lit(e, env)
        if k == "path":
            return self.path(e, env, want)
        if k == "call":
            return self.call(e, env, want)
        if k == "mcall":
            return self.mcall(e, env, want)
        if k == "closure":
            return self.closure(e, env, want)
        if k == "try":
            raise Untranslatable("`?` inside an expression (only as `let x = e?;` / `e?;`)")
        if k == "await":
            return self.ex(e[1], env, want)
        if k == "block":
            stmts, final = e[1]
            if not stmts and final is not None:
                return self.ex(final, env, want)
            raise Untranslatable("a block with statements as an operand")
        if k == "if":
            c = self.want(self.pure(e[1], env, "bool"), "bool", "condition")
            if e[3] is None:
                raise Untranslatable("`if` without else as a value")
            a = self.block_value(e[2], env, want)
            b = self.block_value(e[3], env, want)
            self.want(b, a.t, "else branch")
            return Val(a.t, "(if %s then %s else %s)" % (c.term, a.term, b.term))
        raise Untranslatable("expression %s" % k)

    def block_value(self, blk, env, want):
        stmts, final = blk
        if stmts or final is None:
            raise Untranslatable("a branch with statements, as a value")
        return self.pure(final, env, want)

    def binop(self, e, env):
        op, a, b = e[1], e[2], e[3]
        if op in ("&&", "||"):
            x = self.want(self.pure(a, env, "bool"), "bool", "operand of " + op)
            y = self.want(self.pure(b, env, "bool"), "bool", "operand of " + op)
            return Val("bool", "(%s %s %s)" % ("andb" if op == "&&" else "orb", x.term, y.term))
        x, y = self.pure(a, env), self.pure(b, env)
        if not unify(x.t, y.t):
            raise Untranslatable("%s between a %s and a %s" % (op, tyname(x.t), tyname(y.t)))
        t = res(x.t)
        if op in ("==", "!="):
            if t == "text":
                term = "(teqb %s %s)" % (x.term, y.term)
            elif t == "nat":
                term = "(Nat.eqb %s %s)" % (x.term, y.term)
            elif t == "bool":
                term = "(Bool.eqb %s %s)" % (x.term, y.term)
            else:
                raise Untranslatable("== on %s" % tyname(t))
            return Val("bool", term if op == "==" else "(negb %s)" % term)
        if t == "nat" and op in ("<", "<=", ">", ">="):
            f, l, r = {"<": ("Nat.ltb", x, y), "<=": ("Nat.leb", x, y), ">": ("Nat.ltb", y, x), ">=": ("Nat.leb", y, x)}[op]
            return Val("bool", "(%s %s %s)" % (f, l.term, r.term))
        raise Untranslatable("operator %s on %s" % (op, tyname(t)))

    def struct_lit(self, e, env):
        name = self.selfty if e[1] == "Self" else e[1]
        if name not in STRUCTS:
            raise Untranslatable("struct literal %s" % e[1])
        self.tr.check_struct(name)
        rec, fields = STRUCTS[name]
        given = dict()
        for f, fe in e[2]:
            if f in given:
                raise Untranslatable("field %s given twice" % f)
            given[f] = fe
        parts = []
        for f, proj, _setter, ft in fields:
            if f not in given:
                raise Untranslatable("%s { .. } without the field %s" % (name, f))
            v = self.want(self.pure(given.pop(f), env, ft), ft, "field %s" % f)
            parts.append("%s := %s" % (proj, v.term))
        if given:
            raise Untranslatable("%s has no field %s" % (name, sorted(given)[0]))
        return Val(("struct", name), "{| %s |}" % "; ".join(parts))

    def path(self, e, env, want):
        name, args = e[1], e[2]
        if args is None:
            if name == "None":
                return Val(("opt", TV()), "None")
            if name in ("Self", self.selfty) and name in STRUCTS and not STRUCTS[name][1]:
                return Val(("struct", name), "tt")
            raise Untranslatable("path %s" % name)
        n = len(args)
        if name in ("HashMap::new", "std::collections::HashMap::new") and n == 0:
            t = ("hm", TV(), TV())
            if want is not None:
                unify(t, want)
            return Val(t, "Enforcer2Rt.hm_new")
        if name == "String::new" and n == 0:
            return Val("text", "([] : text)")
        if name in ("String::from",) and n == 1:
            return self.want(self.pure(args[0], env, "text"), "text", "argument of " + name)
        if name == "Vec::new" and n == 0:
            t = ("vec", TV())
            if want is not None:
                unify(t, want)
            return Val(t, "[]")
        if name == "LinkedHashSet::new" and n == 0:
            t = ("set", TV())
            if want is not None:
                unify(t, want)
            return Val(t, "[]")
        if name == "DefaultRoleManager::new" and n == 1:
            v = self.want(self.pure(args[0], env, "nat"), "nat", "argument of DefaultRoleManager::new")
            return Val("drm", v.term)
        if name == "RwLock::new" and n == 1:
            v = self.pure(args[0], env)
            if res(v.t) == "drm":
                return Val("lock_drm", v.term)
            return v
        if name in ("Arc::new", "Box::new") and n == 1:
            v = self.pure(args[0], env, want)
            if name == "Arc::new" and res(v.t) == "lock_drm":
                return Val("rmh", "(RmFresh %s)" % v.term)
            return v
        if name == "Arc::clone" and n == 1:
            return self.pure(args[0], env, want)
        if name in ("Some", "Ok") and n == 1:
            if name == "Some":
                v = self.pure(args[0], env)
                return Val(("opt", v.t), "(Some %s)" % v.term)
            rt = res(self.ret)
            if not (isinstance(rt, tuple) and rt[0] == "res"):
                raise Untranslatable("Ok(..) in a function that does not return a Result")
            v = self.want(self.pure(args[0], env, rt[1]), rt[1], "argument of Ok")
            return Val(rt, "(ROk %s)" % v.term)
        m = re.match(r"OperatorFunction::(\w+)$", name)
        if m and n == 1:
            variants = dict(self.tr.variants())
            if m.group(1) not in variants:
                raise Untranslatable("OperatorFunction has no variant %s" % m.group(1))
            pt = ("fnptr", variants[m.group(1)])
            v = self.want(self.pure(args[0], env, pt), pt, "payload of %s" % name)
            return Val("opfn", "(%s %s)" % (m.group(1), v.term))
        if name in ("Value::from", "serde_json::Value::from") and n == 1:
            v = self.pure(args[0], env)
            t = res(v.t)
            if t == "text":
                return Val("json", "(json_of_string %s)" % v.term)
            if unify(t, ("vec", ("vec", "text"))):
                return Val("json", "(json_of_rows %s)" % v.term)
            raise Untranslatable("Value::from(%s)" % tyname(t))
        if name == "serde_json::to_string" and n == 1:
            v = self.pure(args[0], env)
            if not unify(v.t, ("hm", "text", "json")):
                raise Untranslatable("serde_json::to_string(%s)" % tyname(v.t))
            self.need("(ord : list (text * json) -> list (text * json))")
            return Val(("res", "text", "serde_err"), "(serde_to_string ord %s)" % v.term)
        if name.endswith("::default") and n == 0 and name[:-9] in STRUCTS:
            gen = self.tr.default_of(name[:-9])
            return Val(("struct", name[:-9]), gen)
        raise Untranslatable("call of %s" % name)

    def call(self, e, env, want):
        f, args = e[1], e[2]
        if f[0] == "var" and f[1] in self.tr.callees and f[1] not in env:
            coq, n, rty = self.tr.callees[f[1]]
            if len(args) != n:
                raise Untranslatable("%s with %d arguments" % (f[1], len(args)))
            vs = [self.want(self.pure(a, env, "text"), "text", "argument of " + f[1]) for a in args]
            return Val(("crate_ret", rty), "(%s %s)" % (coq, " ".join(v.term for v in vs)))
        raise Untranslatable("call of %s" % (f[1] if f[0] == "var" else f[0]))

    def mcall(self, e, env, want):
        recv, name, args = e[1], e[2], e[3]
        if name == "into" and not args:
            v = self.pure(recv, env)
            t = res(v.t)
            if isinstance(t, tuple) and t[0] == "crate_ret":
                return Val("dyn", "(%s %s)" % (INTO_DYN[t[1]], v.term))
            return v
        if name in MUTATOR_NAMES:
            raise Untranslatable(".%s() as a value (only as a statement)" % name)
        v = self.pure(recv, env)
        t = res(v.t)
        n = len(args)
        if name in IDENTITY and n == 0:
            return v
        if name == "iter" and n == 0:
            if isinstance(t, tuple) and t[0] == "hm":
                return Val(("iter", ("pair", t[1], t[2])), "(rs_hm_iter %s)" % v.term)
            if isinstance(t, tuple) and t[0] in ("vec", "set", "iter"):
                return Val(("iter", t[1]), v.term)
            if t == "amap":
                return Val(("iter", ("pair", "text", "assertion_m")), v.term)
        if isinstance(t, tuple) and t[0] == "hm" and name == "get" and n == 1:
            kv = self.want(self.pure(args[0], env, t[1]), t[1], "key of get()")
            return Val(("opt", t[2]), "(Enforcer2Rt.hm_get %s %s %s)" % (eqb_of(t[1]), v.term, kv.term))
        if isinstance(t, tuple) and t[0] == "hm" and name == "contains_key" and n == 1:
            kv = self.want(self.pure(args[0], env, t[1]), t[1], "key of contains_key()")
            return Val("bool", "(hm_contains_key %s %s %s)" % (eqb_of(t[1]), v.term, kv.term))
        if isinstance(t, tuple) and t[0] in ("vec", "set") and name == "len" and n == 0:
            return Val("nat", "(length %s)" % v.term)
        if isinstance(t, tuple) and t[0] in ("vec", "set") and name == "is_empty" and n == 0:
            return Val("bool", "(Nat.eqb (length %s) 0)" % v.term)
        # src/enforcer.rs / src/model: dynamic dispatch through the enforcer
        if t == "enforcer" and name == "get_model" and n == 0:
            self.tr.check_core_get_model()
            return Val("dynmodel", "(r_model %s)" % v.term)
        if t == "dynmodel" and name == "get_model" and n == 0:
            return Val("smap", "(d_model %s)" % v.term)
        if t == "dynmodel" and name == "to_text" and n == 0:
            self.need("(dyn_to_text : modeldef -> text)")
            return Val("text", "(dyn_to_text %s)" % v.term)
        if t == "dynmodel" and name == "get_policy" and n == 2:
            a = self.want(self.pure(args[0], env, "text"), "text", "section")
            b = self.want(self.pure(args[1], env, "text"), "text", "policy type")
            return Val(("vec", ("vec", "text")), "(Model2Gen.gen_m_get_policy (d_model %s) %s %s)" % (v.term, a.term, b.term), True)
        if t == "smap" and name == "get" and n == 1:
            a = self.want(self.pure(args[0], env, "text"), "text", "section")
            return Val(("opt", "amap"), "(Enforcer2Rt.rs_map_get %s %s)" % (v.term, a.term))
        if isinstance(t, tuple) and t[0] == "struct" and t[1] == "Assertion" and name in ("get_policy",) and n == 0:
            return Val(OSET, "(ga_policy %s)" % v.term)
        raise Untranslatable(".%s() on a %s" % (name, tyname(t)))

    def closure(self, e, env, want):
        w = res(want) if want is not None else None
        if not (isinstance(w, tuple) and w[0] == "fnptr"):
            raise Untranslatable("a closure that is not the payload of an OperatorFunction")
        params, body, move = e[1], e[2], e[3]
        if move:
            raise Untranslatable("a `move` closure as a fn pointer")
        if len(params) != w[1]:
            raise Untranslatable("a closure with %d parameters where fn of %d parameters is expected" % (len(params), w[1]))
        names = []
        for pn, ty in params:
            if ty not in (None, "ImmutableString"):
                raise Untranslatable("closure parameter %s: %s" % (pn, ty))
            if pn in names:
                raise Untranslatable("closure parameter %s twice" % pn)
            names.append(pn)
        while body[0] == "block" and not body[1][0] and body[1][1] is not None:
            body = body[1][1]
        cenv = {pn: Var("text", "v_" + pn, False) for pn in names}     # a fn pointer captures nothing
        inner = body
        if not (inner[0] == "mcall" and inner[2] == "into" and not inner[3]):
            raise Untranslatable("the closure does not end in .into()")
        callee = inner[1]
        if not (callee[0] == "call" and callee[1][0] == "var"):
            raise Untranslatable("the closure does not call a function of function_map.rs")
        sub = Emit(self.tr, None, "pure", "dyn")
        v = sub.pure(inner, cenv)
        if res(v.t) != "dyn":
            raise Untranslatable("the closure does not produce a Dynamic")
        ptr = "(closure_ptr %s)" % R.coq_text(callee[1][1])
        self.tr.closures.append((ptr, names, v.term))
        return Val(w, ptr)

    # ---- statements
    def assigned(self, blk):
        """the variables a block may rebind (roots of mutating calls and of assignments)"""
        out = []

        def root(e):
            while e[0] in ("ref", "deref", "field"):
                e = e[1]
            if e[0] == "mcall" and e[2] == "entry":
                return root(e[1])
            return e[1] if e[0] == "var" else None

        def walk_e(e):
            if not isinstance(e, tuple) or not e:
                return
            if e[0] == "mcall" and e[2] in MUTATOR_NAMES:
                r = root(e[1])
                if r and r not in out:
                    out.append(r)
            if e[0] in ("if", "iflet"):
                for b in (e[-2], e[-1]):
                    if isinstance(b, tuple) and len(b) == 2 and isinstance(b[0], list):
                        walk_b(b)
                    elif b is not None:
                        walk_e(b)
            if e[0] == "match":
                for _p, body in e[2]:
                    walk_e(body)
            if e[0] == "block":
                walk_b(e[1])

        def walk_b(b):
            stmts, final = b
            for st in stmts:
                if st[0] == "assign":
                    r = root(st[1])
                    if r and r not in out:
                        out.append(r)
                elif st[0] in ("expr",):
                    walk_e(st[1])
                elif st[0] == "let":
                    walk_e(st[2])
                elif st[0] == "for":
                    walk_b(st[3])
            if final is not None:
                walk_e(final)
        walk_b(blk)
        return out

    def has_exit(self, blk):
        """may the block leave the function, loop or panic (then it cannot be a plain let)"""
        s = repr(blk)
        return "('ret'," in s or "('try'," in s or "('for'," in s

    def tup(self, names, env):
        terms = [env[x].term for x in names]
        return "tt" if not terms else terms[0] if len(terms) == 1 else "(%s)" % ", ".join(terms)

    def pat_tup(self, names, env):
        terms = [env[x].term for x in names]
        return "_" if not terms else terms[0] if len(terms) == 1 else "'(%s)" % ", ".join(terms)

    def block(self, blk, env, k, tail):
        """k(env, value | None): what follows the block (value = its final expression)"""
        stmts, final = blk
        return self.seq(list(stmts), final, env, k, tail)

    def seq(self, stmts, final, env, k, tail):
        if not stmts:
            if final is None:
                return k(env, None)
            if final[0] in ("if", "iflet", "match", "block"):
                return self.branching(final, env, lambda en, v: k(en, v), tail)
            mu = self.mutation(final, env) if final[0] == "mcall" else None
            if mu is not None:
                return self.rebind(mu[0], mu[1], env, lambda en: k(en, None))
            hoisted = self.hoist_try(final, env, lambda en, e2: self.seq([], e2, en, k, tail))
            if hoisted is not None:
                return hoisted
            v = self.ex(final, env, self.ret if tail else None)
            return self.bind_partial(v, lambda term: k(env, Val(v.t, term)))
        st, rest = stmts[0], stmts[1:]
        last = not rest and final is None

        def cont(en):
            return self.seq(rest, final, en, k, tail)
        kind = st[0]
        if kind == "let":
            return self.let(st, env, cont)
        if kind == "expr":
            e = st[1]
            if e[0] == "try":
                return self.try_(e[1], env, lambda en, v: cont(en))
            if e[0] in ("if", "iflet", "match", "block"):
                return self.branching(e, env, lambda en, v: cont(en), tail and last)
            mu = self.mutation(e, env)
            if mu is not None:
                return self.rebind(mu[0], mu[1], env, cont)
            if e[0] == "tuple" and not e[1]:
                return cont(env)
            v = self.ex(e, env)          # a value that is dropped: it must still be well formed
            return self.bind_partial(v, lambda _t: cont(env))
        if kind == "assign":
            root, _get, setr, t = self.place(st[1], env)
            v = self.ex(st[2], env, t)
            self.want(v, t, "assignment")
            return self.bind_partial(v, lambda term: self.rebind(root, setr(term), env, cont))
        if kind == "ret":
            if st[1] is None:
                return self.finish(env, None)
            if st[1][0] == "try":
                return self.try_(st[1][1], env, lambda en, v: self.finish(en, v))
            hoisted = self.hoist_try(st[1], env, lambda en, e2: self.seq([("ret", e2)], None, en, None, True))
            if hoisted is not None:
                return hoisted
            v = self.ex(st[1], env, self.ret)
            return self.bind_partial(v, lambda term: self.finish(env, Val(v.t, term)))
        if kind == "for":
            return self.for_(st, env, cont)
        raise Untranslatable("statement %s" % kind)

    def let(self, st, env, cont):
        pat, e = st[1], st[2]
        if e[0] == "try":
            return self.try_(e[1], env, lambda en, v: self.bind_pat(pat, v, en, cont))
        if pat[0] == "pwild":
            mu = self.mutation(e, env)
            if mu is not None:
                return self.rebind(mu[0], mu[1], env, cont)
        v = self.ex(e, env)
        return self.bind_partial(v, lambda term: self.bind_pat(pat, Val(v.t, term), env, cont))

    def bind_pat(self, pat, v, env, cont):
        if pat[0] == "pwild":
            return cont(env)
        if pat[0] == "pref":
            return self.bind_pat(pat[1], v, env, cont)
        if pat[0] == "pv":
            x = pat[1]
            env2 = dict(env)
            env2[x] = Var(v.t, "v_" + x, pat[2])
            return "(let v_%s := %s in\n%s)" % (x, v.term, cont(env2))
        if pat[0] == "ptuple" and len(pat[1]) == 2:
            t = res(v.t)
            if not (isinstance(t, tuple) and t[0] == "pair"):
                raise Untranslatable("a pair pattern for a %s" % tyname(t))
            env2 = dict(env)
            names = []
            for p, pt in zip(pat[1], t[1:]):
                while p[0] == "pref":
                    p = p[1]
                if p[0] == "pwild":
                    names.append("_")
                elif p[0] == "pv":
                    if p[1].startswith("_"):
                        names.append("_")
                    else:
                        names.append("v_" + p[1])
                    env2[p[1]] = Var(pt, "v_" + p[1], p[2])
                else:
                    raise Untranslatable("nested pattern")
            return "(let '(%s, %s) := %s in\n%s)" % (names[0], names[1], v.term, cont(env2))
        raise Untranslatable("pattern %s in a let" % pat[0])

    def hoist_try(self, e, env, k):
        """Ok(e?) / f(a, e?): the `?` runs first (the other arguments have no effects); None = nothing to hoist"""
        if e[0] not in ("path", "call") or not e[2]:
            return None
        idx = [i for i, a in enumerate(e[2]) if a[0] == "try"]
        if not idx:
            return None
        if len(idx) > 1:
            raise Untranslatable("two `?` among the arguments of one call")
        i = idx[0]

        def after(en, v):
            name = "?%s" % v.term
            en2 = dict(en)
            en2[name] = Var(v.t, v.term, False)
            args = list(e[2])
            args[i] = ("var", name)
            return k(en2, (e[0], e[1], args))
        return self.try_(e[2][i][1], env, after)

    def try_(self, e, env, k):
        """e? : the function returns the error (converted), or continues with the value"""
        v = self.ex(e, env)
        t = res(v.t)
        rt = res(self.ret)
        if not (isinstance(t, tuple) and t[0] == "res"):
            raise Untranslatable("`?` on a %s" % tyname(t))
        if not (isinstance(rt, tuple) and rt[0] == "res"):
            raise Untranslatable("`?` in a function that does not return a Result")
        if self.mode == "pure":
            raise NeedFlow()
        conv = {("serde_err", "dynerr"): "DynSerde"}
        if res(t[2]) == res(rt[2]):
            err = "e_"
        elif (res(t[2]), res(rt[2])) in conv:
            err = "(%s e_)" % conv[(res(t[2]), res(rt[2]))]
        else:
            raise Untranslatable("`?` from %s to %s" % (tyname(t[2]), tyname(rt[2])))
        x = self.fresh("ok")

        def body(term):
            return "(match %s with\n| ROk %s =>\n%s\n| RErr e_ => (LReturn (RErr %s))\nend)" % (
                term, x, k(env, Val(t[1], x)), err)
        return self.bind_partial(v, body)

    def branching(self, e, env, k, tail):
        """if / if let / match / block as a statement (or as the value of the block in tail position)"""
        if e[0] == "block":
            return self.block(e[1], env, k, tail)
        arms = self.arms(e, env)
        if tail:
            # nothing follows: every arm runs to the end of the function
            parts = []
            for pat, en, blk in arms:
                parts.append("| %s =>\n%s" % (pat, self.arm_body(blk, en, k, True)))
            return self.arms_term(e, env, parts)
        roots = [r for r in self.assigned(([("expr", e)], None)) if r in env]
        for r in roots:
            if not env[r].mut:
                raise Untranslatable("%s is mutated but not declared `mut` / taken by &mut" % r)
        lhs = "_" if not roots else env[roots[0]].term if len(roots) == 1 else "'(%s)" % ", ".join(env[r].term for r in roots)
        if self.mode == "pure":
            # the arms join on the variables they rebind
            if any(self.has_exit(b) for _p, _en, b in arms if b is not None):
                raise NeedFlow()
            parts = []
            for pat, en, blk in arms:
                parts.append("| %s =>\n%s" % (pat, self.arm_body(blk, en, lambda en2, v: self.tup(roots, en2), False)))
            return "(let %s := %s in\n%s)" % (lhs, self.arms_term(e, env, parts), k(env, None))
        parts = []
        for pat, en, blk in arms:
            parts.append("| %s =>\n%s" % (pat, self.arm_body(blk, en, lambda en2, v: "(LNext %s)" % self.tup(roots, en2), False)))
        return "(rs_then %s\n(fun %s =>\n%s))" % (self.arms_term(e, env, parts), lhs if roots else "(_ : unit)", k(env, None))

    def arm_body(self, blk, env, k, tail):
        if blk is None:
            return k(env, None)
        if isinstance(blk, tuple) and len(blk) == 2 and isinstance(blk[0], list):
            return self.block(blk, env, k, tail)
        # an arm that is an expression: `pat => e,`
        return self.seq([], blk, env, k, tail)

    def arms(self, e, env):
        """-> [(Coq pattern, env of the arm, block | expression | None)]"""
        if e[0] == "if":
            return [("true", env, e[2]), ("false", env, e[3])]
        if e[0] == "iflet":
            pat, scrut = e[1], e[2]
            v = self.pure(scrut, env, what="the scrutinee of if let")
            t = res(v.t)
            cp, en = self.ctor_pat(pat, t, env)
            return [(cp, en, e[3]), ("_", env, e[4])]
        if e[0] == "match":
            v = self.pure(e[1], env, what="the scrutinee of match")
            t = res(v.t)
            out, seen, wild = [], [], False
            for pat, body in e[2]:
                if pat[0] == "pwild":
                    out.append(("_", env, body))
                    wild = True
                    break
                cp, en = self.ctor_pat(pat, t, env)
                head = cp.split(" ")[0].lstrip("(")
                if head in seen:
                    raise Untranslatable("two arms for %s" % head)
                seen.append(head)
                out.append((cp, en, body))
            if not wild:
                allv = self.all_ctors(t)
                missing = [c for c in allv if c not in seen]
                if missing:
                    raise Untranslatable("match without an arm for %s" % ", ".join(missing))
            return out
        raise Untranslatable("branching %s" % e[0])

    def all_ctors(self, t):
        if t == "opfn":
            return [v for v, _n in self.tr.variants()]
        if isinstance(t, tuple) and t[0] == "opt":
            return ["Some", "None"]
        if t == "bool":
            return ["true", "false"]
        raise Untranslatable("match on a %s" % tyname(t))

    def ctor_pat(self, pat, t, env):
        while pat[0] == "pref":
            pat = pat[1]
        if pat[0] != "pctor":
            raise Untranslatable("pattern %s" % pat[0])
        name, subs = pat[1], pat[2]
        env2 = dict(env)

        def binder(p, pt):
            while p[0] == "pref":
                p = p[1]
            if p[0] == "pwild":
                return "_"
            if p[0] == "pv":
                env2[p[1]] = Var(pt, "v_" + p[1], p[2])
                return "v_" + p[1]
            raise Untranslatable("nested pattern %s" % p[0])
        m = re.match(r"OperatorFunction::(\w+)$", name)
        if m and t == "opfn":
            variants = dict(self.tr.variants())
            if m.group(1) not in variants or len(subs) != 1:
                raise Untranslatable("pattern %s" % name)
            return "%s %s" % (m.group(1), binder(subs[0], ("fnptr", variants[m.group(1)]))), env2
        if isinstance(t, tuple) and t[0] == "opt":
            if name == "Some" and len(subs) == 1:
                return "Some %s" % binder(subs[0], t[1]), env2
            if name == "None" and not subs:
                return "None", env2
        raise Untranslatable("pattern %s for a %s" % (name, tyname(t)))

    def arms_term(self, e, env, parts):
        if e[0] == "if":
            c = self.want(self.pure(e[1], env, "bool"), "bool", "condition")
            return "(match %s with\n%s\nend)" % (c.term, "\n".join(parts))
        return "(match %s with\n%s\nend)" % (self.scrut_of(e, env), "\n".join(parts))

    def scrut_of(self, e, env):
        return self.pure(e[2] if e[0] == "iflet" else e[1], env).term

    def for_(self, st, env, cont):
        pat, it, body = st[1], st[2], st[3]
        if self.mode == "pure":
            raise NeedFlow()
        v = self.ex(it, env)
        t = res(v.t)
        if t == "amap":
            elt = ("pair", "text", "assertion_m")
        elif isinstance(t, tuple) and t[0] in ("vec", "set", "iter"):
            elt = t[1]
        elif isinstance(t, tuple) and t[0] == "hm":
            raise Untranslatable("a loop over a HashMap (its order is not determined)")
        else:
            raise Untranslatable("a loop over a %s" % tyname(t))
        carried = [r for r in self.assigned(body) if r in env]
        for r in carried:
            if not env[r].mut:
                raise Untranslatable("%s is mutated in a loop but not declared `mut`" % r)
        x = self.fresh("it")

        def run(term):
            inner = self.bind_pat(pat, Val(elt, x), env,
                                  lambda en: self.block(body, en, lambda en2, _v: "(LNext %s)" % self.tup(carried, en2), False))
            return ("(match rs_for (fun %s %s =>\n%s)\n%s %s with\n| Done %s =>\n%s\n| Returned ret_ => LReturn ret_\n| Panicked => LPanic\nend)"
                    % (x, self.pat_tup(carried, env) if carried else "(_ : unit)", inner, term, self.tup(carried, env),
                       self.pat_tup(carried, env).lstrip("'") if carried else "_", cont(env)))
        return self.bind_partial(v, run)

    def finish(self, env, v):
        """the function returns v (None = unit)"""
        return self.tr.finish(self, env, v)


# ---------------------------------------------------------------------- functions
class Translator:
    def __init__(self, gen_dir):
        self.callees = callee_registry(gen_dir)
        self.closures = []
        self._variants = None
        self._structs = {}
        self.defaults = {}

    def variants(self):
        if self._variants is None:
            self._variants = enum_operator_function()
        return self._variants

    def check_struct(self, name):
        if name not in self._structs:
            self._structs[name] = struct_decl(name)

    def check_core_get_model(self):
        """CoreApi::get_model of Enforcer is taken as the field: its body must be `&*self.model`"""
        if getattr(self, "_core_get_model", False):
            return
        f = E2.find_fn(E2.region_of(source(EN), r"impl\s+CoreApi\s+for\s+Enforcer\b"), "get_model")
        stmts, final = E2.parse_block(f["body"], [])
        e = final
        while e is not None and e[0] in ("ref", "deref"):
            e = e[1]
        if stmts or f["recv"] != "&self" or e != ("field", ("var", "self"), "model"):
            raise Untranslatable("Enforcer::get_model is not `&*self.model`")
        self._core_get_model = True

    def default_of(self, name):
        if name not in self.defaults:
            raise Untranslatable("%s::default() is not translated (yet)" % name)
        return self.defaults[name]

    def finish(self, em, env, v):
        spec = em.spec
        rt = res(em.ret)
        state = [env[x].term for x in spec["state"]]
        if spec["shape"] == "place":
            # &mut self.field: the value and the object after a write
            root, get, setr, t = spec["place"]
            p = em.fresh("p")
            term = "(%s, fun %s => %s)" % (get, p, setr(p))
        else:
            if rt == "unit":
                if v is not None and res(v.t) != "unit":
                    raise Untranslatable("a value of type %s where the function returns ()" % tyname(v.t))
                val = None
            else:
                if v is None:
                    raise Untranslatable("the function ends without the value it returns")
                em.want(v, rt, "returned value")
                val = v.term
            parts = state + ([val] if val is not None else [])
            term = "tt" if not parts else parts[0] if len(parts) == 1 else "(%s)" % ", ".join(parts)
        return term if em.mode == "pure" else "(LReturn %s)" % term

    def function(self, rel, impl_re, impl_name, selfty, name, gen):
        """-> (Coq definition, spec)"""
        src = source(rel)
        region = E2.region_of(src, impl_re)
        f = E2.find_fn(region, name)
        if f["generics"]:
            raise Untranslatable("%s: generic parameters" % name)
        env, binders, state = {}, [], []
        if f["recv"] is not None:
            if selfty is None:
                raise Untranslatable("%s: a receiver outside an impl" % name)
            if f["recv"] not in ("&self", "&mutself"):
                raise Untranslatable("%s: receiver %s" % (name, f["recv"]))
            if selfty not in STRUCTS:
                raise Untranslatable("%s: a method of %s" % (name, selfty))
            self.check_struct(selfty)
            env["self"] = Var(("struct", selfty), "self", f["recv"] == "&mutself")
            binders.append("(self : %s)" % STRUCTS[selfty][0])
            if f["recv"] == "&mutself":
                state.append("self")
        for pn, pt in f["params"]:
            t, ref = rust_type(pt, selfty)
            env[pn] = Var(t, "v_" + pn, ref == "mut")
            binders.append("(v_%s : %s)" % (pn, coq_ty(t)))
            if ref == "mut":
                state.append(pn)
        ret, rref = rust_type(f["ret"], selfty) if f["ret"] else ("unit", None)
        dropped = []
        blk = E2.parse_block(f["body"], dropped)
        spec = {"state": state, "shape": "value", "ret": ret}
        if rref == "mut":
            # -> &mut T: the body must be `&mut <place of self>`
            stmts, final = blk
            if stmts or final is None or final[0] != "ref" or not final[2]:
                raise Untranslatable("%s returns &mut but its body is not `&mut place`" % name)
            spec["shape"] = "place"
        last_err = None
        for mode in ("pure", "flow"):
            em = Emit(self, selfty, mode, ret)
            em.spec = spec
            ncl = len(self.closures)
            try:
                if spec["shape"] == "place":
                    spec["place"] = em.place(blk[1], env)
                    if spec["place"][0] != "self" or f["recv"] != "&mutself":
                        raise Untranslatable("%s: the place returned does not belong to &mut self" % name)
                    spec["state"] = []
                    term = self.finish(em, env, None)
                    rty = "place %s %s" % (coq_ty_atom(env["self"].t), coq_ty_atom(spec["place"][3]))
                    if not unify(spec["place"][3], ret):
                        raise Untranslatable("%s: returns a &mut %s" % (name, tyname(spec["place"][3])))
                else:
                    term = em.block(blk, env, lambda en, v: em.finish(en, v), True)
                    stys = [coq_ty_atom(env[x].t) for x in state]
                    parts = stys + ([coq_ty_atom(ret)] if res(ret) != "unit" else [])
                    rty = "unit" if not parts else parts[0] if len(parts) == 1 else "(%s)" % " * ".join(parts)
                break
            except NeedFlow:
                del self.closures[ncl:]
                last_err = None
                continue
        else:
            raise Untranslatable("%s: %s" % (name, last_err or "not translatable in either mode"))
        note = ""
        if dropped:
            note = "(* compiled out: %s *)\n" % "; ".join(comment_safe(d) for d in dropped)
        order = ["(dyn_to_text : modeldef -> text)", "(ord : list (text * json) -> list (text * json))"]
        bs = sorted(em.extra, key=order.index) + binders
        if em.mode == "flow":
            rty = "option %s" % (rty if " " not in rty or rty.startswith("(") else "(%s)" % rty)
            term = "rs_fn %s" % term
        text = "%s(* %s, %s %s *)\nDefinition %s %s: %s :=\n%s.\n" % (
            note, rel, impl_name, name, gen, "".join(b + " " for b in bs), rty, R.i_indent(term))
        return text


# (file, impl header regex | None, how the impl is written in the comment, Self, Rust name, Coq name, stub)
FM_DEFAULT_IMPL = r"impl\s+Default\s+for\s+FunctionMap\b"
FM_IMPL = r"impl\s+FunctionMap\s*(?=\{)"
ENF_IMPL = r"impl\s+Enforcer\s*(?=\{)"
AS_DEFAULT_IMPL = r"impl\s+Default\s+for\s+Assertion\b"
AS_IMPL = r"impl\s+Assertion\s*(?=\{)"
FUNCS = (
    (FM, FM_DEFAULT_IMPL, "impl Default for FunctionMap", "FunctionMap", "default", "gen_fm_default",
     ": function_map := {| fm_fm := [] |}"),
    (FM, FM_IMPL, "impl FunctionMap", "FunctionMap", "add_function", "gen_fm_add_function",
     "(self : function_map) (v_fname : text) (v_f : operator_function) : function_map := self"),
    (FM, FM_IMPL, "impl FunctionMap", "FunctionMap", "get_functions", "gen_fm_get_functions",
     "(self : function_map) : list (text * operator_function) := []"),
    (EN, ENF_IMPL, "impl Enforcer", None, "register_function", "gen_enf_register_function",
     "(v_engine : engine) (v_key : text) (v_f : operator_function) : engine := v_engine"),
    (AS, AS_DEFAULT_IMPL, "impl Default for Assertion", "Assertion", "default", "gen_ast_default",
     ": gen_assertion := {| ga_key := T \"?\"; ga_value := []; ga_tokens := []; ga_policy := []; ga_rm := RmFresh 1 |}"),
    (AS, AS_IMPL, "impl Assertion", "Assertion", "get_policy", "gen_ast_get_policy",
     "(self : gen_assertion) : list (list text) := []"),
    (AS, AS_IMPL, "impl Assertion", "Assertion", "get_mut_policy", "gen_ast_get_mut_policy",
     "(self : gen_assertion) : place gen_assertion (list (list text)) := ([], fun _ => self)"),
    (FE, None, "", None, "casbin_js_get_permission_for_user", "gen_casbin_js_get_permission_for_user",
     "(dyn_to_text : modeldef -> text) (ord : list (text * json) -> list (text * json)) (v_e : renf) (v__user : text) "
     ": option (res dyn_error text) := None"),
)


def fn_bodies(rel):
    """the functions WITH a body outside #[cfg(test)] -> names"""
    src = pins.strip_rust_comments(source(rel))
    cut = src.find("#[cfg(test)]")
    if cut >= 0:
        src = src[:cut]
    out = []
    for m in re.finditer(r"\bfn\s+(\w+)\s*(?:<[^>]*>)?\s*\(", src):
        i = m.end()
        depth, j = 1, i
        while j < len(src) and depth:
            depth += (src[j] == "(") - (src[j] == ")")
            j += 1
        semi, brace = src.find(";", j), src.find("{", j)
        if brace >= 0 and (semi < 0 or brace < semi):
            out.append(m.group(1))
    return out


def generate():
    out = ["(* GENERATED on every run by tools/rs2coq.py (tools/rs2coq_misc.py, rs2coq part 22) from",
           "   /repo/%s (every method of `trait Adapter` of /repo/%s)," % (NA, AM),
           "   /repo/%s (enum OperatorFunction, FunctionMap::default / add_function / get_functions)," % FM,
           "   /repo/%s (Enforcer::register_function), /repo/%s (Assertion::default / get_policy /" % (EN, AS),
           "   get_mut_policy), /repo/%s (casbin_js_get_permission_for_user); /repo/%s is checked to" % (FE, MM),
           "   contain no function body - do not edit.  Features: those of part 15 (glob, ip off).",
           "   NullAdapter: st_m = the model behind `m: &mut dyn Model`; the result is `option (final state * value)`,",
           "   None = a panic; a `Result<T>` is a `res casbin_error T` (the conventions of parts 9 / 17).",
           "   The others: a mutating call rebinds the variable it mutates; `self` / the `&mut` parameter is returned;",
           "   `rs_fn` (None = a panic) only where the body has loops, `?` or calls that can panic. *)",
           "From CV Require Import Model.Base Model.Csv Model.Expr Model.Enforce Model.Engine Model.FileSave.",
           "From CV Require Import Gen.RustStr Gen.RustVec Gen.StrFnGen Gen.FmapGen Gen.AdaptersPrims Gen.AdaptersGen Gen.FsRt.",
           "From CV Require Import Gen.IniRt Gen.IniGen Gen.Model2Rt Gen.Model2Gen.",
           "From CV Require Import Gen.EnforcerPrims Gen.CachedRt Gen.Enforcer2Rt Gen.MiscRt.", ""]
    ok = generate_null(out)
    tr = Translator(GEN_DIR)
    # enum OperatorFunction
    try:
        variants = tr.variants()
        out.append("(* %s: enum OperatorFunction - variant, number of ImmutableString parameters of the fn it carries *)" % FM)
        out.append("Definition gen_operator_function_variants : list (text * nat) :=\n  [%s].\n" % "; ".join(
            "(%s, %d)" % (R.coq_text(v), n) for v, n in variants))
    except Exception as ex:   # noqa
        ok = False
        out.append("(* enum OperatorFunction could not be read: %s *)" % comment_safe(ex))
        out.append("Definition gen_operator_function_variants : list (text * nat) := [].\n")
    for rel, impl_re, impl_name, selfty, name, gen, stub in FUNCS:
        ncl = len(tr.closures)
        try:
            out.append(tr.function(rel, impl_re, impl_name, selfty, name, gen))
            if name == "default":
                tr.defaults[selfty] = gen
        except Exception as ex:   # noqa
            ok = False
            del tr.closures[ncl:]
            msg = str(ex) if isinstance(ex, Untranslatable) else "%s: %s" % (type(ex).__name__, ex)
            out.append("(* translation of %s (%s) failed: %s *)" % (name, gen, comment_safe(msg)))
            out.append("Definition %s %s.\n" % (gen, stub))
        if gen == "gen_fm_default":
            out.append("(* what the closures of FunctionMap::default() compute, in the order of the source:\n"
                       "   the fn pointer, the number of parameters, the body on the list of its arguments *)")
            rows = []
            for ptr, names, term in tr.closures[ncl:]:
                rows.append("(%s, %d, fun ss => match ss with [%s] => Some %s | _ => None end)" % (
                    ptr, len(names), "; ".join("v_" + n for n in names), term))
            out.append("Definition gen_fm_default_closures : list (fnptr * nat * (list text -> option eres)) :=\n  [%s].\n"
                       % ";\n   ".join(rows))
    # files that must not contain function bodies
    try:
        bodies = fn_bodies(MM)
        if bodies:
            raise Untranslatable("%s defines %s" % (MM, ", ".join(bodies)))
        fe = [b for b in fn_bodies(FE) if b != "casbin_js_get_permission_for_user"]
        if fe:
            raise Untranslatable("%s also defines %s" % (FE, ", ".join(fe)))
        out.append("(* %s: no function body (trait Model is declared there, without provided methods);\n"
                   "   %s: casbin_js_get_permission_for_user is its only function outside #[cfg(test)] *)" % (MM, FE))
        out.append("Definition gen_misc_other_bodies : list text := [].\n")
    except Exception as ex:   # noqa
        ok = False
        out.append("(* %s *)" % comment_safe(ex))
        out.append("Definition gen_misc_other_bodies : list text := [T \"untranslated\"].\n")
    out.append("Definition gen_misc_translated : bool := %s." % ("true" if ok else "false"))
    return "\n".join(out) + "\n", ok


def main(dst_dir=None):
    global GEN_DIR
    dst_dir = dst_dir or GEN_DIR
    if dst_dir.endswith(".v"):
        dst_dir = os.path.dirname(dst_dir)
    GEN_DIR = dst_dir
    txt, ok = generate()
    R.write_if_changed(os.path.join(dst_dir, "MiscGen.v"), txt, ok)
    return ok


if __name__ == "__main__":
    main(sys.argv[1] if len(sys.argv) > 1 else None)
