#!/usr/bin/env python3
"""rs2coq, part 9: the bookkeeping of the bundled adapters -> coq/Gen/AdaptersGen.v (over coq/Gen/RustVec.v,
coq/Gen/RustStr.v and the hand-written coq/Gen/AdaptersPrims.v); proved equal to the adapter model of
Model/Engine.v (ad0_add .. ad0_remove_filtered, ad0_load, ad0_load_filtered, ad0_save, ad0_clear on AMemory;
load_line, get_filtered_out + sec_filter, str_load_filtered on the line handlers) for all inputs, panics
included, in coq/PinChecks/PcAdaptersGen.v (lemmas in coq/Proofs/AdaptersP.v).

Translated
  src/adapter/memory_adapter.rs   every method of `impl Adapter for MemoryAdapter`
  src/adapter/file_adapter.rs     the line handlers load_policy_line, load_filtered_policy_line
  src/adapter/string_adapter.rs   load_policy_line, StringAdapter::load_policy, StringAdapter::load_filtered_policy
                                  (and, separately, the body of its loop over the lines: one step)
The file reading around the handlers of file_adapter.rs (lines(), I/O) is outside the model.

A translated function is a Gallina function of the fields of `self` (st_<field>, read from the struct
definition), of the model behind `m: &mut dyn Model` (st_m) and of its parameters (`f: Filter` is the two
lists v_f_p, v_f_g); it returns `option (final state * value)` - None is a panic - where the state is the
tuple of the fields of a `&mut self` followed by st_m for a `&mut dyn Model`.  `Result<T>` is T (no
translated function has an Err path; `?` is rejected).

Subset (anything else: Untranslatable -> a stub and `gen_adapters_translated := false`): that of part 3
(rs2coq_store.py: let / assignment / push / for / enumerate / break / return / if / && || ! == != + / indexing as
`option`) plus
  statements   <lvalue> = e;   (a local or a field of self)      continue;      return;
               <set>.insert(e); <set>.remove(e); <set or vec>.clear();   v.insert(0, e);   v.extend(e);
               if let Some([ref] x) = e { .. } [else { .. }]      for (k, a) in <assertion map> { .. }
               <assertion>.policy.insert(e);  <assertion>.get_mut_policy().insert(e);
               f(args);  for a translated free function f taking the model
               a value-`if` in tail position
  expressions  Some(e)  Ok(e)  ()  vec![a, b]  e[n..]  e.get(i)  e.contains(x)  == / != on Option<&String>
               e.starts_with('c')  e.split("\\n")  e.chars().next().map(|c| c.to_string())  parse_csv_line(e)
               e.map(|[mut] x| { plain statements; value })  (total closures only)
               m.get_model() / m.get_mut_model(), <store>.get[_mut](sec), <map>.get[_mut](key),
               <assertion>.policy / .get_policy()
               <set>.insert(e) / <set>.remove(e) as the value of a `let`, a `return` or the tail
               (the value first, then the update: rs_oset_insert_new / rs_oset_remove_was)
"""
import os
import re
import sys

sys.path.insert(0, os.path.dirname(os.path.abspath(__file__)))
import pins  # noqa: E402
import rs2coq  # noqa: E402
from rs2coq import Untranslatable, slex, coq_text, coq_char, SP  # noqa: E402
from rs2coq_store import SP3, TV  # noqa: E402

MA = "src/adapter/memory_adapter.rs"
FA = "src/adapter/file_adapter.rs"
SA = "src/adapter/string_adapter.rs"

VT = ("vec", "text")
VVT = ("vec", ("vec", "text"))
OSET = ("set", ("vec", "text"))
IDENTITY = ("clone", "to_vec", "to_owned", "iter", "into_iter", "to_string", "as_str", "into", "iter_mut")


# ------------------------------------------------------------------ types
def resolve(t):
    if isinstance(t, tuple) and t[0] in ("vec", "set", "opt"):
        if isinstance(t[1], TV):
            return (t[0], resolve(t[1].t)) if t[1].t is not None else t
        return (t[0], resolve(t[1]))
    if isinstance(t, tuple) and t[0] == "tuple":
        return ("tuple", tuple(resolve(x) for x in t[1]))
    return t


def unify(a, b):
    a, b = resolve(a), resolve(b)
    if isinstance(a, tuple) and isinstance(b, tuple) and a[0] == b[0] and a[0] in ("vec", "set", "opt"):
        if isinstance(a[1], TV) and isinstance(b[1], TV):
            if a[1] is not b[1]:
                a[1].t = None
            return True
        if isinstance(a[1], TV):
            a[1].t = b[1]
            return True
        if isinstance(b[1], TV):
            b[1].t = a[1]
            return True
        return unify(a[1], b[1])
    if isinstance(a, tuple) and isinstance(b, tuple) and a[0] == b[0] == "tuple":
        return len(a[1]) == len(b[1]) and all(unify(x, y) for x, y in zip(a[1], b[1]))
    return a == b


def tyname(t):
    t = resolve(t)
    if isinstance(t, tuple) and t[0] in ("vec", "set", "opt"):
        nm = {"vec": "Vec", "set": "LinkedHashSet", "opt": "Option"}[t[0]]
        return "%s<%s>" % (nm, "_" if isinstance(t[1], TV) else tyname(t[1]))
    if isinstance(t, tuple) and t[0] == "tuple":
        return "(%s)" % ", ".join(tyname(x) for x in t[1])
    if isinstance(t, tuple):
        return t[0]
    return str(t)


def coq_ty(t):
    t = resolve(t)
    if t in ("nat", "text", "bool", "unit", "model"):
        return t
    if t in (VVT, OSET):
        return "list rule"
    if isinstance(t, tuple) and t[0] in ("vec", "set") and not isinstance(t[1], TV):
        return "list %s" % coq_ty_atom(t[1])
    if isinstance(t, tuple) and t[0] == "opt" and not isinstance(t[1], TV):
        return "option %s" % coq_ty_atom(t[1])
    if isinstance(t, tuple) and t[0] == "tuple":
        return "(%s)" % " * ".join(coq_ty_atom(x) for x in t[1])
    if isinstance(t, tuple) and t[0] == "amap":
        return "amap"
    if isinstance(t, tuple) and t[0] == "ast":
        return "assertion"
    raise Untranslatable("type %s has no Coq counterpart" % tyname(t))


def coq_ty_atom(t):
    s = coq_ty(t)
    return s if " " not in s or s.startswith("(") else "(%s)" % s


def rust_type(s):
    """type of a parameter / field / return value / let annotation, from its text"""
    s = re.sub(r"&\s*'\w+\s*", "&", s)
    s = re.sub(r"\s+", "", s)
    s = re.sub(r"&(?:mut(?=[A-Za-z\[(]))?", "", s)
    if s == "usize":
        return "nat"
    if s in ("str", "String"):
        return "text"
    if s == "bool":
        return "bool"
    if s == "()":
        return "unit"
    if s == "dynModel":
        return "mref"
    if re.match(r"Filter(<'\w+>)?$", s):
        return "filter"
    m = re.match(r"Result<(.*)>$", s)
    if m:
        return rust_type(m.group(1))
    m = re.match(r"Vec<(.*)>$", s)
    if m:
        return ("vec", rust_type(m.group(1)))
    m = re.match(r"\[(.*)\]$", s)
    if m:
        return ("vec", rust_type(m.group(1)))
    m = re.match(r"LinkedHashSet<(.*)>$", s)
    if m:
        return ("set", rust_type(m.group(1)))
    m = re.match(r"Option<(.*)>$", s)
    if m:
        return ("opt", rust_type(m.group(1)))
    raise Untranslatable("type " + s)


# ------------------------------------------------------------------ parser
class SPA(SP3):
    """parser: the AST of SP3 (rs2coq_store.py) plus
       stmt  = ("assignf", lvalue-expression, e) | ("continue",) | ("ret", ("unit",))
             | ("if", ("iflet", x, e), block, block | None)
       e     = ("slicefrom", e, n) | ("fncall", name, args) | ("unit",) | ("veclit", [e]) | ("ifv", if-stmt)
       a closure body may be an expression: ("closure", params, ([], e))"""

    def postfix(self):
        e = self.primary()
        while True:
            if self.peek() == ("op", "."):
                self.eat()
                kind, name = self.eat()
                if kind != "id" or "::" in name or name.endswith("!"):
                    raise Untranslatable("method / field name " + name)
                if self.peek() == ("op", ":") or "::" in self.peek()[1]:
                    raise Untranslatable("turbofish on ." + name)
                if self.peek() != ("op", "("):
                    e = ("field", e, name)
                    continue
                self.eat("(")
                args = []
                while self.peek() != ("op", ")"):
                    args.append(self.expr())
                    if self.peek() == ("op", ","):
                        self.eat()
                self.eat(")")
                e = ("call", name, e, args)
            elif self.peek() == ("op", "["):
                self.eat()
                if self.peek() == ("op", ".."):
                    raise Untranslatable("slice e[..n]")
                ix = self.expr()
                if self.peek() == ("op", ".."):
                    self.eat()
                    if self.peek() != ("op", "]"):
                        raise Untranslatable("slice e[a..b]")
                    self.eat("]")
                    e = ("slicefrom", e, ix)
                else:
                    self.eat("]")
                    e = ("index", e, ix)
            elif self.peek() == ("op", "?"):
                raise Untranslatable("the ? operator")
            else:
                return e

    def args(self):
        self.eat("(")
        out = []
        while self.peek() != ("op", ")"):
            out.append(self.expr())
            if self.peek() == ("op", ","):
                self.eat()
        self.eat(")")
        return out

    def primary(self):
        kind, v = self.peek()
        if kind == "op" and v == "(" and self.peek(1) == ("op", ")"):
            self.eat()
            self.eat()
            return ("unit",)
        if kind == "op" and v == "|":
            self.eat()
            params = []
            while self.peek() != ("op", "|"):
                mutable = False
                if self.peek() == ("id", "mut"):
                    self.eat()
                    mutable = True
                k2, x = self.eat()
                if k2 != "id" or "::" in x or x.endswith("!"):
                    raise Untranslatable("closure parameter " + x)
                params.append((x, mutable))
                if self.peek() == ("op", ","):
                    self.eat()
            self.eat("|")
            if self.peek() == ("op", "{"):
                return ("closure", params, self.block())
            return ("closure", params, ([], self.expr()))
        if kind == "id" and v == "vec!":
            self.eat()
            self.eat("[")
            items = []
            while self.peek() != ("op", "]"):
                items.append(self.expr())
                if self.peek() == ("op", ","):
                    self.eat()
                elif self.peek() == ("op", ";"):
                    raise Untranslatable("vec![x; n]")
            self.eat("]")
            return ("veclit", items) if items else ("vecnew",)
        if kind == "id" and self.peek(1) == ("op", "(") and "::" not in v and not v.endswith("!") \
                and v not in ("if", "for", "while", "match", "loop", "return", "let"):
            self.eat()
            return ("fncall", v, self.args())
        return SP3.primary(self)

    def if_(self):
        self.eat("if")
        if self.peek() == ("id", "let"):
            self.eat()
            self.eat("Some")
            self.eat("(")
            while self.peek() in (("id", "ref"), ("id", "mut")):
                self.eat()
            kind, x = self.eat()
            if kind != "id" or "::" in x or x.endswith("!"):
                raise Untranslatable("pattern Some(%s)" % x)
            self.eat(")")
            self.eat("=")
            cond = ("iflet", x, self.expr())
        else:
            cond = ("cond", self.expr())
        th = self.block()
        el = None
        if self.peek() == ("id", "else"):
            self.eat()
            if self.peek() == ("id", "if"):
                el = close([self.if_()], None)
            else:
                el = self.block()
        return ("if", cond, th, el)

    def seq(self, closer):
        stmts, final = [], None
        while self.peek()[1] != closer and self.peek()[0] != "eof":
            if final is not None:
                raise Untranslatable("statement after the value of a block")
            kind, v = self.peek()
            if (kind, v) == ("id", "let"):
                self.eat()
                mutable = False
                if self.peek() == ("id", "mut"):
                    self.eat()
                    mutable = True
                k2, x = self.eat()
                if k2 != "id" or "::" in x or x.endswith("!"):
                    raise Untranslatable("let pattern " + x)
                ty = None
                if self.peek() == ("op", ":"):
                    self.eat()
                    toks = []
                    while self.peek() != ("op", "=") and self.peek()[0] != "eof":
                        toks.append(self.eat()[1])
                    ty = rust_type("".join(toks))
                self.eat("=")
                e = self.expr()
                self.eat(";")
                stmts.append(("let", mutable, x, ty, e))
            elif (kind, v) == ("id", "return"):
                self.eat()
                if self.peek() == ("op", ";"):
                    self.eat()
                    stmts.append(("ret", ("unit",)))
                else:
                    e = self.expr()
                    if self.peek() == ("op", ";"):
                        self.eat()
                    stmts.append(("ret", e))
            elif (kind, v) == ("id", "break"):
                self.eat()
                self.eat(";")
                stmts.append(("break",))
            elif (kind, v) == ("id", "continue"):
                self.eat()
                self.eat(";")
                stmts.append(("continue",))
            elif (kind, v) == ("id", "if"):
                stmts.append(self.if_())
                if self.peek() == ("op", ";"):
                    self.eat()
            elif (kind, v) == ("id", "for"):
                self.eat()
                if self.peek() == ("op", "("):
                    self.eat()
                    i = self.eat()
                    self.eat(",")
                    x = self.eat()
                    self.eat(")")
                    if i[0] != "id" or x[0] != "id":
                        raise Untranslatable("for pattern")
                    pat = ("pair", i[1], x[1])
                else:
                    x = self.eat()
                    if x[0] != "id" or "::" in x[1]:
                        raise Untranslatable("for pattern " + x[1])
                    pat = ("v", x[1])
                self.eat("in")
                it = self.expr()
                stmts.append(("for", pat, it, self.block()))
            elif kind == "id" and v in ("while", "loop", "match", "unsafe"):
                raise Untranslatable("unsupported " + v)
            else:
                e = self.expr()
                if self.peek() == ("op", "="):
                    self.eat()
                    rhs = self.expr()
                    self.eat(";")
                    stmts.append(("assignf", e, rhs))
                elif self.peek() == ("op", ";"):
                    self.eat()
                    if e[0] not in ("call", "fncall"):
                        raise Untranslatable("expression statement")
                    stmts.append(("do", e))
                else:
                    final = e
        return close(stmts, final)


def close(stmts, final):
    """an if .. else in last position whose branches have values is the value of the block"""
    if final is None and stmts and stmts[-1][0] == "if" and stmts[-1][3] is not None \
            and (stmts[-1][2][1] is not None or stmts[-1][3][1] is not None):
        return (stmts[:-1], ("ifv", stmts[-1]))
    return (stmts, final)


def tailify(block):
    """a block in tail position: its value becomes a `return`"""
    stmts, final = block
    if final is None:
        return (stmts, None)
    if final[0] == "ifv":
        st = final[1]
        el = tailify(st[3]) if st[3] is not None else None
        return (stmts + [("if", st[1], tailify(st[2]), el)], None)
    return (stmts + [("ret", final)], None)


def strip_ok(e):
    while e[0] == "fncall" and e[1] == "Ok" and len(e[2]) == 1:
        e = e[2][0]
    return e


def lval_key(e):
    """env key of an assignable place: a local or a field of self"""
    if e[0] == "var":
        return e[1]
    if e[0] == "field" and e[1] == ("self",):
        return "self." + e[2]
    return None


def effect_of(e):
    """(key, method, argument) when e is <place>.insert(x) / <place>.remove(x)"""
    e = strip_ok(e)
    if e[0] == "call" and e[1] in ("insert", "remove") and len(e[3]) == 1:
        k = lval_key(e[2])
        if k is not None:
            return k, e[1], e[3][0]
    return None


def ast_policy_place(e):
    """the assertion variable x of x.policy / x.get_mut_policy() / x.get_policy()"""
    if e[0] == "field" and e[2] == "policy" and e[1][0] == "var":
        return e[1][1]
    if e[0] == "call" and e[1] in ("get_mut_policy", "get_policy") and not e[3] and e[2][0] == "var":
        return e[2][1]
    return None


def has_partial(e):
    """does evaluating e involve an operation that can panic"""
    if isinstance(e, list):
        return any(has_partial(x) for x in e)
    if not isinstance(e, tuple) or not e:
        return False
    if e[0] in ("index", "slicefrom"):
        return True
    if e[0] == "closure":
        return False
    return any(has_partial(x) for x in e[1:])


NILS = []


def fill_nils(term):
    def one(m):
        tv = NILS[int(m.group(1))]
        try:
            return "([] : %s)" % coq_ty(("vec", tv.t)) if tv.t is not None else "[]"
        except Untranslatable:
            return "[]"
    return re.sub(r"@NIL(\d+)@", one, term)


STALE = "<stale>"


class EmitA:
    """env: Rust name (or "self.<field>") -> [type, mutable].
       state: the env keys returned with the value, in order."""

    def __init__(self, ret, state, mparam, funcs, step=False):
        self.ret = ret
        self.state = state
        self.mparam = mparam
        self.funcs = funcs          # translated free functions: name -> (coq name, parameter types)
        self.loops = []             # carried variables of the enclosing loops; None = a closure
        self.n = 0
        self.step = step            # translating a loop body on its own: `continue` ends it

    def fresh(self):
        self.n += 1
        return "ix%d" % self.n

    def cv(self, x):
        if x.startswith("self."):
            return "st_" + x[5:]
        if x == self.mparam:
            return "st_m"
        return "v_" + x

    def tup(self, names):
        if not names:
            return "tt"
        if len(names) == 1:
            return self.cv(names[0])
        return "(%s)" % ", ".join(self.cv(x) for x in names)

    def lam_pat(self, names):
        if not names:
            return "(_ : unit)"
        if len(names) == 1:
            return self.cv(names[0])
        return "'" + self.tup(names)

    def match_pat(self, names):
        return "_" if not names else self.tup(names)

    # ---- which places a block may assign
    def assigned(self, block, declared=()):
        out = set()
        declared = set(declared)

        def place(k):
            if k is not None and k not in declared:
                out.add(k)

        def expr_effect(e):
            ef = effect_of(e)
            if ef is not None:
                place(ef[0])
        for st in block[0]:
            k = st[0]
            if k == "let":
                expr_effect(st[4])
                declared.add(st[2])
            elif k == "assign":
                place(st[1])
            elif k == "assignf":
                key = lval_key(st[1])
                if key is None:
                    raise Untranslatable("assignment to something that is not a local or a field of self")
                place(key)
            elif k == "ret":
                expr_effect(st[1])
            elif k == "do":
                e = st[1]
                if e[0] == "fncall":
                    if self.mparam is not None and any(a == ("var", self.mparam) for a in e[2]):
                        place(self.mparam)
                    continue
                key = lval_key(e[2])
                if key is not None and e[1] in ("push", "insert", "remove", "clear", "extend"):
                    place(key)
                elif ast_policy_place(e[2]) is not None and e[1] == "insert":
                    if self.mparam is None:
                        raise Untranslatable("a write to the model store without a model parameter")
                    place(self.mparam)
                else:
                    raise Untranslatable("statement .%s(..)" % e[1])
            elif k == "if":
                inner = set(declared)
                if st[1][0] == "iflet":
                    inner.add(st[1][1])
                out |= self.assigned(st[2], inner)
                if st[3] is not None:
                    out |= self.assigned(st[3], declared)
            elif k == "for":
                inner = set(declared)
                inner.update(st[1][1:])
                out |= self.assigned(st[3], inner)
        if block[1] is not None:
            expr_effect(block[1])
        return out

    def plain_block(self, block):
        """only let / assignment / set and vector updates / such ifs, total expressions, no control flow:
           the block can be a `let` of the places it assigns"""
        if block is None:
            return True
        if block[1] is not None:
            return False
        for st in block[0]:
            k = st[0]
            if k in ("for", "break", "ret", "continue"):
                return False
            if k == "let" and (has_partial(st[4]) or effect_of(st[4]) is not None):
                return False
            if k == "assign" and has_partial(st[2]):
                return False
            if k == "assignf" and has_partial(st[2]):
                return False
            if k == "do":
                if st[1][0] == "fncall" or has_partial(st[1]):
                    return False
            if k == "if":
                if has_partial(st[1][-1]) or not self.plain_block(st[2]) or not self.plain_block(st[3]):
                    return False
        return True

    @staticmethod
    def rank(t):
        """position of a variable in the tuple a loop / an if carries: by TYPE first (bool, usize, String, Vec,
           set, Option, tuple, the model), by name only among variables of the same type, so that renaming the
           locals of the source does not reorder the state the proofs speak about"""
        t = resolve(t)
        order = ("bool", "nat", "text", "vec", "set", "opt", "tuple", "mref")
        k = t[0] if isinstance(t, tuple) else t
        return order.index(k) if k in order else len(order)

    def mutable_in(self, env, names):
        for x in names:
            if x not in env:
                raise Untranslatable("assignment to an unknown place " + x)
            if not env[x][1]:
                raise Untranslatable("%s is modified but is not mutable" % x)
        return sorted(names, key=lambda x: (self.rank(env[x][0]), x))

    # ---- expressions: (type, term, partial); a partial term has type option T
    def binds(self, parts, build):
        names, wrap = [], []
        for term, partial in parts:
            if partial:
                x = self.fresh()
                wrap.append((x, term))
                names.append(x)
            else:
                names.append(term)
        body = build(names)
        if not wrap:
            return body, False
        out = "(Some %s)" % body
        for x, term in reversed(wrap):
            out = "(match %s with Some %s => %s | None => None end)" % (term, x, out)
        return out, True

    def stable_key(self, e, env):
        """a lookup key whose Coq term cannot be rebound before the write-back: a literal or an immutable variable"""
        if e[0] == "str":
            return True
        if e[0] == "var" and e[1] in env and not env[e[1]][1]:
            return True
        return False

    def ex(self, e, env):
        k = e[0]
        if k == "var":
            if e[1] not in env:
                raise Untranslatable("identifier " + e[1])
            if env[e[1]][0] == STALE:
                raise Untranslatable("%s is used after a write through it" % e[1])
            return env[e[1]][0], self.cv(e[1]), False
        if k == "int":
            return "nat", e[1], False
        if k == "lit":
            return "bool", e[1], False
        if k == "str":
            return "text", coq_text(e[1]), False
        if k == "unit":
            return "unit", "tt", False
        if k == "idtext":
            t, a, p = self.ex(e[1], env)
            if t != "text":
                raise Untranslatable("string constructor applied to a " + tyname(t))
            return t, a, p
        if k == "vecnew":
            tv = TV()
            NILS.append(tv)
            return ("vec", tv), "@NIL%d@" % (len(NILS) - 1), False
        if k == "veclit":
            subs = [self.ex(x, env) for x in e[1]]
            for s in subs[1:]:
                if not unify(s[0], subs[0][0]):
                    raise Untranslatable("vec! of a %s and a %s" % (tyname(subs[0][0]), tyname(s[0])))
            term, partial = self.binds([(s[1], s[2]) for s in subs], lambda xs: "[%s]" % "; ".join(xs))
            return ("vec", subs[0][0]), term, partial
        if k == "tuple":
            subs = [self.ex(x, env) for x in e[1]]
            term, partial = self.binds([(s[1], s[2]) for s in subs], lambda xs: "(%s)" % ", ".join(xs))
            return ("tuple", tuple(s[0] for s in subs)), term, partial
        if k == "not":
            t, a, p = self.ex(e[1], env)
            if t != "bool":
                raise Untranslatable("! on a " + tyname(t))
            term, partial = self.binds([(a, p)], lambda xs: "(negb %s)" % xs[0])
            return "bool", term, partial
        if k in ("and", "or"):
            ta, a, pa = self.ex(e[1], env)
            tb, b, pb = self.ex(e[2], env)
            if ta != "bool" or tb != "bool":
                raise Untranslatable("%s on non-booleans" % k)
            if not pa and not pb:
                return "bool", "(%s %s %s)" % (a, "&&" if k == "and" else "||", b), False
            lifted = b if pb else "(Some %s)" % b
            short = "(Some false)" if k == "and" else "(Some true)"
            if not pa:
                return "bool", ("(if %s then %s else %s)" % ((a, lifted, short) if k == "and" else (a, short, lifted))), True
            if k == "and":
                return "bool", "(match %s with Some true => %s | Some false => %s | None => None end)" % (a, lifted, short), True
            return "bool", "(match %s with Some true => %s | Some false => %s | None => None end)" % (a, short, lifted), True
        if k == "eq":
            ta, a, pa = self.ex(e[1], env)
            tb, b, pb = self.ex(e[2], env)
            if not unify(ta, tb):
                raise Untranslatable("comparison of %s with %s" % (tyname(ta), tyname(tb)))
            ta = resolve(ta)
            fn = {"text": "rs_eq", "bool": "Bool.eqb", "nat": "Nat.eqb", VT: "rs_vec_eq", ("opt", "text"): "rs_opt_eq"}.get(ta)
            if fn is None:
                raise Untranslatable("comparison of two %s" % tyname(ta))
            neg = e[3]
            term, partial = self.binds([(a, pa), (b, pb)],
                                       lambda xs: ("(negb (%s %s %s))" if neg else "(%s %s %s)") % (fn, xs[0], xs[1]))
            return "bool", term, partial
        if k == "add":
            ta, a, pa = self.ex(e[1], env)
            tb, b, pb = self.ex(e[2], env)
            if ta != "nat" or tb != "nat":
                raise Untranslatable("+ on %s and %s" % (tyname(ta), tyname(tb)))
            term, partial = self.binds([(a, pa), (b, pb)], lambda xs: "(%s + %s)" % (xs[0], xs[1]))
            return "nat", term, partial
        if k in ("index", "slicefrom"):
            tv, v, pv = self.ex(e[1], env)
            ti, i, pi = self.ex(e[2], env)
            tv = resolve(tv)
            if not (isinstance(tv, tuple) and tv[0] == "vec" and not isinstance(tv[1], TV)) or ti != "nat":
                raise Untranslatable("index of a %s by a %s" % (tyname(tv), tyname(ti)))
            op, rt = ("rs_index", tv[1]) if k == "index" else ("rs_slice_from", tv)
            if pv or pi:
                x, y = self.fresh(), self.fresh()
                term = "(match %s with Some %s => (match %s with Some %s => %s %s %s | None => None end) | None => None end)" % (
                    v if pv else "(Some %s)" % v, x, i if pi else "(Some %s)" % i, y, op, x, y)
                return rt, term, True
            return rt, "(%s %s %s)" % (op, v, i), True
        if k == "self":
            return "self", "", False
        if k == "field":
            key = lval_key(e)
            if key is not None and key in env:
                return env[key][0], self.cv(key), False
            t, a, p = self.ex(e[1], env)
            if t == "filter" and e[2] in ("p", "g") and e[1][0] == "var":
                return VT, "v_%s_%s" % (e[1][1], e[2]), False
            if isinstance(t, tuple) and t[0] == "ast" and e[2] == "policy":
                return OSET, "(rs_ast_policy %s)" % a, False
            raise Untranslatable("field .%s of a %s" % (e[2], tyname(t)))
        if k == "fncall":
            return self.fncall(e, env)
        if k == "pathcall":
            if e[1] == "LinkedHashSet::new" and not e[2]:
                tv = TV()
                NILS.append(tv)
                return ("set", tv), "@NIL%d@" % (len(NILS) - 1), False
            if e[1] in ("Vec::new", "String::new") and not e[2]:
                if e[1] == "String::new":
                    return "text", "([] : text)", False
                tv = TV()
                NILS.append(tv)
                return ("vec", tv), "@NIL%d@" % (len(NILS) - 1), False
            if e[1] == "String::from" and len(e[2]) == 1:
                t, a, p = self.ex(e[2][0], env)
                if t != "text":
                    raise Untranslatable("String::from of a " + tyname(t))
                return t, a, p
            raise Untranslatable("call of " + e[1])
        if k == "call":
            return self.call(e, env)
        if k == "closure":
            raise Untranslatable("a closure outside map / fold")
        raise Untranslatable("expression " + k)

    def fncall(self, e, env):
        name, args = e[1], e[2]
        if name == "Some" and len(args) == 1:
            t, a, p = self.ex(args[0], env)
            term, partial = self.binds([(a, p)], lambda xs: "(Some %s)" % xs[0])
            return ("opt", t), term, partial
        if name == "Ok" and len(args) == 1:
            return self.ex(args[0], env)
        if name == "parse_csv_line" and len(args) == 1:
            t, a, p = self.ex(args[0], env)
            if t != "text" or p:
                raise Untranslatable("parse_csv_line of a " + tyname(t))
            return ("opt", VT), "(rs_parse_csv_line %s)" % a, False
        raise Untranslatable("call of %s inside an expression" % name)

    def call(self, e, env):
        name, recv, args = e[1], e[2], e[3]
        # s.chars().next().map(|c| c.to_string())
        if name == "map" and recv[0] == "call" and recv[1] == "next" and not recv[3] \
                and recv[2][0] == "call" and recv[2][1] == "chars" and not recv[2][3]:
            clo = args[0] if len(args) == 1 else None
            if not clo or clo[0] != "closure" or len(clo[1]) != 1 or clo[2][0] or \
                    clo[2][1] not in (("call", "to_string", ("var", clo[1][0][0]), []),
                                      ("idtext", ("var", clo[1][0][0]))):
                raise Untranslatable("chars().next().map(..) with something else than |c| c.to_string()")
            t, a, p = self.ex(recv[2][2], env)
            if t != "text":
                raise Untranslatable(".chars() on a " + tyname(t))
            term, partial = self.binds([(a, p)], lambda xs: "(rs_first_char %s)" % xs[0])
            return ("opt", "text"), term, partial
        if effect_of(e) is not None and lval_key(recv) in env and isinstance(resolve(env[lval_key(recv)][0]), tuple) \
                and resolve(env[lval_key(recv)][0])[0] == "set":
            raise Untranslatable("the value of .%s(..) on a set is only supported as a whole let / return value" % name)
        t, a, p = self.ex(recv, env)
        t = resolve(t)
        isvec = isinstance(t, tuple) and t[0] == "vec"
        isset = isinstance(t, tuple) and t[0] == "set"
        isopt = isinstance(t, tuple) and t[0] == "opt"
        if name in IDENTITY and not args and (isvec or isset or t == "text"):
            return t, a, p
        if name == "collect" and not args and (isvec or isset):
            return t, a, p
        if name == "map" and args == [("path", "String::from")] and t == VT:
            return t, a, p
        if name == "map" and len(args) == 1 and args[0][0] == "closure" and isvec and not isinstance(t[1], TV):
            return self.vecmap(t, a, p, args[0], env)
        if name == "is_empty" and not args and (isvec or isset or t == "text"):
            fn = "rs_is_empty" if t == "text" else "rs_vec_is_empty"
            term, partial = self.binds([(a, p)], lambda xs: "(%s %s)" % (fn, xs[0]))
            return "bool", term, partial
        if name == "starts_with" and len(args) == 1 and t == "text":
            if args[0][0] == "chr":
                term, partial = self.binds([(a, p)], lambda xs: "(rs_starts_with_char %s %s)" % (xs[0], coq_char(args[0][1])))
                return "bool", term, partial
            tb, b, pb = self.ex(args[0], env)
            if tb != "text":
                raise Untranslatable("starts_with a " + tyname(tb))
            term, partial = self.binds([(a, p), (b, pb)], lambda xs: "(rs_starts_with %s %s)" % (xs[0], xs[1]))
            return "bool", term, partial
        if name == "split" and args == [("str", "\n")] and t == "text":
            term, partial = self.binds([(a, p)], lambda xs: "(rs_split_nl %s)" % xs[0])
            return VT, term, partial
        if name == "contains" and len(args) == 1 and t == OSET:
            tb, b, pb = self.ex(args[0], env)
            if resolve(tb) != VT:
                raise Untranslatable("contains(%s) on a set of rules" % tyname(tb))
            term, partial = self.binds([(a, p), (b, pb)], lambda xs: "(rs_oset_contains %s %s)" % (xs[0], xs[1]))
            return "bool", term, partial
        if name == "get" and len(args) == 1 and isvec and not isinstance(t[1], TV):
            ti, i, pi = self.ex(args[0], env)
            if ti != "nat":
                raise Untranslatable(".get(%s) on a vector" % tyname(ti))
            term, partial = self.binds([(a, p), (i, pi)], lambda xs: "(rs_get %s %s)" % (xs[0], xs[1]))
            return ("opt", t[1]), term, partial
        # the model store
        if name in ("get_model", "get_mut_model") and not args and t == "mref":
            if name == "get_mut_model" and not env[self.mparam][1]:
                raise Untranslatable("get_mut_model on a shared reference")
            return ("store", name == "get_mut_model"), a, False
        if name in ("get", "get_mut") and len(args) == 1 and isinstance(t, tuple) and t[0] in ("store", "amap"):
            mutable = name == "get_mut"
            if mutable and not t[-1]:
                raise Untranslatable("get_mut through a shared reference")
            tk, kterm, pk = self.ex(args[0], env)
            if tk != "text" or pk or not self.stable_key(args[0], env):
                raise Untranslatable("lookup key that is not a string literal or an immutable string variable")
            if t[0] == "store":
                return ("opt", ("amap", kterm, mutable)), "(rs_model_get %s %s)" % (a, kterm), False
            if t[1] is None:
                raise Untranslatable("lookup in an assertion map whose section is not known")
            return ("opt", ("ast", t[1], kterm, mutable)), "(rs_astmap_get %s %s)" % (a, kterm), False
        if name in ("get_policy", "get_mut_policy") and not args and isinstance(t, tuple) and t[0] == "ast":
            return OSET, "(rs_ast_policy %s)" % a, False
        if isopt:
            raise Untranslatable("method .%s on an Option" % name)
        raise Untranslatable("method .%s on a %s" % (name, tyname(t)))

    def vecmap(self, t, a, p, clo, env):
        """v.map(|[mut] x| { plain statements; value }) with a total closure"""
        params, blk = clo[1], clo[2]
        if len(params) != 1 or blk[1] is None:
            raise Untranslatable("map closure is not |x| { ..; value }")
        x, mutable = params[0]
        if not self.plain_block((blk[0], None)) or has_partial(blk[1]):
            raise Untranslatable("map closure with control flow or an operation that can panic")
        env2 = dict(env)
        env2[x] = [t[1], mutable]
        if self.assigned((blk[0], None), ()) - {x}:
            raise Untranslatable("map closure assigns a captured variable")
        out = {}

        def fin(en):
            tt, term, pp = self.ex(blk[1], en)
            if pp:
                raise Untranslatable("map closure whose value can panic")
            out["t"] = tt
            return term
        self.loops.append(None)
        body = self.seq(blk[0], env2, fin)
        self.loops.pop()
        term, partial = self.binds([(a, p)], lambda xs: "(map (fun %s =>\n %s) %s)" % (self.cv(x), body, xs[0]))
        return ("vec", out["t"]), term, partial

    # ---- statements, continuation-passing: k(env) is the term of what follows
    def state_term(self):
        return self.tup(self.state) if self.state else None

    def wrap_ret(self, v):
        s = self.state_term()
        return "(%s, %s)" % (s, v) if s is not None else v

    def effect_terms(self, ef, env):
        """value and update of <set>.insert(x) / <set>.remove(x): (value term, update term, arg binder or None)"""
        key, meth, arg = ef
        if key not in env:
            raise Untranslatable("unknown place " + key)
        ts = resolve(env[key][0])
        ta, a, pa = self.ex(arg, env)
        if ts != OSET or resolve(ta) != VT:
            raise Untranslatable(".%s(%s) on a %s as a value" % (meth, tyname(ta), tyname(ts)))
        self.mutable_in(env, [key])
        s = self.cv(key)
        if meth == "insert":
            return key, a, pa, (lambda x: "(rs_oset_insert_new %s %s)" % (s, x)), (lambda x: "(rs_oset_insert %s %s)" % (s, x))
        return key, a, pa, (lambda x: "(rs_oset_remove_was %s %s)" % (s, x)), (lambda x: "(rs_oset_remove %s %s)" % (s, x))

    def ret_term(self, e, env):
        e = strip_ok(e)
        ef = effect_of(e)
        if ef is not None and ef[0] in env and isinstance(resolve(env[ef[0]][0]), tuple) and resolve(env[ef[0]][0])[0] == "set":
            if not unify("bool", self.ret):
                raise Untranslatable("value of type bool where %s is expected" % tyname(self.ret))
            key, a, pa, val, upd = self.effect_terms(ef, env)
            x, r = self.fresh(), self.fresh()
            body = "(let %s := %s in\n (let %s := %s in\n (LReturn %s)))" % (r, val(x), self.cv(key), upd(x), self.wrap_ret(r))
            if pa:
                return "(match %s with Some %s => %s | None => LPanic end)" % (a, x, body)
            return "(let %s := %s in\n %s)" % (x, a, body)
        t, a, p = self.ex(e, env)
        if not unify(t, self.ret):
            raise Untranslatable("value of type %s where %s is expected" % (tyname(t), tyname(self.ret)))
        if p:
            x = self.fresh()
            return "(match %s with Some %s => LReturn %s | None => LPanic end)" % (a, x, self.wrap_ret(x))
        return "(LReturn %s)" % self.wrap_ret(a)

    def bind_stmt(self, name, e_term, partial, rest):
        if partial:
            return "(match %s with Some %s => %s | None => LPanic end)" % (e_term, name, rest)
        return "(let %s := %s in\n %s)" % (name, e_term, rest)

    def seq(self, stmts, env, k):
        if not stmts:
            return k(env)
        st, rest = stmts[0], stmts[1:]
        kind = st[0]

        def cont(en):
            return self.seq(rest, en, k)
        if kind == "let":
            ef = effect_of(st[4])
            if ef is not None and ef[0] in env and isinstance(resolve(env[ef[0]][0]), tuple) and resolve(env[ef[0]][0])[0] == "set":
                key, a, pa, val, upd = self.effect_terms(ef, env)
                x = self.fresh()
                env2 = dict(env)
                env2[st[2]] = ["bool", st[1]]
                body = "(let v_%s := %s in\n (let %s := %s in\n %s))" % (st[2], val(x), self.cv(key), upd(x), cont(env2))
                if pa:
                    return "(match %s with Some %s => %s | None => LPanic end)" % (a, x, body)
                return "(let %s := %s in\n %s)" % (x, a, body)
            t, a, p = self.ex(st[4], env)
            if st[3] is not None and not unify(t, st[3]):
                raise Untranslatable("let %s: %s = a %s" % (st[2], tyname(st[3]), tyname(t)))
            rt = resolve(t)
            if rt in ("self", "mref", "filter") or (isinstance(rt, tuple) and rt[0] in ("store", "amap", "ast")):
                raise Untranslatable("let of a %s" % tyname(rt))
            env2 = dict(env)
            env2[st[2]] = [t, st[1]]
            return self.bind_stmt("v_" + st[2], a, p, cont(env2))
        if kind in ("assign", "assignf"):
            key = st[1] if kind == "assign" else lval_key(st[1])
            if key is None:
                raise Untranslatable("assignment to something that is not a local or a field of self")
            self.mutable_in(env, [key])
            t, a, p = self.ex(st[2], env)
            if not unify(t, env[key][0]):
                raise Untranslatable("assignment of a %s to %s: %s" % (tyname(t), key, tyname(env[key][0])))
            return self.bind_stmt(self.cv(key), a, p, cont(env))
        if kind == "do":
            return self.do(st[1], env, cont)
        if kind == "break":
            if rest:
                raise Untranslatable("code after break")
            if not self.loops or self.loops[-1] is None:
                raise Untranslatable("break outside a for loop")
            return "(LBreak %s)" % self.tup(self.loops[-1])
        if kind == "continue":
            if rest:
                raise Untranslatable("code after continue")
            if self.loops and self.loops[-1] is not None:
                return "(LNext %s)" % self.tup(self.loops[-1])
            if self.step and not self.loops:
                return self.ret_term(("unit",), env)
            raise Untranslatable("continue outside a for loop")
        if kind == "ret":
            if rest:
                raise Untranslatable("code after return")
            if None in self.loops:
                raise Untranslatable("return inside a closure")
            if self.step:
                raise Untranslatable("return inside the loop taken as a step")
            return self.ret_term(st[1], env)
        if kind == "if":
            return self.if_(st, env, cont)
        if kind == "for":
            return self.for_(st, env, cont)
        raise Untranslatable("statement " + kind)

    def do(self, e, env, cont):
        if e[0] == "fncall":
            return self.call_stmt(e, env, cont)
        name, recv, args = e[1], e[2], e[3]
        key = lval_key(recv)
        if key is not None and key in env:
            self.mutable_in(env, [key])
            tx = resolve(env[key][0])
            x = self.cv(key)
            isvec = isinstance(tx, tuple) and tx[0] == "vec"
            isset = isinstance(tx, tuple) and tx[0] == "set"
            if name == "clear" and not args and (isvec or isset or tx == "text"):
                return "(let %s := %s in\n %s)" % (x, "([] : %s)" % coq_ty(tx), cont(env))
            if name == "insert" and len(args) == 2 and isvec and args[0] == ("int", "0"):
                t, a, p = self.ex(args[1], env)
                if not unify(tx, ("vec", t)):
                    raise Untranslatable("insert of a %s in %s: %s" % (tyname(t), key, tyname(tx)))
                op = "rs_vec_insert0"
            elif len(args) != 1:
                raise Untranslatable("statement .%s with %d arguments" % (name, len(args)))
            else:
                t, a, p = self.ex(args[0], env)
                if name == "push" and isvec:
                    if not unify(tx, ("vec", t)):
                        raise Untranslatable("push of a %s on %s: %s" % (tyname(t), key, tyname(tx)))
                    op = "rs_push"
                elif name == "extend" and isvec:
                    if not unify(tx, t):
                        raise Untranslatable("extend of %s: %s by a %s" % (key, tyname(tx), tyname(t)))
                    op = "rs_vec_extend"
                elif name in ("insert", "remove") and isset:
                    if not unify(tx, ("set", t)):
                        raise Untranslatable("%s of a %s in %s: %s" % (name, tyname(t), key, tyname(tx)))
                    el = resolve(tx)[1]
                    if el == VT:
                        op = "rs_oset_insert" if name == "insert" else "rs_oset_remove"
                    elif el == "text" and name == "insert":
                        op = "rs_set_insert"
                    else:
                        raise Untranslatable("%s on a set of %s" % (name, tyname(el)))
                else:
                    raise Untranslatable("statement .%s(..) on a %s" % (name, tyname(tx)))
            if p:
                y = self.fresh()
                return "(match %s with Some %s => (let %s := %s %s %s in\n %s) | None => LPanic end)" % (a, y, x, op, x, y, cont(env))
            return "(let %s := %s %s %s in\n %s)" % (x, op, x, a, cont(env))
        av = ast_policy_place(recv)
        if av is not None and name == "insert" and len(args) == 1:
            if av not in env or env[av][0] == STALE:
                raise Untranslatable("write through %s" % av)
            ta = env[av][0]
            if not (isinstance(ta, tuple) and ta[0] == "ast"):
                raise Untranslatable(".policy of a %s" % tyname(ta))
            if not ta[3] or ta[1] is None or (recv[0] == "call" and recv[1] == "get_policy"):
                raise Untranslatable("write to the policy of an assertion reached through a shared reference")
            self.mutable_in(env, [self.mparam])
            t, a, p = self.ex(args[0], env)
            if resolve(t) != VT:
                raise Untranslatable("insert of a %s in the policy of an assertion" % tyname(t))
            # the references obtained from the store are not followed after the write
            env2 = dict(env)
            for y, (ty, _) in env.items():
                if isinstance(ty, tuple) and ty[0] in ("amap", "ast"):
                    env2[y] = [STALE, False]
            v = "v_" + av

            def upd(x):
                return "(let st_m := rs_model_put st_m %s %s (rs_ast_set_policy %s (rs_oset_insert (rs_ast_policy %s) %s)) in\n %s)" % (
                    ta[1], ta[2], v, v, x, cont(env2))
            if p:
                y = self.fresh()
                return "(match %s with Some %s => %s | None => LPanic end)" % (a, y, upd(y))
            return upd(a)
        raise Untranslatable("statement .%s(..)" % name)

    def call_stmt(self, e, env, cont):
        name, args = e[1], e[2]
        if name not in self.funcs:
            raise Untranslatable("call of " + name)
        gen, ptys = self.funcs[name]
        if len(args) != len(ptys):
            raise Untranslatable("call of %s with %d arguments" % (name, len(args)))
        terms = []
        has_m = False
        for a, pt in zip(args, ptys):
            if pt == "mref":
                if a != ("var", self.mparam):
                    raise Untranslatable("call of %s with another model" % name)
                self.mutable_in(env, [self.mparam])
                has_m = True
                continue
            if pt == "filter":
                if a[0] != "var" or env.get(a[1], [None])[0] != "filter":
                    raise Untranslatable("call of %s: filter argument" % name)
                terms += ["v_%s_p" % a[1], "v_%s_g" % a[1]]
                continue
            t, term, p = self.ex(a, env)
            if p or not unify(t, pt):
                raise Untranslatable("call of %s: argument of type %s" % (name, tyname(t)))
            terms.append(term)
        if not has_m:
            raise Untranslatable("call of %s without the model" % name)
        # the callee takes its state (the model) first
        return "(match %s st_m %s with Some (st_m, _) => %s | None => LPanic end)" % (gen, " ".join(terms), cont(env))

    def if_(self, st, env, cont):
        cond, th, el = st[1], st[2], st[3]
        if th[1] is not None or (el is not None and el[1] is not None):
            raise Untranslatable("if with a value in statement position")
        els = el[0] if el is not None else []
        if cond[0] == "iflet":
            t, c, p = self.ex(cond[2], env)
            t = resolve(t)
            if not (isinstance(t, tuple) and t[0] == "opt") or isinstance(t[1], TV):
                raise Untranslatable("if let Some(..) on a " + tyname(t))
            env_t = dict(env)
            env_t[cond[1]] = [t[1], False]
            pat_s, pat_n = "Some v_%s" % cond[1], "None"
        else:
            t, c, p = self.ex(cond[1], env)
            if t != "bool":
                raise Untranslatable("condition of type " + tyname(t))
            env_t = dict(env)
            pat_s, pat_n = "true", "false"
        if self.plain_block(th) and self.plain_block(el) and not p:
            inner = {cond[1]} if cond[0] == "iflet" else set()
            names = self.mutable_in(env, self.assigned(th, inner) | (self.assigned(el) if el is not None else set()))
            if not names:
                return cont(env)            # nothing observable
            a = self.seq(th[0], env_t, lambda en: self.tup(names))
            b = self.seq(els, dict(env), lambda en: self.tup(names))
            pat = self.tup(names) if len(names) == 1 else "'" + self.tup(names)
            if cond[0] == "iflet":
                return "(let %s := (match %s with %s => %s | %s => %s end) in\n %s)" % (pat, c, pat_s, a, pat_n, b, cont(env))
            return "(let %s := (if %s then %s else %s) in\n %s)" % (pat, c, a, b, cont(env))
        a = self.seq(th[0], env_t, lambda en: cont(env))
        b = self.seq(els, dict(env), lambda en: cont(env))
        if p:
            if cond[0] == "iflet":
                return "(match %s with\n | Some (Some v_%s) => %s\n | Some None => %s\n | None => LPanic end)" % (c, cond[1], a, b)
            return "(match %s with\n | Some true => %s\n | Some false => %s\n | None => LPanic end)" % (c, a, b)
        if cond[0] == "iflet":
            return "(match %s with\n | %s => %s\n | %s => %s end)" % (c, pat_s, a, pat_n, b)
        return "(if %s\n then %s\n else %s)" % (c, a, b)

    def for_(self, st, env, cont):
        pat, it, body = st[1], st[2], st[3]
        if body[1] is not None:
            raise Untranslatable("loop body with a value")
        enum = False
        if it[0] == "call" and it[1] == "enumerate" and not it[3]:
            enum, it = True, it[2]
        t, a, p = self.ex(it, env)
        t = resolve(t)
        if p:
            raise Untranslatable("for over an expression that can panic")
        if isinstance(t, tuple) and t[0] in ("vec", "set") and not isinstance(t[1], TV):
            elt = t[1]
        elif isinstance(t, tuple) and t[0] == "amap" and not enum:
            elt = "pair"
        else:
            raise Untranslatable("for over a %s" % tyname(t))
        bound = set(pat[1:])
        carried = self.mutable_in(env, self.assigned(body, bound))
        env2 = dict(env)
        if enum:
            if pat[0] != "pair":
                raise Untranslatable("for pattern does not fit enumerate()")
            env2[pat[1]] = ["nat", False]
            env2[pat[2]] = [elt, False]
            lp = "'(v_%s, v_%s)" % (pat[1], pat[2])
            a = "(rs_enumerate %s)" % a
        elif elt == "pair":
            if pat[0] != "pair":
                raise Untranslatable("for over an assertion map needs a (key, assertion) pattern")
            env2[pat[1]] = ["text", False]
            env2[pat[2]] = [("ast", None, None, False), False]
            lp = "'(v_%s, v_%s)" % (pat[1], pat[2])
        else:
            if pat[0] != "v":
                raise Untranslatable("for pattern does not fit the iterator")
            env2[pat[1]] = [elt, False]
            lp = "v_" + pat[1]
        self.loops.append(carried)
        b = self.seq(body[0], env2, lambda en: "(LNext %s)" % self.tup(carried))
        self.loops.pop()
        return ("(match rs_for (fun %s %s =>\n %s)\n %s %s with\n | Done %s => %s\n | Returned ret_ => LReturn ret_\n | Panicked => LPanic end)"
                % (lp, self.lam_pat(carried), b, a, self.tup(carried), self.match_pat(carried), cont(env)))

    def function(self, blk, env):
        stmts, _ = tailify(blk)

        def end(en):
            if resolve(self.ret) != "unit":
                raise Untranslatable("control reaches the end of the function without a value")
            return self.ret_term(("unit",), en)
        return self.seq(stmts, env, end)


# ------------------------------------------------------------------ the functions
def find_fn(src, start, name):
    """(parameter texts, return type text | None, body text) of the first definition of fn name after start"""
    for m in re.finditer(r"fn\s+%s\s*(?:<[^>]*>)?\s*\(" % name, src[start:]):
        i = start + m.end()
        depth, j = 1, i
        while j < len(src) and depth:
            depth += (src[j] == "(") - (src[j] == ")")
            j += 1
        params_txt = src[i:j - 1]
        k = src.find("{", j)
        semi = src.find(";", j)
        if k < 0 or (0 <= semi < k):
            continue
        head = src[j:k]
        rm = re.match(r"\s*->\s*(.+?)\s*(?:where\b.*)?$", head, re.S)
        ret = rm.group(1) if rm else None
        if not rm and head.strip():
            raise Untranslatable("%s: signature %r" % (name, head.strip()))
        body = pins.balanced(src, k)
        if body is None:
            raise Untranslatable("%s: body not found" % name)
        params, depth, cur = [], 0, ""
        for c in params_txt:
            if c == "," and depth == 0:
                params.append(cur)
                cur = ""
                continue
            depth += (c in "<([") - (c in ">)]")
            cur += c
        if cur.strip():
            params.append(cur)
        return [p.strip() for p in params if p.strip()], ret, body
    raise Untranslatable("%s: definition not found" % name)


def struct_fields(src, name):
    m = re.search(r"struct\s+%s\s*(?:<[^>]*>)?\s*\{([^}]*)\}" % name, src)
    if not m:
        raise Untranslatable("struct %s not found" % name)
    out = []
    for part in pins.strip_rust_comments(m.group(1)).split(","):
        part = part.strip()
        if not part:
            continue
        fm = re.match(r"(?:pub(?:\([^)]*\))?\s+)?(\w+)\s*:\s*(.+)$", part, re.S)
        if not fm:
            raise Untranslatable("field %r of %s" % (part, name))
        out.append((fm.group(1), rust_type(fm.group(2))))
    return out


# file, impl regex (None: a free function), struct, Rust name, Coq name, expected fields, expected parameter types, return type
MEM_FIELDS = (("policy", OSET), ("is_filtered", "bool"))
STR_FIELDS = (("policy", "text"), ("is_filtered", "bool"))
MEM_IMPL = r"impl\s+Adapter\s+for\s+MemoryAdapter"
STR_IMPL = r"impl\s+Adapter\s+for\s+StringAdapter"
FUNCS = (
    (MA, MEM_IMPL, "MemoryAdapter", "load_policy", "gen_mem_load_policy", "mut", ("mref",), "unit"),
    (MA, MEM_IMPL, "MemoryAdapter", "load_filtered_policy", "gen_mem_load_filtered_policy", "mut", ("mref", "filter"), "unit"),
    (MA, MEM_IMPL, "MemoryAdapter", "save_policy", "gen_mem_save_policy", "mut", ("mref",), "unit"),
    (MA, MEM_IMPL, "MemoryAdapter", "clear_policy", "gen_mem_clear_policy", "mut", (), "unit"),
    (MA, MEM_IMPL, "MemoryAdapter", "add_policy", "gen_mem_add_policy", "mut", ("text", "text", VT), "bool"),
    (MA, MEM_IMPL, "MemoryAdapter", "add_policies", "gen_mem_add_policies", "mut", ("text", "text", VVT), "bool"),
    (MA, MEM_IMPL, "MemoryAdapter", "remove_policy", "gen_mem_remove_policy", "mut", ("text", "text", VT), "bool"),
    (MA, MEM_IMPL, "MemoryAdapter", "remove_policies", "gen_mem_remove_policies", "mut", ("text", "text", VVT), "bool"),
    (MA, MEM_IMPL, "MemoryAdapter", "remove_filtered_policy", "gen_mem_remove_filtered_policy", "mut",
     ("text", "text", "nat", VT), "bool"),
    (MA, MEM_IMPL, "MemoryAdapter", "is_filtered", "gen_mem_is_filtered", "shared", (), "bool"),
    (FA, None, None, "load_policy_line", "gen_file_load_policy_line", None, ("text", "mref"), "unit"),
    (FA, None, None, "load_filtered_policy_line", "gen_file_load_filtered_policy_line", None, ("text", "mref", "filter"), "bool"),
    (SA, None, None, "load_policy_line", "gen_str_load_policy_line", None, ("text", "mref"), "unit"),
    (SA, STR_IMPL, "StringAdapter", "load_policy", "gen_str_load_policy", "mut", ("mref",), "unit"),
    (SA, STR_IMPL, "StringAdapter", "load_filtered_policy", "gen_str_load_filtered_policy", "mut", ("mref", "filter"), "unit"),
)
EXPECTED_FIELDS = {"MemoryAdapter": MEM_FIELDS, "StringAdapter": STR_FIELDS}
STEP_OF = "gen_str_load_filtered_policy"      # its loop over the lines is also emitted on its own
STEP_NAME = "gen_str_load_filtered_step"


def signature(entry):
    """Coq binders and result type of a function of the table (the same whether or not the translation succeeds)"""
    _f, _impl, struct, _name, _gen, recv, ptys, ret = entry
    binders, state = [], []
    if recv is not None:
        for fld, t in EXPECTED_FIELDS[struct]:
            binders.append(("st_" + fld, coq_ty(t)))
            if recv == "mut":
                state.append(coq_ty_atom(t))
    mstate = []
    for pt in ptys:
        if pt == "mref":
            mstate.append("model")
    return binders, state + mstate, ret


def result_ty(state, ret):
    if not state:
        return coq_ty_atom(ret)
    return "(%s * %s)" % ("(%s)" % " * ".join(state) if len(state) > 1 else state[0], coq_ty_atom(ret))


def translate(entry, funcs, want_step=False):
    rel, impl, struct, name, gen, recv, ptys, ret = entry
    src = pins.read(rel)
    if not src:
        raise Untranslatable(rel + " not found")
    start = 0
    if impl is not None:
        im = re.search(impl, src)
        if not im:
            raise Untranslatable("%s not found in %s" % (impl, rel))
        start = im.start()
    else:
        # a free function: skip the impl blocks' methods of the same name by requiring column 0
        fm = re.search(r"^(?:pub(?:\([^)]*\))?\s+)?fn\s+%s\b" % name, src, re.M)
        if not fm:
            raise Untranslatable("free function %s not found in %s" % (name, rel))
        start = fm.start()
    params, ret_txt, body = find_fn(src, start, name)
    env, state, binders = {}, [], []
    mparam = None
    rest = params
    if recv is not None:
        r0 = re.sub(r"\s+", "", params[0]) if params else ""
        if r0 != ("&mutself" if recv == "mut" else "&self"):
            raise Untranslatable("%s: receiver %r" % (name, params[0] if params else ""))
        rest = params[1:]
        fields = struct_fields(src, struct)
        if tuple(fields) != tuple(EXPECTED_FIELDS[struct]):
            raise Untranslatable("%s: fields %s" % (struct, ", ".join("%s: %s" % (f, tyname(t)) for f, t in fields)))
        for fld, t in fields:
            env["self." + fld] = [t, recv == "mut"]
            binders.append("(st_%s : %s)" % (fld, coq_ty(t)))
            if recv == "mut":
                state.append("self." + fld)
    elif params and re.sub(r"\s+", "", params[0]) in ("&self", "&mutself", "self"):
        raise Untranslatable("%s: a method where a free function is expected" % name)
    got = []
    pbinders = []
    for prm in rest:
        pm = re.match(r"(mut\s+)?(\w+)\s*:\s*(.+)$", prm, re.S)
        if not pm:
            raise Untranslatable("%s: parameter %r" % (name, prm))
        x, tytxt = pm.group(2), re.sub(r"\s+", "", re.sub(r"&\s*'\w+\s*", "&", pm.group(3)))
        t = rust_type(pm.group(3))
        got.append(t)
        if t == "mref":
            if not tytxt.startswith("&mut"):
                raise Untranslatable("%s: the model is not taken by &mut" % name)
            if mparam is not None:
                raise Untranslatable("%s: two models" % name)
            mparam = x
            env[x] = ["mref", True]
        elif t == "filter":
            env[x] = ["filter", False]
            pbinders.append("(v_%s_p : list text) (v_%s_g : list text)" % (x, x))
        else:
            env[x] = [t, bool(pm.group(1))]
            pbinders.append("(v_%s : %s)" % (x, coq_ty(t)))
    if tuple(got) != tuple(ptys):
        raise Untranslatable("%s: parameter types %s" % (name, ", ".join(tyname(t) for t in got)))
    rt = rust_type(ret_txt) if ret_txt is not None else "unit"
    if rt != ret:
        raise Untranslatable("%s: return type %s" % (name, ret_txt))
    if mparam is not None:
        binders.append("(st_m : model)")
        state.append(mparam)
    p = SPA(slex(body.strip()[1:-1]))
    blk = p.seq("}")
    if p.peek()[0] != "eof":
        raise Untranslatable("%s: trailing tokens" % name)
    _b, st_tys, _r = signature(entry)
    term = fill_nils(EmitA(ret, state, mparam, funcs).function(blk, dict(env)))
    out = "Definition %s %s : option %s :=\n rs_fn %s.\n" % (gen, " ".join(binders + pbinders), result_ty(st_tys, ret), term)
    if not want_step:
        return out, None
    # the body of the (only) top-level loop, as a function of the loop variable: one step
    loops = [s for s in blk[0] if s[0] == "for"]
    if len(loops) != 1 or loops[0][1][0] != "v":
        raise Untranslatable("%s: no single `for x in ..` loop to take as the step" % name)
    lp = loops[0]
    em = EmitA("unit", state, mparam, funcs, step=True)
    # the type of the loop variable, from the iterated expression in the environment before the loop
    env_l = dict(env)
    for s in blk[0]:
        if s is lp:
            break
        if s[0] == "let":
            env_l[s[2]] = [em.ex(s[4], env_l)[0], s[1]]
    elt = resolve(em.ex(lp[2], env_l)[0])
    if not (isinstance(elt, tuple) and elt[0] in ("vec", "set")):
        raise Untranslatable("%s: loop over a %s" % (name, tyname(elt)))
    env_l[lp[1][1]] = [elt[1], False]
    sterm = fill_nils(em.seq(lp[3][0], env_l, lambda en: em.ret_term(("unit",), en)))
    step = "Definition %s %s (v_%s : %s) %s : option %s :=\n rs_fn %s.\n" % (
        STEP_NAME, " ".join(binders), lp[1][1], coq_ty(elt[1]), " ".join(pbinders), result_ty(st_tys, "unit"), sterm)
    return out, step


def stub(entry, gen=None):
    binders, st_tys, ret = signature(entry)
    bs = ["(_ : %s)" % t for _x, t in binders]
    for pt in entry[6]:
        if pt == "mref":
            bs.append("(_ : model)")
    for pt in entry[6]:
        if pt == "filter":
            bs.append("(_ _ : list text)")
        elif pt != "mref":
            bs.append("(_ : %s)" % coq_ty(pt))
    return "Definition %s %s : option %s := None.\n" % (gen or entry[4], " ".join(bs), result_ty(st_tys, ret))


def stub_step(entry):
    binders, st_tys, _ret = signature(entry)
    bs = ["(_ : %s)" % t for _x, t in binders] + ["(_ : model)", "(_ : text)", "(_ _ : list text)"]
    return "Definition %s %s : option %s := None.\n" % (STEP_NAME, " ".join(bs), result_ty(st_tys, "unit"))


def generate():
    out = ["(* GENERATED on every run by tools/rs2coq.py (tools/rs2coq_adapters.py) from /repo/src/adapter/memory_adapter.rs,",
           "   file_adapter.rs (line handlers) and string_adapter.rs - do not edit.",
           "   st_<field> = the fields of self, st_m = the model behind `m: &mut dyn Model`, v_f_p / v_f_g = the two lists of",
           "   `f: Filter`; the result is `option (final state * value)`, None = a panic. *)",
           "From CV Require Import Model.Base Model.Csv Model.Enforce Gen.RustStr Gen.RustVec Gen.AdaptersPrims.", ""]
    ok = True
    funcs = {}
    for entry in FUNCS:
        rel, impl, _struct, name, gen, _recv, ptys, _ret = entry
        try:
            del NILS[:]
            txt, step = translate(entry, funcs if rel == SA else {}, want_step=(gen == STEP_OF))
            out.append("(* %s%s %s *)" % (rel, "" if impl is None else ", " + re.sub(r"\\s\+", " ", impl), name))
            out.append(txt)
            if gen == STEP_OF:
                out.append("(* the body of its loop over the lines, as a function of the line *)")
                out.append(step)
            if impl is None:
                if rel == SA:
                    funcs[name] = (gen, ptys)
        except Exception as ex:   # noqa
            ok = False
            out.append("(* translation of %s (%s) failed: %s *)" % (name, gen, str(ex).replace("*)", "* )").replace("(*", "( *")))
            out.append(stub(entry))
            if gen == STEP_OF:
                out.append(stub_step(entry))
    out.append("Definition gen_adapters_translated : bool := %s." % ("true" if ok else "false"))
    return "\n".join(out) + "\n", ok


def main(dst_dir=None):
    dst_dir = dst_dir or "/verif/coq/Gen"
    txt, ok = generate()
    rs2coq.write_if_changed(os.path.join(dst_dir, "AdaptersGen.v"), txt, ok)


if __name__ == "__main__":
    main(sys.argv[1] if len(sys.argv) > 1 else None)
