#!/usr/bin/env python3
"""Validation of coq/Gen/RegexSyntax.v (the trusted restatement of the PARSER of the `regex` crate: rx_compile /
rx_parse) and of the Captures / closure-replacer restatements of coq/Gen/FmapRt.v against the REAL crate.

For every case a tiny cargo project (<root>/.build/rxs, `regex` from the offline registry with /repo/Cargo.lock)
hands the pattern TEXT to Regex::new at run time:
  * the crate refuses it  -> Example: rx_compile <text> = RxBad RxReject
  * the crate accepts it  -> it is run (captures_iter on the haystack) and the Example checks
        option_map (fun r => (rx_ngroups r, rx_view n r <haystack>)) (rx_parse <text>) = Some (n, <crate output>)
  * cases marked OUT document syntax outside the restatement: rx_compile = RxBad RxOutside (what the crate answers
    is recorded in a comment; nothing is claimed)
  * ("caps", pattern, haystack): Regex::captures -> Captures::len / iter / get / [0]   (FmapRt.v rx_captures ..)
  * ("replf", pattern, haystack, literal): replace_all with a CLOSURE that pushes group 0 and returns the literal
    (no `$` expansion of a closure's result)                                            (FmapRt.v rx_replace_all_with)
  * ("hm", [(k, v) ..], probe): std HashMap insert / get                               (FmapRt.v hm_insert / hm_get)

usage: python3 tools/rx_syntax_examples.py       (rewrites coq/Gen/RegexSyntaxExamples.v; needs cargo, offline)
"""
import hashlib
import os
import shutil
import subprocess
import sys

HERE = os.path.dirname(os.path.abspath(__file__))
ROOT = os.path.dirname(HERE)
sys.path.insert(0, HERE)
import rs2coq_regex as R  # noqa: E402

TAB, LF, CR = "\t", "\n", "\r"
RUN, OUT = "run", "out"

CASES = [
    # --- the texts function_map.rs builds (model class of Model/PathMatch.v)
    (RUN, r"^/foo/[^/]+$", "/foo/bar"),
    (RUN, r"^/foo/[^/]+$", "/foo/bar/baz"),
    (RUN, r"^/foo/[^/]+/.*$", "/foo/bar/baz/qux"),
    (RUN, r"^/([^/]+)/using/([^/]+)$", "/myid/using/myresid"),
    (RUN, r"^/api/([^/]+?)_([^/]+?)/([^/]+?)_admin/info$", "/api/group1_group_name/project1_admin/info"),
    (RUN, r"^/\{id/using/([^/]+?)/status}$", "/{id/using/myresid/status}"),
    (RUN, r"^/proxy/([^/]+?)/.*/([^/]+?)$", "/proxy/myid/res/res2/res3"),
    (RUN, r"^/parent/([^/]+)/child/([^/]+)$", "/parent/123/child/456"),
    (RUN, r"^/foo/.*$", "/foo/a\nb"),
    (RUN, r"^.*$", ""),
    (RUN, r"^$", ""),
    (RUN, r"^$", "a"),
    (RUN, r"^/foo*$", "/fooooo"),
    (RUN, r"^/foo*$", "/fo"),
    (RUN, r"^/[^/]+/[^/]+$", "/a/b"),
    (RUN, r"^/[^/]+/[^/]+$", "/a/b/c"),
    (RUN, r"[^/]+", "/a//bc/"),
    (RUN, r"^/a=b&c%d~e-f_g:h$", "/a=b&c%d~e-f_g:h"),
    (RUN, r"^/:id$", "/:id"),
    # --- texts the crate refuses
    (RUN, r"^/foo/{id}$", "/foo/1"),
    (RUN, r"^/{id}$", ""),
    (RUN, r"^{id}$", ""),
    (RUN, r"{", ""),
    (RUN, r"x{", ""),
    (RUN, r"x{,5}", ""),
    (RUN, r"x{a}", ""),
    (RUN, r"x{}", ""),
    (RUN, r"*", ""),
    (RUN, r"+a", ""),
    (RUN, r"?", ""),
    (RUN, r"a|*", ""),
    (RUN, r"(*)", ""),
    (RUN, r"(?:+)", ""),
    (RUN, r"a(", ""),
    (RUN, r"a)", ""),
    (RUN, r"(a", ""),
    (RUN, r"((a)", ""),
    (RUN, r"(a))", ""),
    (RUN, r"(a|b", ""),
    (RUN, r"[", ""),
    (RUN, r"[a", ""),
    (RUN, r"[^", ""),
    (RUN, r"[z-a]", ""),
    (RUN, "a\\", ""),
    (RUN, "[a\\", ""),
    (RUN, r"[a-", ""),
    (RUN, r"^/foo/[^/]+/{x$", ""),
    # --- alternation, groups, numbering
    (RUN, r"(GET)|(POST)", "xPOSTy GET"),
    (RUN, r"^(GET|POST)$", "POST"),
    (RUN, r"GET", "xGETx"),
    (RUN, r"a|b|c", "cab"),
    (RUN, r"(a|b|c)+", "abcx"),
    (RUN, r"(?:a|bc)*d", "abcad"),
    (RUN, r"(?:a)(b)", "ab"),
    (RUN, r"((a)(b))", "ab"),
    (RUN, r"(a)(b)?", "a"),
    (RUN, r"(a)|(b)", "b"),
    (RUN, r"", "ab"),
    (RUN, r"|a", "a"),
    (RUN, r"a|", "ba"),
    (RUN, r"()", "a"),
    (RUN, r"(|a)b", "ab b"),
    (RUN, r"(a|ab)(c|bcd)?", "abcd"),
    # --- repetition, lazy forms
    (RUN, r"a*?b", "aab"),
    (RUN, r"(a+?)(a*)", "aaa"),
    (RUN, r"a??b", "ab b"),
    (RUN, r"(a?)(a??)", "aa"),
    (RUN, r"x*", "xxa"),
    (RUN, r"(ab)+?c", "ababc"),
    (RUN, r"(?:(a)|b)*", "abb"),
    (RUN, r"(a*)?b", "aab b"),
    # --- escapes, classes, assertions, literal } and ]
    (RUN, r"\.\*\+\?\(\)\[\]\{\}\|\\\/\^\$\-", r"x.*+?()[]{}|\/^$-y"),
    (RUN, r"\d+\s\w+", "a 12 b_3"),
    (RUN, r"\S+", " ab\tc\n d "),
    (RUN, r"\D+|\d", "ab12c"),
    (RUN, r"\W", "a-b_c d"),
    (RUN, r"\bfoo\b", "foo xfoo foo_ foo"),
    (RUN, r"\Bo", "oo o"),
    (RUN, r"a\nb\tc\rd", "a\nb\tc\rd"),
    (RUN, "a\tb", "xa\tb"),
    (RUN, r"[a-c0-2_-]+", "ab3-_2d0"),
    (RUN, r"[^\s,]+", "a b,c\td"),
    (RUN, r"[-a]+", "a-b"),
    (RUN, r"[a-]+", "a-b"),
    (RUN, r"[^-a]+", "a-bc"),
    (RUN, r"[.*+?(){}|$/]+", "a.*+?(){}|$/b"),
    (RUN, r"[\]\[]+", "a[]]b"),
    (RUN, r"[\w.]+", "a.b c"),
    (RUN, r"[^a-c]", "abcd"),
    (RUN, r"a}b", "a}b"),
    (RUN, r"a]b", "a]b"),
    (RUN, r"a.c", "abc a\nc axc"),
    (RUN, r"^", "ab"),
    (RUN, r"$", "ab"),
    (RUN, r"\/a", "/a"),
    (RUN, r"\ \#", "a #"),
    # --- non-ASCII literal in the pattern (ASCII haystack)
    (RUN, "^/é/[^/]+$", "/e/x"),
    (RUN, "é|a", "ba"),
    # --- OUTSIDE the restatement (documented; the crate's verdict is in the comment)
    (OUT, r"a{2}", ""),
    (OUT, r"{2}", ""),
    (OUT, r"a{2,3}?", ""),
    (OUT, r"(?i)a", ""),
    (OUT, r"(?P<n>a)", ""),
    (OUT, r"(?=a)", ""),
    (OUT, r"a**", ""),
    (OUT, r"a+??", ""),
    (OUT, r"^*", ""),
    (OUT, r"\pL", ""),
    (OUT, r"\x41", ""),
    (OUT, r"\1", ""),
    (OUT, r"\e", ""),
    (OUT, r"\Aa\z", ""),
    (OUT, r"\b{start}", ""),
    (OUT, r"[[:alpha:]]", ""),
    (OUT, r"[a&&b]", ""),
    (OUT, r"[]a]", ""),
    (OUT, r"[a^]", ""),
    (OUT, r"(a*)*", ""),
    (OUT, r"(|a)+", ""),
    (OUT, "é*", ""),
    (OUT, "(" * 17 + "a" + ")" * 17, ""),
    # --- Captures API / closure replacer / HashMap (Gen/FmapRt.v)
    ("caps", r"^/([^/]+)/(x)?(.*)$", "/ab/cd"),
    ("caps", r"(a)|(b)", "zb"),
    ("caps", r"a", "b"),
    ("caps", r"^/([^/]+)$", "/k"),
    ("replf", r"\{[^/]+?\}", "/a/{id}/{x}y{}/{z", "($1[^/]+)"),
    ("replf", r"(b)", "abcb", "<$1>"),
    ("replf", r"x", "abc", "-"),
    ("hm", [("a", "1"), ("b", "2"), ("a", "3")], ["a", "b", "c"]),
]


def bts(s):
    return s.encode("utf-8")


def rust_bytes(s):
    return "&[" + ", ".join(str(b) for b in bts(s)) + "]"


def coq_bytes_text(s):
    """a Gallina term of type text for an arbitrary string (UTF-8 bytes)"""
    b = bts(s)
    if all(x < 128 for x in b):
        return R.coq_text(s)
    parts, cur = [], ""
    for x in b:
        if 32 <= x < 127:
            cur += chr(x)
        else:
            if cur:
                parts.append(R.coq_text(cur)[1:-1])
                cur = ""
            parts.append("[ascii_of_nat %d]" % x)
    if cur:
        parts.append(R.coq_text(cur)[1:-1])
    return "(" + " ++ ".join(parts) + ")"


def run_crate():
    rx = os.path.join(ROOT, ".build", "rxs")
    os.makedirs(os.path.join(rx, "src"), exist_ok=True)
    if not os.path.exists(os.path.join(rx, "Cargo.lock")):
        shutil.copy(os.path.join(os.environ.get("VERIF_REPO", "/repo"), "Cargo.lock"), os.path.join(rx, "Cargo.lock"))
    open(os.path.join(rx, "Cargo.toml"), "w").write(
        '[package]\nname = "rxs"\nversion = "0.1.0"\nedition = "2021"\n\n[workspace]\n\n[dependencies]\nregex = "1.5.4"\n')
    lines = ["use regex::Regex;", "use std::collections::HashMap;",
             "fn s(b: &[u8]) -> String { String::from_utf8(b.to_vec()).unwrap() }",
             "fn bytes(t: &str) -> String { format!(\"[{}]\", t.bytes().map(|b| b.to_string()).collect::<Vec<_>>().join(\" \")) }",
             "fn main() {"]
    for i, c in enumerate(CASES):
        if c[0] in (RUN, OUT):
            lines.append("""    {{ let h = s({hay}); print!("{i}");
      match Regex::new(&s({pat})) {{ Err(_) => print!(" | ERR"), Ok(re) => {{ print!(" | OK {{}}", re.captures_len() - 1);
      for c in re.captures_iter(&h) {{ let m = c.get(0).unwrap(); print!(" | {{}} {{}}", m.start(), m.end());
        for g in 1..c.len() {{ match c.get(g) {{ Some(x) => print!(" {{}}", bytes(x.as_str())), None => print!(" -") }} }} }} }} }}
      println!(); }}""".format(pat=rust_bytes(c[1]), hay=rust_bytes(c[2]), i=i))
        elif c[0] == "caps":
            lines.append("""    {{ let h = s({hay}); let re = Regex::new(&s({pat})).unwrap(); print!("{i} | {{}}", re.captures_len());
      match re.captures(&h) {{ None => print!(" | NONE"), Some(caps) => {{ print!(" | {{}} | {{}} |", caps.len(), bytes(&caps[0]));
        for m in caps.iter() {{ match m {{ Some(x) => print!(" {{}}", bytes(x.as_str())), None => print!(" -") }} }}
        print!(" |");
        for g in 0..caps.len() + 2 {{ match caps.get(g) {{ Some(x) => print!(" {{}}", bytes(x.as_str())), None => print!(" -") }} }} }} }}
      println!(); }}""".format(pat=rust_bytes(c[1]), hay=rust_bytes(c[2]), i=i))
        elif c[0] == "replf":
            lines.append("""    {{ let h = s({hay}); let re = Regex::new(&s({pat})).unwrap(); let lit = s({lit}); let mut seen: Vec<String> = Vec::new();
      let out = re.replace_all(&h, |caps: &regex::Captures| {{ seen.push(caps[0].to_string()); lit.clone() }}).to_string();
      print!("{i} | {{}} |", bytes(&out)); for x in seen.iter() {{ print!(" {{}}", bytes(x)); }} println!(); }}""".format(
                pat=rust_bytes(c[1]), hay=rust_bytes(c[2]), lit=rust_bytes(c[3]), i=i))
        elif c[0] == "hm":
            ins = " ".join('m.insert(s(%s), s(%s));' % (rust_bytes(k), rust_bytes(v)) for k, v in c[1])
            probes = " ".join('match m.get(&s(%s)) { Some(x) => print!(" {}", bytes(x)), None => print!(" -") }' % rust_bytes(p)
                              for p in c[2])
            lines.append("""    {{ let mut m: HashMap<String, String> = HashMap::new(); %s print!("%d |"); %s println!(); }}""" % (ins, i, probes))
    lines.append("}")
    new_main = "\n".join(lines) + "\n"
    mp = os.path.join(rx, "src", "main.rs")
    if not os.path.exists(mp) or open(mp).read() != new_main:
        open(mp, "w").write(new_main)
    env = dict(os.environ, CARGO_NET_OFFLINE="true")
    p = subprocess.run(["cargo", "run", "--offline", "-q"], cwd=rx, env=env, capture_output=True, text=True, timeout=1800)
    if p.returncode != 0:
        sys.exit("cargo failed:\n" + p.stderr)
    return p.stdout.splitlines()


def dec(tok):
    """`[b b b]` -> str (latin-1 carrier of the bytes)"""
    inner = tok.strip()[1:-1].split()
    return bytes(int(x) for x in inner).decode("utf-8")


def split_items(s):
    """`- [1 2] [] -` -> [None, 'ab', '', None]"""
    out, i, s = [], 0, s.strip()
    while i < len(s):
        if s[i] == " ":
            i += 1
        elif s[i] == "-":
            out.append(None)
            i += 1
        else:
            j = s.index("]", i)
            out.append(dec(s[i:j + 1]))
            i = j + 1
    return out


def opt_text(g):
    return "None" if g is None else "Some %s" % coq_bytes_text(g)


def main():
    outl = run_crate()
    assert len(outl) == len(CASES), (len(outl), len(CASES))
    stamp = hashlib.sha256((repr(CASES) + "\n".join(outl)).encode("utf-8")).hexdigest()[:20]
    dst = os.path.join(ROOT, "coq", "Gen", "RegexSyntaxExamples.v")
    try:
        if ("crate-output-stamp: " + stamp) in open(dst, encoding="utf-8").read():
            print("rx_syntax_examples: unchanged")
            return
    except OSError:
        pass
    v = ["(* GENERATED by tools/rx_syntax_examples.py: every expected value below is the OUTPUT OF THE REAL `regex` crate",
         "   (regex 1.13.1, offline registry): the pattern TEXT is handed to Regex::new at run time; `ERR` = the crate refuses",
         "   it (Example: rx_compile = RxBad RxReject), otherwise captures_len() - 1 and the matches of captures_iter on the",
         "   haystack as (start, end, [group 1; ..; group n]) (Example: what rx_parse's AST gives under Gen/Regex.v).",
         "   rx_syn_out..: syntax OUTSIDE Gen/RegexSyntax.v (documented, nothing claimed).  rx_caps.. rx_replf.. rx_hm..: the",
         "   Captures / closure-replacer / HashMap restatements of Gen/FmapRt.v. *)",
         "(* crate-output-stamp: %s *)" % stamp,
         "From CV Require Import Model.Base Gen.RustStr Gen.Regex Gen.RegexRt Gen.RegexSyntax Gen.FmapRt.", "",
         "Definition rx_view (n : nat) (r : regex) (h : text) : list (nat * nat * list (option text)) :=",
         "  map (fun m => (m_start m, m_end m, map (fun g => cap_get g (m_caps m)) (seq 1 n))) (rx_find_iter r h).", ""]
    nrun = nerr = 0
    for i, (c, line) in enumerate(zip(CASES, outl)):
        parts = [x.strip() for x in line.split("|")]
        assert parts[0] == str(i), line
        if c[0] in (RUN, OUT):
            pat = coq_bytes_text(c[1])
            v.append("(* %d: %s   on   %s   -> crate: %s *)" % (i, R.comment_safe(repr(c[1])), R.comment_safe(repr(c[2])),
                                                           parts[1]))
            if c[0] == OUT:
                v.append("Example rx_syn_out%d : rx_compile %s = RxBad RxOutside.\nProof. vm_compute. reflexivity. Qed.\n" % (i, pat))
                continue
            nrun += 1
            if parts[1] == "ERR":
                nerr += 1
                v.append("Example rx_syn_ex%d : rx_compile %s = RxBad RxReject.\nProof. vm_compute. reflexivity. Qed.\n" % (i, pat))
                continue
            n = int(parts[1].split()[1])
            ms = []
            for p in parts[2:]:
                tk = p.split(None, 2)
                gs = split_items(tk[2]) if len(tk) > 2 else []
                assert len(gs) == n, (c, gs)
                ms.append("(%s, %s, [%s])" % (tk[0], tk[1], "; ".join(opt_text(g) for g in gs)))
            v.append("Example rx_syn_ex%d : option_map (fun r => (rx_ngroups r, rx_view %d r %s)) (rx_parse %s) =\n  Some (%d, [%s]).\n"
                     "Proof. vm_compute. reflexivity. Qed.\n" % (i, n, coq_bytes_text(c[2]), pat, n, ";\n   ".join(ms)))
        elif c[0] == "caps":
            ast = R.regex_to_coq(c[1])
            v.append("(* %d: captures of %s on %s *)" % (i, R.comment_safe(repr(c[1])), R.comment_safe(repr(c[2]))))
            clen = int(parts[1])
            if parts[2] == "NONE":
                v.append("Example rx_caps%d : (rx_captures_len %s, rx_captures %s %s) = (%d, None).\nProof. vm_compute. reflexivity. Qed.\n" % (
                    i, ast, ast, R.coq_text(c[2]), clen))
                continue
            it = split_items(parts[4])
            gets = split_items(parts[5])
            v.append("Example rx_caps%d : (rx_captures_len %s,\n  option_map (fun c => (rx_caps_len c, rx_caps_index c 0, rx_caps_iter c, map (rx_caps_get c) (seq 0 %d))) (rx_captures %s %s)) =\n"
                     "  (%d, Some (%d, Some %s, [%s], [%s])).\nProof. vm_compute. reflexivity. Qed.\n" % (
                         i, ast, len(gets), ast, R.coq_text(c[2]), clen, int(parts[2]), coq_bytes_text(dec(parts[3])),
                         "; ".join(opt_text(g) for g in it), "; ".join(opt_text(g) for g in gets)))
        elif c[0] == "replf":
            ast = R.regex_to_coq(c[1])
            seen = split_items(parts[2]) if len(parts) > 2 else []
            v.append("(* %d: replace_all of %s on %s with a closure returning %s *)" % (
                i, R.comment_safe(repr(c[1])), R.comment_safe(repr(c[2])), R.comment_safe(repr(c[3]))))
            v.append("Example rx_replf%d : rx_replace_all_with %s %s (fun c seen => Some (%s, seen ++ [rx_caps_index c 0])) [] =\n"
                     "  Some (%s, [%s]).\nProof. vm_compute. reflexivity. Qed.\n" % (
                         i, ast, R.coq_text(c[2]), R.coq_text(c[3]), coq_bytes_text(dec(parts[1])),
                         "; ".join(opt_text(g) for g in seen)))
        elif c[0] == "hm":
            got = split_items(parts[1])
            m = "hm_new"
            for k, val in c[1]:
                m = "(hm_insert %s %s %s)" % (m, R.coq_text(k), R.coq_text(val))
            v.append("(* %d: HashMap insert / get *)" % i)
            v.append("Example rx_hm%d : map (hm_get %s) [%s] =\n  [%s].\nProof. vm_compute. reflexivity. Qed.\n" % (
                i, m, "; ".join(R.coq_text(p) for p in c[2]), "; ".join(opt_text(g) for g in got)))
    open(dst, "w").write("\n".join(v) + "\n")
    print("rx_syntax_examples: %d cases written to %s (%d run against the crate, %d of them refused by it)" % (
        len(CASES), dst, nrun, nerr))


if __name__ == "__main__":
    main()
