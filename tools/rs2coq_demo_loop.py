#!/usr/bin/env python3
"""Robustness / sensitivity demonstration for part 10 of rs2coq (tools/rs2coq_loop.py): the two enforcement
loops Enforcer::private_enforce / private_enforce_with_context of src/enforcer.rs.

For every variant: copy /repo/src to a scratch repo (tempfile.mkdtemp()), edit the body of one or both
functions there, run rs2coq_loop on the scratch repo INTO THE SCRATCH DIRECTORY, and compile there
  EnforceGen.v          (the translation)                      as SCR.EnforceGen
  PcEnforceGen.v        (a copy of coq/PinChecks/PcEnforceGen.v that imports SCR.EnforceGen instead of
                         CV.Gen.EnforceGen)                   as SCR.PcEnforceGen
against the built coq/ tree (-Q coq CV), which is never written to.  Expectation: a meaning-preserving
rewrite keeps the proofs; a change of meaning (or a construct outside the subset) breaks the translation
or a proof.  For a variant that WAS translated but whose proof fails, the translated function and the
model are evaluated (vm_compute) on fixed inputs and the first input on which they differ is shown, so
that a failed proof is seen to be a change of meaning and not a weakness of the tactics.

usage: python3 tools/rs2coq_demo_loop.py [label-prefix ..]
needs: coq/ built at least up to PinChecks/PcEnforceGen.vo"""
import os
import re
import shutil
import subprocess
import sys
import tempfile

HERE = os.path.dirname(os.path.abspath(__file__))
ROOT = os.path.dirname(HERE)
COQ = os.path.join(ROOT, "coq")
SCRATCH = tempfile.mkdtemp(prefix="rs2coq_demo_loop_")
sys.path.insert(0, HERE)
import pins  # noqa: E402

ENF = "src/enforcer.rs"
PLAIN, CTX = "private_enforce", "private_enforce_with_context"
BOTH = (PLAIN, CTX)

# ---- pieces of the source that the variants replace (each must occur exactly once in a function body)
REQ_ARITY = "if r_ast.tokens.len() != rvals.len() {"
CAP = "self.eft.new_stream(&e_ast.value, max(policy_len, 1));"
EMPTY_IF = "if policy_len == 0 {"
EMPTY_EFT = """let eft = if eval_result {
                EffectKind::Allow
            } else {
                EffectKind::Indeterminate
            };

            eft_stream.push_effect(eft);

            return Ok((eft_stream.next(), None));"""
RULE_ARITY = "if p_ast.tokens.len() != pvals.len() {"
PUSH_BREAK = """if eft_stream.push_effect(eft) {
                break;
            }"""
MAP_PLAIN = """let eft = match p_ast.tokens.iter().position(|x| x == "p_eft") {
                Some(j) if eval_result => {
                    let p_eft = &pvals[j];
                    if p_eft == "deny" {
                        EffectKind::Deny
                    } else if p_eft == "allow" {
                        EffectKind::Allow
                    } else {
                        EffectKind::Indeterminate
                    }
                }
                None if eval_result => EffectKind::Allow,
                _ => EffectKind::Indeterminate,
            };"""
MAP_CTX_HEAD = """let eft_token = format!("{}_eft", ctx.p_type);
            let eft = match p_ast.tokens.iter().position(|x| *x == eft_token) {"""
MAP_CTX = MAP_CTX_HEAD + MAP_PLAIN[MAP_PLAIN.index("{") + 1:]
THREE_WAY = """if p_eft == "deny" {
                        EffectKind::Deny
                    } else if p_eft == "allow" {
                        EffectKind::Allow
                    } else {
                        EffectKind::Indeterminate
                    }"""

# (label, expectation, [(function, [(old, new)])])
VARIANTS = [
    ("LP0 unmodified sources", "pass", []),
    ("LP1 both: arity tests as !(b == a) / swapped operands, max(1, policy_len), policies.is_empty()", "pass",
     [(f, [(REQ_ARITY, "if !(rvals.len() == r_ast.tokens.len()) {"),
           (CAP, "self.eft.new_stream(&e_ast.value, max(1, policy_len));"),
           (EMPTY_IF, "if policies.is_empty() {"),
           (RULE_ARITY, "if pvals.len() != p_ast.tokens.len() {")]) for f in BOTH]),
    ("LP2 plain: the effect as an if / else-if-let chain (matched first, allow tested before deny)", "pass",
     [(PLAIN, [(MAP_PLAIN, """let eft = if !eval_result {
                EffectKind::Indeterminate
            } else if let Some(j) = p_ast.tokens.iter().position(|x| x == "p_eft") {
                let p_eft = &pvals[j];
                if p_eft == "allow" {
                    EffectKind::Allow
                } else if p_eft == "deny" {
                    EffectKind::Deny
                } else {
                    EffectKind::Indeterminate
                }
            } else {
                EffectKind::Allow
            };""")])]),
    ("LP3 both: the flag of push_effect in a local, `if stop { break; }`; capacity as an if expression", "pass",
     [(f, [(PUSH_BREAK, """let stop = eft_stream.push_effect(eft);
            if stop {
                break;
            }"""),
           (CAP, "self.eft.new_stream(&e_ast.value, if policy_len == 0 { 1 } else { policy_len });")]) for f in BOTH]),
    ("LP4 plain: match arms reordered (`_ if !eval_result` first, None, Some), literal on the left of ==", "pass",
     [(PLAIN, [(MAP_PLAIN, """let eft = match p_ast.tokens.iter().position(|x| "p_eft" == x) {
                _ if !eval_result => EffectKind::Indeterminate,
                None => EffectKind::Allow,
                Some(k) => {
                    let v = &pvals[k];
                    if v == "deny" {
                        EffectKind::Deny
                    } else if v != "allow" {
                        EffectKind::Indeterminate
                    } else {
                        EffectKind::Allow
                    }
                }
            };""")])]),
    ("LP5 ctx: the effect token computed once before the loop, compared as `x == &eft_token`", "pass",
     [(CTX, [("for pvals in policies {", """let eft_token = format!("{}_eft", &ctx.p_type);
        for pvals in policies {"""),
             (MAP_CTX_HEAD, "let eft = match p_ast.tokens.iter().position(|x| x == &eft_token) {")])]),
    ("LP6 plain: the empty-policy branch negated (`if !eval_result { Indeterminate } else { Allow }`), flag bound and unused", "pass",
     [(PLAIN, [(EMPTY_EFT, """let eft = if !eval_result {
                EffectKind::Indeterminate
            } else {
                EffectKind::Allow
            };
            let _full = eft_stream.push_effect(eft);
            return Ok((eft_stream.next(), None));""")])]),
    ("LP7 both: locals renamed (pvals -> rule, scope -> sc, eft_stream -> stream: the carried pair changes order)", "pass",
     [(f, [(r"\bpvals\b", "rule"), (r"\bscope\b", "sc"), (r"\beft_stream\b", "stream")]) for f in BOTH]),
    ("LN1 (i) plain: the empty-policy branch pushes Deny instead of Indeterminate when the matcher is false", "fail",
     [(PLAIN, [(EMPTY_EFT, EMPTY_EFT.replace("EffectKind::Indeterminate", "EffectKind::Deny"))])]),
    ("LN2 (ii) plain: the empty-policy branch returns eval_result instead of eft_stream.next()", "fail",
     [(PLAIN, [(EMPTY_EFT, EMPTY_EFT.replace("Ok((eft_stream.next(), None))", "Ok((eval_result, None))"))])]),
    ("LN3 (iii) plain: rule arity check `>` instead of `!=`", "fail",
     [(PLAIN, [(RULE_ARITY, "if p_ast.tokens.len() > pvals.len() {")])]),
    ("LN3c (iii) ctx: rule arity check `>` instead of `!=`", "fail",
     [(CTX, [(RULE_ARITY, "if p_ast.tokens.len() > pvals.len() {")])]),
    ("LN4 (iv) ctx: an effect value other than allow / deny counts as Allow (two-way mapping)", "fail",
     [(CTX, [(THREE_WAY, """if p_eft == "deny" {
                        EffectKind::Deny
                    } else {
                        EffectKind::Allow
                    }""")])]),
    ("LN5 (v) ctx: searches the token \"p_eft\" instead of <p_type>_eft", "fail",
     [(CTX, [(MAP_CTX_HEAD, """let eft = match p_ast.tokens.iter().position(|x| x == "p_eft") {""")])]),
    ("LN6 (vi) plain: case-insensitive comparison of the effect value (eq_ignore_ascii_case)", "fail",
     [(PLAIN, [(THREE_WAY, THREE_WAY.replace('p_eft == "deny"', 'p_eft.eq_ignore_ascii_case("deny")')
                .replace('p_eft == "allow"', 'p_eft.eq_ignore_ascii_case("allow")'))])]),
    ("LN7 (vii) plain: no break after push_effect returned true", "fail",
     [(PLAIN, [(PUSH_BREAK, "eft_stream.push_effect(eft);")])]),
    ("LN7c (vii) ctx: no break after push_effect returned true", "fail",
     [(CTX, [(PUSH_BREAK, "eft_stream.push_effect(eft);")])]),
    ("LN8 (viii) plain: capacity policy_len instead of max(policy_len, 1)", "fail",
     [(PLAIN, [(CAP, "self.eft.new_stream(&e_ast.value, policy_len);")])]),
    ("LN9 plain: request arity checked AFTER the effect stream is created (a bad effect text now panics first)", "fail",
     [(PLAIN, [(REQ_ARITY, "if false {"),
               ("let m_ast_compiled = self", """if r_ast.tokens.len() != rvals.len() {
            return Err(RequestError::UnmatchRequestDefinition(
                r_ast.tokens.len(),
                rvals.len(),
            )
            .into());
        }
        let m_ast_compiled = self""")])]),
    ("LN10 plain: no scope.rewind (the constants of the earlier rules stay; rhai would still see the newest, the "
     "model's scope is not that one: unprovable, no behavioural witness)", "fail",
     [(PLAIN, [("scope.rewind(scope_len);", "")])]),
    ("LN11 ctx: the policy is looked up with the key of the request (ctx.r_type)", "fail",
     [(CTX, [("&ctx.p_type,\n            ModelError::P", "&ctx.r_type,\n            ModelError::P")])]),
    ("LN12 plain: the lookups report a missing matcher as a PolicyError", "fail",
     [(PLAIN, [('get_or_err!(self, "m", ModelError::M, "matcher")', 'get_or_err!(self, "m", PolicyError::M, "matcher")')])]),
]


def run(cmd, **kw):
    return subprocess.run(cmd, stdout=subprocess.PIPE, stderr=subprocess.STDOUT, text=True, **kw)


def coqc(path):
    return run(["timeout", "900", "coqc", "-Q", COQ, "CV", "-Q", SCRATCH, "SCR", "-w",
                "-notation-overridden,-deprecated-hint-without-locality,-deprecated-instance-without-locality", path],
               cwd=SCRATCH)


def edit(fn, pairs):
    path = os.path.join(SCRATCH, ENF)
    src = open(path, encoding="utf-8").read()
    start = re.search(r"\nimpl\s+Enforcer\s*\{", src).end()
    old = pins.fn_body(src, r"fn\s+%s\s*\(" % fn, start)
    assert old is not None and src.count(old) == 1, fn
    new = old
    for a, b in pairs:
        if a.startswith("\\b"):                   # a regular expression: every occurrence (renaming)
            assert re.search(a, new), "%s: no occurrence of %r" % (fn, a)
            new = re.sub(a, b, new)
            continue
        assert new.count(a) == 1, "%s: %d occurrences of %r" % (fn, new.count(a), a[:50])
        new = new.replace(a, b)
    open(path, "w", encoding="utf-8").write(src.replace(old, new))


def scratch_checks():
    """coq/PinChecks/PcEnforceGen.v with SCR.EnforceGen in the place of CV.Gen.EnforceGen"""
    txt = open(os.path.join(COQ, "PinChecks", "PcEnforceGen.v"), encoding="utf-8").read()
    assert txt.count(" Gen.EnforceGen.") == 1
    txt = txt.replace(" Gen.EnforceGen.", ".\nFrom SCR Require Import EnforceGen.")
    open(os.path.join(SCRATCH, "PcEnforceGen.v"), "w", encoding="utf-8").write(txt)


# ---- witness: fixed inputs on which the translated functions are compared with the model
WITNESS_V = r"""
From CV Require Import Model.Base Model.Effector Model.Expr Model.Enforce Gen.RustStr Gen.RustVec Gen.RustEnf.
From SCR Require Import EnforceGen.
Definition w_ptab : text -> option expr := fun _ => None.
Definition w_ast (v : text) (toks : list text) (pol : list rule) : assertion :=
  {| a_value := v; a_tokens := toks; a_policy := pol; a_handle := HOwn |}.
Definition w_fs : fstate := {| f_rm := []; f_rm_max := 10; f_gfuns := []; f_ufuns := [] |}.
Definition w_eq (k1 k2 f : text) : expr := EEq (EVar k1 f) (EVar k2 f).
(* k = 1: the model has no "m" section *)
Definition w_model (k : nat) (e : text) (pol : list rule) : model :=
  [(s_r, [(s_r, w_ast (T "sub, obj, act") [T "r_sub"; T "r_obj"; T "r_act"] []);
          (T "r2", w_ast (T "sub, obj, act") [T "r2_sub"; T "r2_obj"; T "r2_act"] [])]);
   (s_p, [(s_p, w_ast (T "sub, obj, act, eft") [T "p_sub"; T "p_obj"; T "p_act"; T "p_eft"] pol);
          (T "p2", w_ast (T "sub, obj, act, eft") [T "p2_sub"; T "p2_obj"; T "p2_act"; T "p2_eft"] pol)]);
   (s_e, [(s_e, w_ast e [] []); (T "e2", w_ast e [] [])])] ++
  (if Nat.eqb k 0 then [(s_m, [(s_m, w_ast (T "m") [] []); (T "m2", w_ast (T "m2") [] [])])] else []).
Definition w_mexprs : list (text * expr) :=
  [(s_m, EAnd (EAnd (w_eq s_r s_p (T "sub")) (w_eq s_r s_p (T "obj"))) (w_eq s_r s_p (T "act")));
   (T "m2", EAnd (w_eq (T "r2") (T "p2") (T "sub")) (w_eq (T "r2") (T "p2") (T "obj")))].
Definition w_effects : list text := [s_allow_override; s_deny_override; s_allow_and_deny; s_priority; T "nonsense"].
Definition w_policies : list (list rule) :=
  [ [[T "alice"; T "data1"; T "read"; T "allow"]; [T "bob"; T "data2"; T "write"; T "allow"];
     [T "bob"; T "data2"; T "write"; T "deny"]; [T "carol"; T "data3"; T "read"; T "maybe"];
     [T "dan"; T "data4"; T "read"; T "ALLOW"]];
    [];
    [[T "alice"; T "data1"; T "read"; T "allow"; T "extra"]];
    [[T "alice"; T "data1"]] ].
Definition w_requests : list (list value) :=
  [ [VStr (T "alice"); VStr (T "data1"); VStr (T "read")]; [VStr (T "bob"); VStr (T "data2"); VStr (T "write")];
    [VStr (T "carol"); VStr (T "data3"); VStr (T "read")]; [VStr (T "dan"); VStr (T "data4"); VStr (T "read")];
    [VStr (T "alice")] ].
(* Ok false = 0, Ok true = 1, Err = 10 + class, Panic = 99 *)
Definition w_code (o : outcome bool) : nat :=
  match o with
  | Ok false => 0 | Ok true => 1 | Panic => 99
  | Err ERequest => 10 | Err EPolicy => 11 | Err EEvalc => 12 | Err EModel => 13 | Err _ => 14
  end.
Definition w_cases : list (nat * nat * nat * nat) :=
  flat_map (fun k => flat_map (fun e => flat_map (fun p => map (fun r => (k, e, p, r)) (seq 0 (length w_requests)))
                                                  (seq 0 (length w_policies)))
                              (seq 0 (length w_effects))) [0; 1].
Definition w_get {A} (l : list A) (d : A) (i : nat) := nth i l d.
Definition w_run (ctx : bool) (c : nat * nat * nat * nat) : nat * nat :=
  let '(k, e, p, r) := c in
  let md := w_model k (w_get w_effects [] e) (w_get w_policies [] p) in
  let rv := w_get w_requests [] r in
  if ctx then
    (w_code (gen_private_enforce_with_context w_ptab true md w_mexprs w_fs (T "r2") (T "p2") (T "e2") (T "m2") rv),
     w_code (enforce_core w_ptab true md w_mexprs w_fs (T "r2") (T "p2") (T "e2") (T "m2") (tok (T "p2") s_eft) rv))
  else
    (w_code (gen_private_enforce w_ptab true md w_mexprs w_fs rv),
     w_code (enforce_core w_ptab true md w_mexprs w_fs s_r s_p s_e s_m (tok s_p s_eft) rv)).
Definition first_bad (ctx : bool) : list nat :=
  match find (fun c => negb (Nat.eqb (fst (w_run ctx c)) (snd (w_run ctx c)))) w_cases with
  | Some (k, e, p, r) => [k; e; p; r; fst (w_run ctx (k, e, p, r)); snd (w_run ctx (k, e, p, r))]
  | None => []
  end.
Eval vm_compute in (first_bad false, first_bad true).
"""
W_EFFECTS = ["allow-override", "deny-override", "allow-and-deny", "priority", "an unsupported effect text"]
W_POLICIES = ["the 5-rule policy (allow, allow, deny, maybe, ALLOW)", "the empty policy", "one rule with 5 fields", "one rule with 2 fields"]
W_REQUESTS = ["(alice, data1, read)", "(bob, data2, write)", "(carol, data3, read)", "(dan, data4, read)", "(alice) [arity 1]"]
W_CODES = {0: "Ok false", 1: "Ok true", 99: "Panic", 10: "Err Request", 11: "Err Policy", 12: "Err Eval", 13: "Err Model", 14: "Err other"}


def witness():
    path = os.path.join(SCRATCH, "Witness.v")
    open(path, "w").write(WITNESS_V)
    r = coqc(path)
    if r.returncode != 0:
        return "witness file did not compile"
    flat = " ".join(r.stdout.split())
    m = re.search(r"= \(\[([\d; ]*)\], \[([\d; ]*)\]\)", flat)
    if not m:
        return "witness output not understood"
    out = []
    for which, g in (("private_enforce", 1), ("private_enforce_with_context", 2)):
        nums = [int(x) for x in m.group(g).split(";") if x.strip()]
        if nums:
            k, e, p, q, gv, mv = nums
            out.append("%s differs from the model on %s%s, %s, request %s: translated = %s, model = %s" % (
                which, W_EFFECTS[e], " (no matcher section)" if k else "", W_POLICIES[p], W_REQUESTS[q],
                W_CODES.get(gv, gv), W_CODES.get(mv, mv)))
    n = 2 * len(W_EFFECTS) * len(W_POLICIES) * len(W_REQUESTS)
    return "; ".join(out) if out else "no difference on the %d fixed inputs" % n


def main():
    only = sys.argv[1:]
    results = []
    for label, expect, edits in VARIANTS:
        if only and not any(label.startswith(o) for o in only):
            continue
        for x in os.listdir(SCRATCH):
            p = os.path.join(SCRATCH, x)
            shutil.rmtree(p) if os.path.isdir(p) else os.remove(p)
        shutil.copytree("/repo/src", os.path.join(SCRATCH, "src"))
        for fn, pairs in edits:
            edit(fn, pairs)
        env = dict(os.environ, VERIF_REPO=SCRATCH)
        g = run([sys.executable, os.path.join(HERE, "rs2coq_loop.py"), SCRATCH], env=env)
        gen_path = os.path.join(SCRATCH, "EnforceGen.v")
        if not os.path.exists(gen_path):
            print("ERROR: the translator crashed on %s:\n%s" % (label, g.stdout))
            results.append(False)
            continue
        gen = open(gen_path).read()
        fails = re.findall(r"\(\* translation of (\w+) failed: (.*?) \*\)", gen, re.S)
        c1 = coqc(gen_path)
        scratch_checks()
        c2 = coqc(os.path.join(SCRATCH, "PcEnforceGen.v")) if c1.returncode == 0 else c1
        ok = c1.returncode == 0 and c2.returncode == 0
        why = ""
        if not ok:
            m = re.search(r'File "[^"]*PcEnforceGen\.v", line (\d+).*?\n(Error:.*?)(?:\n\n|$)', c2.stdout, re.S)
            if m:
                thm = ""
                lines = open(os.path.join(SCRATCH, "PcEnforceGen.v")).read().split("\n")
                for k in range(int(m.group(1)) - 1, -1, -1):
                    mm = re.match(r"\s*(?:Theorem|Lemma|Example|Corollary)\s+(\w+)", lines[k])
                    if mm:
                        thm = mm.group(1)
                        break
                why = "%s: %s" % (thm, " ".join(m.group(2).split())[:80])
            else:
                why = " ".join(c2.stdout.strip().split("\n")[-3:])[:160]
        note = ""
        for fn, msg in fails:
            note += " [untranslatable %s: %s]" % (fn, " ".join(msg.split()))
        if not ok and not fails:
            note += " [witness: %s]" % witness()
        verdict = "pass" if ok else "fail"
        flag = "as expected" if verdict == expect else "UNEXPECTED"
        print("%-4s (%s) %s%s%s" % (verdict.upper(), flag, label, (" -> " + why) if why else "", note))
        sys.stdout.flush()
        results.append(verdict == expect)
    if os.environ.get("RS2COQ_DEMO_KEEP"):
        print("scratch directory kept:", SCRATCH)
    else:
        shutil.rmtree(SCRATCH, ignore_errors=True)
    print("%d/%d variants behaved as expected" % (sum(results), len(results)))
    return 0 if all(results) else 1


if __name__ == "__main__":
    sys.exit(main())
