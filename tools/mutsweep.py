#!/usr/bin/env python3
"""tools/mutsweep.py --out DIR [--jobs N] [--files a.rs,b.rs] [--max M] [--props C01,C04] [--seed S] [--from OTHER/results.jsonl]

Development tool (not a registered check): a syntactic mutation sweep used to
find gaps in the generators / predicates.  For every single-token mutant of the
selected source files of /repo (applied to a private COPY of /repo under DIR):
  1. `cargo test --offline --lib` in the copy: stillborn / killed-by-tests / survives;
  2. for a survivor, the harness is rebuilt against the copy and every
     property's quick case set is run through it; outputs are compared with the
     model's outputs (computed once, they do not depend on the mutant) and the
     property predicates are evaluated;
  3. one JSON line per mutant goes to DIR/results.jsonl: which properties see a
     mismatch and which produce a failing input.
A mutant that passes the unit tests and that NO property notices is either
equivalent or a gap; those are listed by --report.  Pins are deliberately not
part of the sweep (every edit of a pinned body breaks a pin).
Nothing here touches /repo or the registered checks; DIR must be outside /repo
and /verif and is removed by the caller.
"""
import argparse
import importlib
import json
import os
import random
import re
import shutil
import subprocess
import sys
import threading
import time

V = os.path.dirname(os.path.dirname(os.path.abspath(__file__)))
sys.path.insert(0, os.path.join(V, "tools"))
sys.path.insert(0, os.path.join(V, "gen"))

ALL_PROPS = ["C01", "C02", "C03", "C04", "C05", "C06", "C07", "C08", "C09", "C10", "C11", "C12", "C13", "C14", "C15",
             "C16", "C17", "C18", "C19"]
DEFAULT_FILES = ["src/enforcer.rs", "src/effector.rs", "src/internal_api.rs", "src/management_api.rs", "src/rbac_api.rs",
                 "src/model/default_model.rs", "src/model/assertion.rs", "src/model/function_map.rs", "src/rbac/default_role_manager.rs",
                 "src/adapter/memory_adapter.rs", "src/adapter/file_adapter.rs", "src/adapter/string_adapter.rs", "src/cached_enforcer.rs",
                 "src/util.rs", "src/config.rs", "src/convert.rs", "src/macros.rs", "src/emitter.rs", "src/cache/default_cache.rs"]

OPS = [
    (r"==", "!="), (r"!=", "=="), (r"&&", "||"), (r"\|\|", "&&"),
    (r"<=", "<"), (r">=", ">"), (r"(?<= )<(?= )", "<="), (r"(?<= )>(?= )", ">="),
    (r"\+ 1\b", "+ 0"), (r"\+ 1\b", "+ 2"), (r"- 1\b", "- 0"), (r"\b0\b", "1"), (r"\b1\b", "0"), (r"\b2\b", "1"),
    (r"\btrue\b", "false"), (r"\bfalse\b", "true"),
    (r"\bcontinue\b", "break"), (r"\bbreak\b", "continue"),
    (r"!(?=[a-zA-Z_(])(?!=)", ""),
    (r"\.is_empty\(\)", ".is_empty() == false"),
    (r"\.any\(", ".all("), (r"\.all\(", ".any("),
    (r"\bSome\(", "None.or(Some("),   # placeholder, fixed up below (skipped)
    (r"\.skip\(1\)", ".skip(0)"), (r"\[1\.\.\]", "[0..]"), (r"\[\.\.1\]", "[..0]"),
    (r"\bname1\b", "name2"), (r"\bname2\b", "name1"), (r"\bkey1\b", "key2"), (r"\bkey2\b", "key1"),
    (r"\bsec\b", "ptype"), (r"\bptype\b", "sec"),
    (r"EffectKind::Allow", "EffectKind::Deny"), (r"EffectKind::Deny", "EffectKind::Allow"),
    (r"EffectKind::Indeterminate", "EffectKind::Allow"),
    (r"\.insert\(", ".contains(&"),
]
OPS = [o for o in OPS if "None.or" not in o[1] and ".contains(&" not in o[1]]
STMT_DELETE = re.compile(r"^\s*(self\.[a-zA-Z_\.]+\([^;]*\)(\.await)?(\?)?;|[a-z_\.]+\.clear\(\);|[a-z_]+ = [^;]+;)\s*$")


def sh(cmd, cwd=None, env=None, timeout=1800):
    e = dict(os.environ)
    e["CARGO_NET_OFFLINE"] = "true"
    if env:
        e.update(env)
    try:
        # own process group, killed as a whole on timeout: a mutant can make a test binary spin forever, and killing only the
        # shell would leave it running
        pr = subprocess.Popen(cmd, cwd=cwd, shell=isinstance(cmd, str), stdout=subprocess.PIPE, stderr=subprocess.STDOUT, env=e,
                              start_new_session=True)
        try:
            out, _ = pr.communicate(timeout=timeout)
            return pr.returncode, out.decode("utf-8", "replace")
        except subprocess.TimeoutExpired:
            import signal
            try:
                os.killpg(pr.pid, signal.SIGKILL)
            except OSError:
                pass
            out, _ = pr.communicate()
            return 124, (out or b"").decode("utf-8", "replace") + "\nTIMEOUT"
    except OSError as ex:
        return 125, str(ex)


def code_region(src):
    """line numbers (0-based) outside #[cfg(test)] modules, comments and logging/explain-only code"""
    lines = src.split("\n")
    cut = len(lines)
    for i, l in enumerate(lines):
        if l.strip().startswith("#[cfg(test)]"):
            cut = i
            break
    ok = []
    skip_next_block = 0
    for i in range(cut):
        l = lines[i]
        st = l.strip()
        if not st or st.startswith("//") or st.startswith("#[") or st.startswith("use ") or st.startswith("///"):
            continue
        if "feature = \"logging\"" in l or "feature = \"explain\"" in l:
            continue
        ok.append(i)
    return ok


def enumerate_mutants(repo, files):
    muts = []
    for rel in files:
        try:
            src = open(os.path.join(repo, rel), encoding="utf-8").read()
        except OSError:
            continue
        lines = src.split("\n")
        region = code_region(src)
        # drop lines directly guarded by a logging/explain cfg attribute on the previous line
        for i in region:
            l = lines[i]
            if i > 0 and ("logging" in lines[i - 1] or "explain" in lines[i - 1]) and lines[i - 1].strip().startswith("#["):
                continue
            code = l.split("//")[0]
            # string literals are left alone (pins cover literals)
            masked = re.sub(r'"(?:[^"\\]|\\.)*"', lambda m: '"' + "_" * (len(m.group(0)) - 2) + '"', code)
            for pat, rep in OPS:
                for m in re.finditer(pat, masked):
                    new = code[:m.start()] + rep + code[m.end():] + l[len(code):]
                    if new != l:
                        muts.append({"file": rel, "line": i + 1, "op": "%s -> %s" % (pat, rep), "old": l, "new": new})
            if STMT_DELETE.match(code) and "let " not in code:
                muts.append({"file": rel, "line": i + 1, "op": "delete-statement", "old": l, "new": re.match(r"^\s*", l).group(0) + "();"
                             if False else re.match(r"^\s*", l).group(0) + "// deleted"})
    return muts


class Worker:
    def __init__(self, out, idx, snap, props, base):
        self.dir = os.path.join(out, "w%d" % idx)
        self.repo = os.path.join(self.dir, "repo")
        self.harness = os.path.join(self.dir, "harness")
        self.snap = snap
        self.props = props
        self.base = base
        os.makedirs(self.dir, exist_ok=True)
        # always start from a pristine copy (a killed run may have left a mutant applied)
        sh("rsync -a --delete --exclude target --exclude .git /repo/ %s/" % self.repo)
        if not os.path.exists(self.harness):
            shutil.copytree(os.path.join(snap, "harness"), self.harness)
            ct = os.path.join(self.harness, "Cargo.toml")
            s = open(ct).read().replace('path = "/repo"', 'path = "%s"' % self.repo)
            open(ct, "w").write(s)
        self.rtarget = os.path.join(self.dir, "rtarget")
        self.htarget = os.path.join(self.dir, "htarget")

    def run_cases(self, pid):
        """implementation outputs for property pid's (prepared) case file"""
        cf = os.path.join(self.snap, "cases", pid + ".prep")
        of = os.path.join(self.dir, pid + ".impl")
        cvh = os.path.join(self.htarget, "debug", "cvh")
        n = self.base[pid]["n"]
        with open(of, "wb") as f:
            try:
                subprocess.run([cvh, "run", cf], stdout=f, stderr=subprocess.DEVNULL, timeout=600)
                hung = False
            except subprocess.TimeoutExpired:
                hung = True
        lines = open(of, encoding="utf-8", errors="replace").read().split("\n")
        if lines and lines[-1] == "":
            lines.pop()
        if len(lines) < n:
            lines = lines + [("HANG" if hung else "ABORT")] + ["?not-run"] * (n - len(lines) - 1)
        return lines[:n]

    def pred(self, pid, impl):
        cf = os.path.join(self.snap, "cases", pid + ".cases")
        ef = os.path.join(self.dir, pid + ".extra")
        with open(ef, "w", encoding="utf-8") as f:
            f.write("\n".join(impl) + "\n")
        rc, out = sh([os.path.join(self.snap, "modelrun"), "pred", cf, ef], env={"CVPROP": pid}, timeout=600)
        lines = out.split("\n")
        if lines and lines[-1] == "":
            lines.pop()
        return lines

    def do_patch(self, m):
        """a seeded change (seeded/<name>/patch.diff) instead of a one-line mutant: which properties notice it"""
        res = {"file": m["name"], "line": 0, "op": "seeded-patch", "old": "", "new": m["patch"]}
        t0 = time.time()
        rc, out = sh("patch -p1 --no-backup-if-mismatch < %s" % m["patch"], cwd=self.repo)
        try:
            if rc != 0:
                res["unit"] = "patch-failed"
                return res
            rc, out = sh(["cargo", "build", "--offline", "--quiet"], cwd=self.harness,
                         env={"RUSTFLAGS": "--cfg casbin_verif -Awarnings", "CARGO_TARGET_DIR": self.htarget}, timeout=1200)
            if rc != 0:
                res["unit"] = "stillborn-harness"
                return res
            res["unit"] = "survives"
            seen = {}
            for pid in self.props:
                impl = self.run_cases(pid)
                mo = self.base[pid]["model"]
                mm = sum(1 for a, b in zip(mo, impl) if a != b)
                pf = 0
                if mm:
                    po = self.pred(pid, impl)
                    bp = self.base[pid]["pred"]
                    pf = sum(1 for a, b in zip(po, bp) if a != b and a not in ("1", "-"))
                if mm or pf:
                    seen[pid] = {"mismatch": mm, "pred_false": pf}
            res["seen"] = seen
            res["noticed"] = bool(seen)
            res["failing_input"] = sorted(p for p, v in seen.items() if v["pred_false"])
        finally:
            sh("rsync -a --delete --exclude target --exclude .git /repo/ %s/" % self.repo)
            res["wall"] = round(time.time() - t0, 1)
        return res

    def do(self, m):
        if "patch" in m:
            return self.do_patch(m)
        path = os.path.join(self.repo, m["file"])
        orig = open(path, encoding="utf-8").read()
        lines = orig.split("\n")
        assert lines[m["line"] - 1] == m["old"], "source drifted"
        lines[m["line"] - 1] = m["new"]
        res = dict(m)
        t0 = time.time()
        try:
            open(path, "w", encoding="utf-8").write("\n".join(lines))
            if m.get("skip_unit"):
                out = "test result: ok. 86 passed; 0 failed"
            else:
                rc, out = sh("cargo test --offline --lib 2>&1 | tail -40", cwd=self.repo, env={"CARGO_TARGET_DIR": self.rtarget, "RUSTFLAGS": "-Awarnings"}, timeout=900)
            if "test result: ok. 86 passed; 0 failed" in out:
                res["unit"] = "survives"
            elif "test result:" in out:
                res["unit"] = "killed"
                return res
            else:
                res["unit"] = "stillborn"
                return res
            rc, out = sh(["cargo", "build", "--offline", "--quiet"], cwd=self.harness,
                         env={"RUSTFLAGS": "--cfg casbin_verif -Awarnings", "CARGO_TARGET_DIR": self.htarget}, timeout=1200)
            if rc != 0:
                res["unit"] = "stillborn-harness"
                return res
            seen = {}
            for pid in self.props:
                impl = self.run_cases(pid)
                mo = self.base[pid]["model"]
                mm = sum(1 for a, b in zip(mo, impl) if a != b and a not in ("~", "U"))
                pf = 0
                ex = None
                if mm:
                    po = self.pred(pid, impl)
                    bp = self.base[pid]["pred"]
                    for i, (a, b) in enumerate(zip(po, bp)):
                        if a != b and a not in ("1", "-"):
                            pf += 1
                            if ex is None:
                                ex = i
                if mm or pf:
                    seen[pid] = {"mismatch": mm, "pred_false": pf}
            res["seen"] = seen
            res["noticed"] = bool(seen)
            res["failing_input"] = sorted(p for p, v in seen.items() if v["pred_false"])
        finally:
            open(path, "w", encoding="utf-8").write(orig)
            res["wall"] = round(time.time() - t0, 1)
        return res


def prepare(out, props, tier, seed):
    """snapshot the tooling, generate every property's cases once, run the model and the baseline predicate"""
    import vlib
    snap = os.path.join(out, "snap")
    os.makedirs(os.path.join(snap, "cases"), exist_ok=True)
    ok, log = vlib.build_ml()
    assert ok, log
    ok, log = vlib.build_harness()
    assert ok, log
    shutil.copy(vlib.MODELRUN, os.path.join(snap, "modelrun"))
    if os.path.exists(os.path.join(snap, "harness")):
        shutil.rmtree(os.path.join(snap, "harness"))
    shutil.copytree(os.path.join(V, "harness"), os.path.join(snap, "harness"))
    base = {}
    for pid in props:
        gen = importlib.import_module(pid.lower())
        G = gen.generate(tier, seed)
        cases = G["cases"]
        corpus = os.path.join(V, "gen", "corpus", pid + ".txt")
        if os.path.exists(corpus):
            cases = [l for l in open(corpus, encoding="utf-8").read().split("\n") if l and not l.startswith("#")] + cases
        if pid == "C10":
            cases = [c for c in cases if not c.startswith("savecrash")]
        prep = vlib.run_prep(cases)
        mo = vlib.run_model(cases)
        io = vlib.run_impl(cases)
        po = vlib.run_pred(cases, io, prop=pid)
        with open(os.path.join(snap, "cases", pid + ".cases"), "w", encoding="utf-8") as f:
            f.write("\n".join(cases) + "\n")
        with open(os.path.join(snap, "cases", pid + ".prep"), "w", encoding="utf-8") as f:
            f.write("\n".join(prep) + "\n")
        base[pid] = {"n": len(cases), "model": mo, "pred": po}
        bad = sum(1 for a, b in zip(mo, io) if a != b)
        print("prepared %s: %d cases, baseline mismatches %d" % (pid, len(cases), bad), flush=True)
    return snap, base


def main():
    ap = argparse.ArgumentParser()
    ap.add_argument("--out", required=True)
    ap.add_argument("--jobs", type=int, default=5)
    ap.add_argument("--files", default=",".join(DEFAULT_FILES))
    ap.add_argument("--max", type=int, default=0)
    ap.add_argument("--props", default=",".join(ALL_PROPS))
    ap.add_argument("--tier", default="quick")
    ap.add_argument("--seed", type=int, default=1)
    ap.add_argument("--report", action="store_true")
    ap.add_argument("--seeded", action="store_true", help="run every seeded/<name>/patch.diff instead of syntactic mutants")
    ap.add_argument("--from", dest="from_", default="", help="re-run the survivors of another sweep's results.jsonl that were not reported "
                    "with a failing input (their unit-test step is skipped)")
    a = ap.parse_args()
    out = os.path.abspath(a.out)
    assert not out.startswith("/repo") and not out.startswith("/verif")
    resf = os.path.join(out, "results.jsonl")
    if a.report:
        rs = [json.loads(l) for l in open(resf)]
        cnt = {}
        for r in rs:
            k = r["unit"] if r["unit"] != "survives" else ("noticed+input" if r.get("failing_input") else "noticed-mismatch-only" if r.get("noticed") else "UNNOTICED")
            cnt[k] = cnt.get(k, 0) + 1
        print(cnt)
        for r in rs:
            if r["unit"] == "survives" and not r.get("failing_input"):
                print("%s %s:%d [%s]\n    - %s\n    + %s\n    seen=%s" % ("UNNOTICED" if not r.get("noticed") else "MISMATCH-ONLY", r["file"], r["line"], r["op"],
                                                                       r["old"].strip(), r["new"].strip(), r.get("seen")))
        return
    os.makedirs(out, exist_ok=True)
    props = a.props.split(",")
    files = a.files.split(",")
    if a.seeded:
        import glob
        muts = [{"name": os.path.basename(os.path.dirname(f)), "patch": f, "file": os.path.basename(os.path.dirname(f)), "line": 0,
                 "op": "seeded-patch", "new": f} for f in sorted(glob.glob(os.path.join(V, "seeded", "*", "patch.diff")))]
    elif a.from_:
        muts = []
        for l in open(a.from_):
            r = json.loads(l)
            if r.get("unit") == "survives" and not r.get("failing_input"):
                muts.append({"file": r["file"], "line": r["line"], "op": r["op"], "old": r["old"], "new": r["new"], "skip_unit": True})
    else:
        muts = enumerate_mutants("/repo", files)
    rnd = random.Random(a.seed)
    if not a.seeded:
        rnd.shuffle(muts)
    if a.max:
        muts = muts[:a.max]
    done = set()
    if os.path.exists(resf):
        for l in open(resf):
            r = json.loads(l)
            done.add((r["file"], r["line"], r["op"], r["new"]))
    muts = [m for m in muts if (m["file"], m["line"], m["op"], m["new"]) not in done]
    print("mutants to run: %d (already done %d)" % (len(muts), len(done)), flush=True)
    snap, base = prepare(out, props, a.tier, a.seed)
    lock = threading.Lock()
    it = iter(muts)

    def loop(idx):
        w = Worker(out, idx, snap, props, base)
        while True:
            with lock:
                m = next(it, None)
            if m is None:
                return
            try:
                r = w.do(m)
            except Exception as ex:  # noqa
                r = dict(m, unit="error", error=str(ex))
            with lock:
                with open(resf, "a") as f:
                    f.write(json.dumps(r) + "\n")
                print("%s %s:%d %s %s" % (r["unit"], r["file"], r["line"], r["op"], r.get("failing_input", "")), flush=True)

    ths = [threading.Thread(target=loop, args=(i,)) for i in range(a.jobs)]
    for t in ths:
        t.start()
    for t in ths:
        t.join()


if __name__ == "__main__":
    main()
