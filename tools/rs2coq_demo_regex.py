#!/usr/bin/env python3
"""Robustness / sensitivity demonstration for part 14 of rs2coq (tools/rs2coq_regex.py: the regex-based functions of
src/util.rs -> coq/Gen/RegexGen.v through the matcher of coq/Gen/Regex.v; obligations in coq/PinChecks/PcRegexGen.v).

For every variant: copy /repo/src to a scratch directory (tempfile.mkdtemp(), outside /repo and /verif), edit
src/util.rs there, run rs2coq_regex on the scratch copy, rebuild PinChecks/PcRegexGen.vo and compare the outcome with the
expectation (meaning-preserving rewrite -> the proofs pass unchanged; change of meaning -> a proof fails or the source
leaves the translated subset).  For a failing variant that was translated, a battery of concrete inputs is evaluated by
vm_compute on the translated functions and on the hand models, and the first input on which they differ is reported
(so that a failed proof is seen to be a change of meaning, not a weak tactic).  The pristine generated file is restored
at the end.

usage: python3 tools/rs2coq_demo_regex.py [label-prefix ..]
"""
import os
import re
import shutil
import subprocess
import sys
import tempfile

HERE = os.path.dirname(os.path.abspath(__file__))
ROOT = os.path.dirname(HERE)
COQ = os.path.join(ROOT, "coq")
SCRATCH = tempfile.mkdtemp(prefix="rs2coq_demo_regex_")
UTIL = "src/util.rs"

ESC_A = r'''regex!(r"\b(r\d*|p\d*)\.")'''
ESC_C = r'''regex!(r#"(\s*"[^"]*"?\s*|\s*[^,]*)"#)'''
ESC_E = r'''regex!(r"\beval\(([^)]*)\)")'''

FMAP = "src/model/function_map.rs"
MAT_B = r'''Regex::new(r":[^/]*").unwrap()'''
MAT_P = r'''Regex::new(r"\{[^/]*\}").unwrap()'''
KM2_HEAD = """    let mut key2: Cow<str> = if key2.contains("/*") {
        key2.replace("/*", "/.*").into()
    } else {
        key2.into()
    };

    key2 = MAT_B"""
KM3_REPL = """key2.replace("/*", "/.*").into()
    } else {
        key2.into()
    };

    key2 = MAT_P"""
KM2_FMT = """key2 = MAT_B.replace_all(&key2, "[^/]+").to_string().into();

    regex_match(key1, &format!("^{}$", key2))"""

# (label, expectation, [(old text, new text)][, file]) - every old text must occur exactly once in the file (src/util.rs)
VARIANTS = [
    ("P0 the unmodified source", "pass", []),
    ("P1 ESC_A: [0-9] for \\d", "pass", [(ESC_A, r'''regex!(r"\b(r[0-9]*|p[0-9]*)\.")''')]),
    ("P2 ESC_C: a non-capturing group around the quoted alternative; ESC_E: one around the capture", "pass",
     [(ESC_C, r'''regex!(r#"((?:\s*"[^"]*"?\s*)|\s*[^,]*)"#)'''), (ESC_E, r'''regex!(r"\beval\((?:([^)]*))\)")''')]),
    ("P3 parse_csv_line: line.trim() bound to a differently named local", "pass",
     [("let line = line.as_ref().trim();", "let trimmed = line.as_ref().trim();"),
      ("if line.is_empty() || line.starts_with('#') {", "if trimmed.is_empty() || trimmed.starts_with('#') {"),
      ("ESC_C.find_iter(line)", "ESC_C.find_iter(trimmed)")]),
    ("P4 ESC_C: the blanks spelled as the class [ \\t-\\r]; ESC_E: [^\\)] for [^)]", "pass",
     [(ESC_C, r'''regex!(r#"([ \t-\r]*"[^"]*"?[ \t-\r]*|[ \t-\r]*[^,]*)"#)'''), (ESC_E, r'''regex!(r"\beval\(([^\)]*)\)")''')]),
    ("P5 parse_csv_line: early `return None` for the empty result, then Some(res); Regex::new(..).unwrap() without the macro",
     "pass",
     [("""    if res.is_empty() {
        None
    } else {
        Some(res)
    }""", """    if res.is_empty() {
        return None;
    }
    Some(res)"""), (ESC_A, r'''Regex::new(r"\b(r\d*|p\d*)\.").unwrap()''')]),
    ("N1 (i) ESC_C with the alternatives swapped", "fail", [(ESC_C, r'''regex!(r#"(\s*[^,]*|\s*"[^"]*"?\s*)"#)''')]),
    ("N2 (ii) ESC_C without the trailing \\s* inside the quoted alternative", "fail",
     [(ESC_C, r'''regex!(r#"(\s*"[^"]*"?|\s*[^,]*)"#)''')]),
    ("N3 (iii) ESC_C with a mandatory closing quote", "fail", [(ESC_C, r'''regex!(r#"(\s*"[^"]*"\s*|\s*[^,]*)"#)''')]),
    ("N4 (iv) ESC_A without \\b", "fail", [(ESC_A, r'''regex!(r"(r\d*|p\d*)\.")''')]),
    ("N5 (v) ESC_A with \\d+ (at least one digit)", "fail", [(ESC_A, r'''regex!(r"\b(r\d+|p\d+)\.")''')]),
    ("N6 (vi) escape_assertion: replace (first match only) instead of replace_all", "fail",
     [('ESC_A.replace_all(s, "${1}_")', 'ESC_A.replace(s, "${1}_")')]),
    ("N7 (vii) parse_csv_line: quotes stripped when col.len() >= 1", "fail", [("col.len() >= 2", "col.len() >= 1")]),
    ("N8 (viii) parse_csv_line: no trim on each column", "fail", [(".map(|m| m.as_str().trim())", ".map(|m| m.as_str())")]),
    ("N9 escape_eval: the replacement keeps the whole match (${0}) instead of the argument", "fail",
     [('"eval(escape_assertion(${1}))"', '"eval(escape_assertion(${0}))"')]),
    ("N10 ESC_E: lazy argument and no closing parenthesis required", "fail", [(ESC_E, r'''regex!(r"\beval\(([^)]*?)")''')]),
    ("N11 parse_csv_line: a line starting with `;` is a comment too", "fail",
     [("line.starts_with('#')", "line.starts_with('#') || line.starts_with(';')")]),
    ("N12 ESC_A with a case-insensitive flag (outside the translated subset)", "fail",
     [(ESC_A, r'''regex!(r"(?i)\b(r\d*|p\d*)\.")''')]),
    ("N13 ESC_C: unbounded repetition of a nullable group (outside the validated subset of Gen/Regex.v)", "fail",
     [(ESC_C, r'''regex!(r#"((?:\s*)*"[^"]*"?\s*|\s*[^,]*)"#)''')]),
    ("N14 escape_assertion: replacement `$1_` (a NAMED group `1_` for the crate: refused)", "fail",
     [('ESC_A.replace_all(s, "${1}_")', 'ESC_A.replace_all(s, "$1_")')]),
    # ---- stretch: src/model/function_map.rs (key_match2 / key_match3 up to the call of regex_match)
    ("S1 key_match2: slash-star replaced without the contains test (str::replace is the identity then)", "pass",
     [(KM2_HEAD, """    let mut key2: Cow<str> = key2.replace("/*", "/.*").into();

    key2 = MAT_B""")], FMAP),
    ("S2 MAT_B with [^/]+ (a lone colon is no longer rewritten)", "fail", [(MAT_B, r'''Regex::new(r":[^/]+").unwrap()''')], FMAP),
    ("S3 MAT_P lazy (stops at the FIRST closing brace)", "fail", [(MAT_P, r'''Regex::new(r"\{[^/]*?\}").unwrap()''')], FMAP),
    ("S4 key_match3: slash-star becomes slash-dot-plus", "fail", [(KM3_REPL, """key2.replace("/*", "/.+").into()
    } else {
        key2.into()
    };

    key2 = MAT_P""")], FMAP),
    ("S5 key_match2: the anchors dropped", "fail", [(KM2_FMT, """key2 = MAT_B.replace_all(&key2, "[^/]+").to_string().into();

    regex_match(key1, &format!("{}", key2))""")], FMAP),
]


def run(cmd, **kw):
    return subprocess.run(cmd, stdout=subprocess.PIPE, stderr=subprocess.STDOUT, text=True, **kw)


CSV_INPUTS = ['a,b', '"a,b",c', '"a" ,b', '"a,b', '"', 'a , b', ' "x y" , z', ';a,b', 'a,,b', '"a""b"', '# c', '']
A_INPUTS = ['r.sub == p.sub', 'xr.sub', 'r2.obj', 'r.a == p.a', 'pr.x', 'R.a']
E_INPUTS = ['eval(p.rule)', 'eval(a) && eval(b)', 'eval(x', 'xeval(a)', 'eval()']
KM_INPUTS = ['/a/:id', '/a/*', '/:', '/{a}b}', '/a/{id}/*', '/x']


def coq_text(s):
    return "(T \"%s\")" % s.replace('"', '""')


def witness():
    """first concrete input on which a translated function and its hand model differ"""
    path = os.path.join(SCRATCH, "Witness.v")
    txt = """From CV Require Import Model.Base Model.Csv Model.Expr Model.PathMatch Gen.Regex Gen.RegexRt Gen.RegexGen Proofs.EscEvalM.
Definition olb (a b : option (list text)) : bool :=
  match a, b with Some x, Some y => list_eqb teqb x y | None, None => true | _, _ => false end.
Definition same_csv (l : text) : bool :=
  match gen_parse_csv_line l with Some r => olb r (Csv.parse_csv_line l) | None => false end.
Eval vm_compute in (map same_csv [%s] ++ map (fun s => teqb (gen_escape_assertion s) (escape_assertion s)) [%s]
  ++ map (fun s => teqb (gen_escape_eval s) (escape_eval s)) [%s]
  ++ map (fun k => gen_key_match2 (fun _ p => teqb p (rewrite_km2 k)) [] k) [%s]
  ++ map (fun k => gen_key_match3 (fun _ p => teqb p (rewrite_km3 k)) [] k) [%s]).
""" % ("; ".join(coq_text(x) for x in CSV_INPUTS), "; ".join(coq_text(x) for x in A_INPUTS),
       "; ".join(coq_text(x) for x in E_INPUTS), "; ".join(coq_text(x) for x in KM_INPUTS),
       "; ".join(coq_text(x) for x in KM_INPUTS))
    open(path, "w").write(txt)
    r = run(["timeout", "300", "coqc", "-Q", ".", "CV", path], cwd=COQ)
    m = re.search(r"=\s*\[([^\]]*)\]\s*:\s*list bool", r.stdout)
    if r.returncode != 0 or not m:
        em = re.search(r"Error:(.*?)(?:\n\n|\Z)", r.stdout, re.S)
        return "the battery does not typecheck any more (%s)" % (" ".join(em.group(1).split())[:110] if em else "?")
    vals = [x.strip() for x in m.group(1).split(";")]
    descr = (["parse_csv_line(%r)" % x for x in CSV_INPUTS] + ["escape_assertion(%r)" % x for x in A_INPUTS]
             + ["escape_eval(%r)" % x for x in E_INPUTS] + ["the pattern key_match2 compiles for key2 = %r" % x for x in KM_INPUTS]
             + ["the pattern key_match3 compiles for key2 = %r" % x for x in KM_INPUTS])
    bad = [d for d, v in zip(descr, vals) if v == "false"]
    return ("translated code and hand model differ on " + bad[0]) if bad else "no difference on the fixed inputs"


def regenerate(repo):
    env = dict(os.environ, VERIF_REPO=repo)
    return run([sys.executable, os.path.join(HERE, "rs2coq_regex.py"), os.path.join(COQ, "Gen")], env=env)


def main():
    only = sys.argv[1:]
    results = []
    part = "PcRegexGen"
    for var in VARIANTS:
        label, expect, edits = var[0], var[1], var[2]
        if only and not any(label.startswith(o) for o in only):
            continue
        shutil.rmtree(SCRATCH, ignore_errors=True)
        shutil.copytree("/repo/src", os.path.join(SCRATCH, "src"))
        path = os.path.join(SCRATCH, var[3] if len(var) > 3 else UTIL)
        part = "PcRegexFmGen" if len(var) > 3 else "PcRegexGen"
        src = open(path, encoding="utf-8").read()
        for old, new in edits:
            assert src.count(old) == 1, (label, old, src.count(old))
            src = src.replace(old, new)
        open(path, "w", encoding="utf-8").write(src)
        regenerate(SCRATCH)
        mk = run(["timeout", "900", "make", "PinChecks/%s.vo" % part], cwd=COQ)
        ok = mk.returncode == 0
        why = ""
        if not ok:
            m = re.search(r'File "\./PinChecks/%s\.v", line (\d+).*?\n(Error:.*?)(?:\n\n|\nmake)' % part, mk.stdout, re.S)
            if m:
                thm = ""
                lines = open(os.path.join(COQ, "PinChecks", part + ".v")).read().split("\n")
                for k in range(int(m.group(1)) - 1, -1, -1):
                    mm = re.match(r"(?:Theorem|Lemma|Example|Corollary)\s+(\w+)", lines[k])
                    if mm:
                        thm = mm.group(1)
                        break
                why = "%s: %s" % (thm, " ".join(m.group(2).split())[:90])
            else:
                why = " ".join(mk.stdout.strip().split("\n")[-3:])[:200]
        gen = open(os.path.join(COQ, "Gen", "RegexGen.v")).read()
        note = ""
        fm = re.search(r"\(\* translation of (\w+) failed: (.*?) \*\)", gen, re.S)
        if fm:
            note = " [untranslatable %s: %s]" % (fm.group(1), " ".join(fm.group(2).split())[:140])
        if not ok and not fm:
            note += " [witness: %s]" % witness()
        verdict = "pass" if ok else "fail"
        flag = "as expected" if verdict == expect else "UNEXPECTED"
        print("%-4s (%s) %s%s%s" % (verdict.upper(), flag, label, (" -> " + str(why)) if why else "", note))
        sys.stdout.flush()
        results.append(verdict == expect)
    regenerate("/repo")
    mk = run(["timeout", "900", "make", "PinChecks/PcRegexGen.vo", "PinChecks/PcRegexFmGen.vo"], cwd=COQ)
    print("restored from /repo:", "build ok" if mk.returncode == 0 else "BUILD FAILED")
    shutil.rmtree(SCRATCH, ignore_errors=True)
    print("%d/%d variants behaved as expected" % (sum(results), len(results)))
    return 0 if all(results) and mk.returncode == 0 else 1


if __name__ == "__main__":
    sys.exit(main())
