#!/usr/bin/env python3
"""Robustness / sensitivity demonstration for rs2coq part 15 (tools/rs2coq_enf2.py:
src/enforcer.rs on / off / emit, register_g_functions + register_g_function! of
src/macros.rs, EnforceContext::new, enforce / enforce_mut / enforce_with_context,
build_incremental_role_links, new_raw, new; src/emitter.rs notify_logger_and_watcher,
clear_cache -> coq/Gen/Enforcer2Gen.v, obligations in coq/PinChecks/PcEnforcer2Gen.v).

For every variant: copy /repo/src to a scratch repo (tempfile.mkdtemp()), edit one or
more functions, run rs2coq on the scratch repo, rebuild PinChecks/PcEnforcer2Gen.vo
and compare the outcome with the expectation (meaning-preserving rewrite -> all
proofs pass; change of meaning / outside the subset -> a proof or the translation
fails).  The pristine generated files are restored at the end and the scratch
directory is removed.

usage: python3 tools/rs2coq_demo_enf2.py [label-prefix ..]
"""
import os
import re
import shutil
import subprocess
import sys
import tempfile

HERE = os.path.dirname(os.path.abspath(__file__))
ROOT = os.path.dirname(HERE)
COQ = os.path.join(ROOT, "coq")
SCRATCH = tempfile.mkdtemp(prefix="rs2coq_demo_enf2_")     # outside /repo and /verif; removed at the end
sys.path.insert(0, HERE)
import pins  # noqa: E402

ENF = "src/enforcer.rs"
EMI = "src/emitter.rs"
MAC = "src/macros.rs"
EMITTER = r"impl\s+EventEmitter<Event>\s+for\s+Enforcer\b"
INHERENT = r"impl\s+Enforcer\s*\{"
CORE = r"impl\s+CoreApi\s+for\s+Enforcer\b"

ERR_P = """return Err(ModelError::P(
                r#"the number of "_" in role definition should be at least 2"#
                    .to_owned(),
            )
            .into());"""
CL2 = """move |arg1: ImmutableString, arg2: ImmutableString| {
                    rm.read().has_link(&arg1, &arg2, None)
                }"""
CL3 = """move |arg1: ImmutableString,
                      arg2: ImmutableString,
                      arg3: ImmutableString| {
                    rm.read().has_link(&arg1, &arg2, Some(&arg3))
                }"""


def macro_body(inner):
    return """macro_rules! register_g_function {
    ($enforcer:ident, $fname:ident, $ast:ident) => {{
        let rm = Arc::clone(&$enforcer.rm);
        let count = $ast.value.matches('_').count();
%s
    }};
}""" % inner


# an edit: ("body", file, impl header | None, fn, new body) | ("sub", file, impl header | None, fn, old, new)
#        | ("macro", new definition of register_g_function!)
# (label, expectation, [edits])
VARIANTS = [
    ("R0 unmodified sources", "pass", []),
    ("R1 on: entry(e).or_insert_with(Vec::new).push(f)", "pass", [
        ("body", ENF, EMITTER, "on", "{\n        self.events.entry(e).or_insert_with(Vec::new).push(f);\n    }")]),
    ("R2 on: the vector is borrowed first, then pushed to", "pass", [
        ("body", ENF, EMITTER, "on", "{\n        let v = self.events.entry(e).or_default();\n        v.push(f);\n    }")]),
    ("R3 off: the removed vector explicitly dropped", "pass", [
        ("body", ENF, EMITTER, "off", "{\n        let _ = self.events.remove(&e);\n    }")]),
    ("R4 emit: match instead of if let, the cloned vector consumed", "pass", [
        ("body", ENF, EMITTER, "emit", """{
        match self.events.get(&e) {
            Some(cbs) => {
                for cb in cbs.clone() {
                    cb(self, d.clone());
                }
            }
            None => {}
        }
    }""")]),
    ("R5 notify_logger_and_watcher: match on the watcher", "pass", [
        ("body", EMI, None, "notify_logger_and_watcher", """{
    match e.get_mut_watcher() {
        Some(w) => w.update(d),
        None => {}
    }
}""")]),
    ("R6 register_g_function!: the 3-underscore case tested first", "pass", [
        ("macro", macro_body("""        if count == 3 {
            $enforcer.engine.register_fn($fname, %s);
        } else if count == 2 {
            $enforcer.engine.register_fn($fname, %s);
        } else {
            %s
        }""" % (CL3, CL2, ERR_P)))]),
    ("R7 register_g_function!: the bad counts rejected first, then one if / else", "pass", [
        ("macro", macro_body("""        if count != 2 && count != 3 {
            %s
        }
        if count == 2 {
            $enforcer.engine.register_fn($fname, %s);
        } else {
            $enforcer.engine.register_fn($fname, %s);
        }""" % (ERR_P, CL2, CL3)))]),
    ("R8 register_g_functions: match on the section, the function pointer dereferenced in the call", "pass", [
        ("body", ENF, INHERENT, "register_g_functions", """{
        match self.model.get_model().get("g") {
            Some(ast_map) => {
                for (fname, ast) in ast_map.iter() {
                    register_g_function!(self, fname, ast);
                }
            }
            None => {}
        }
        for (key, func) in self.fm.get_functions() {
            Self::register_function(&mut self.engine, key, *func);
        }
        return Ok(());
    }""")]),
    ("R9 new: early return for a filtered adapter", "pass", [
        ("body", ENF, CORE, "new", """{
        let mut e = Self::new_raw(m, a).await?;
        if e.adapter.is_filtered() {
            return Ok(e);
        }
        e.load_policy().await?;
        Ok(e)
    }""")]),
    ("R10 new_raw: lets and fields reordered, the effector built in the literal", "pass", [
        ("body", ENF, CORE, "new_raw", """{
        let adapter = a.try_into_adapter().await?;
        let model = m.try_into_model().await?;
        let rm = Arc::new(RwLock::new(DefaultRoleManager::new(10)));
        let fm = FunctionMap::default();
        let mut engine = Engine::new_raw();
        engine.register_global_module(CASBIN_PACKAGE.as_shared_module());
        for (key, &func) in fm.get_functions() {
            Self::register_function(&mut engine, key, func);
        }
        let mut e = Self {
            engine,
            events: HashMap::new(),
            watcher: None,
            auto_notify_watcher: true,
            auto_build_role_links: true,
            auto_save: true,
            enabled: true,
            rm,
            eft: Box::new(DefaultEffector),
            fm,
            adapter,
            model,
        };
        e.on(Event::PolicyChange, notify_logger_and_watcher);
        match e.register_g_functions() {
            Ok(_) => Ok(e),
            Err(err) => Err(err),
        }
    }""")]),
    ("R11 enforce: match on the answer of private_enforce", "pass", [
        ("body", ENF, CORE, "enforce", """{
        let rvals = rvals.try_into_vec()?;
        match self.private_enforce(&rvals) {
            Ok((authorized, _)) => Ok(authorized),
            Err(e) => Err(e),
        }
    }""")]),
    ("R12 enforce_mut: `?` and Ok again", "pass", [
        ("body", ENF, CORE, "enforce_mut", "{\n        let r = self.enforce(rvals)?;\n        Ok(r)\n    }")]),
    ("R13 build_incremental_role_links: the handle bound first, the answer handed on", "pass", [
        ("body", ENF, CORE, "build_incremental_role_links", """{
        let rm = Arc::clone(&self.rm);
        self.model.build_incremental_role_links(rm, d)
    }""")]),
    # ---- changes of meaning
    ("N1 (i) register_g_functions WITHOUT re-applying self.fm (before commit 2c2fb2f)", "fail", [
        ("body", ENF, INHERENT, "register_g_functions", """{
        if let Some(ast_map) = self.model.get_model().get("g") {
            for (fname, ast) in ast_map {
                register_g_function!(self, fname, ast);
            }
        }

        Ok(())
    }""")]),
    ("N2 (ii) register_g_functions registers only \"g\"", "fail", [
        ("sub", ENF, INHERENT, "register_g_functions", "register_g_function!(self, fname, ast);",
         'if fname == "g" { register_g_function!(self, fname, ast); }')]),
    ("N3 (iii) emit calls only the first callback", "fail", [
        ("sub", ENF, EMITTER, "emit", "cbs.clone().iter()", "cbs.clone().iter().take(1)")]),
    ("N4 (iv) off clears ALL events", "fail", [
        ("body", ENF, EMITTER, "off", "{\n        self.events.clear();\n    }")]),
    ("N5 (v) on replaces instead of appending", "fail", [
        ("body", ENF, EMITTER, "on", "{\n        self.events.insert(e, vec![f]);\n    }")]),
    ("N6 (vi) notify_logger_and_watcher does not call update", "fail", [
        ("sub", EMI, None, "notify_logger_and_watcher", "w.update(d);", "let _ = w;")]),
    ("N7a (vii) new_raw: auto_notify_watcher: false", "fail", [
        ("sub", ENF, CORE, "new_raw", "auto_notify_watcher: true,", "auto_notify_watcher: false,")]),
    ("N7b (vii) new_raw: hierarchy limit 5", "fail", [
        ("sub", ENF, CORE, "new_raw", "DefaultRoleManager::new(10)", "DefaultRoleManager::new(5)")]),
    ("N8a (viii) a disabled enforcer answers Ok(false) (private_enforce, part 10)", "fail", [
        ("sub", ENF, INHERENT, "private_enforce", "return Ok((true, None));", "return Ok((false, None));")]),
    ("N8b (viii) a disabled enforcer answers Ok(false) (in the wrapper enforce)", "fail", [
        ("sub", ENF, CORE, "enforce", "let rvals = rvals.try_into_vec()?;",
         "if !self.enabled { return Ok(false); }\n        let rvals = rvals.try_into_vec()?;")]),
    ("N9 (ix) enforce_with_context passes the default context", "fail", [
        ("sub", ENF, CORE, "enforce_with_context", "self.private_enforce_with_context(ctx, &rvals)?",
         'self.private_enforce_with_context(EnforceContext::new(""), &rvals)?')]),
    ("N10 register_g_function!: the 3-argument closure for 2 underscores", "fail", [
        ("macro", macro_body("""        if count == 2 {
            $enforcer.engine.register_fn($fname, %s);
        } else if count == 3 {
            $enforcer.engine.register_fn($fname, %s);
        } else {
            %s
        }""" % (CL3, CL2, ERR_P)))]),
    ("N11 register_g_function!: has_link with swapped arguments (outside the subset)", "fail", [
        ("macro", macro_body("""        if count == 2 {
            $enforcer.engine.register_fn($fname, move |arg1: ImmutableString, arg2: ImmutableString| {
                    rm.read().has_link(&arg2, &arg1, None)
                });
        } else if count == 3 {
            $enforcer.engine.register_fn($fname, %s);
        } else {
            %s
        }""" % (CL3, ERR_P)))]),
    ("N12 register_g_function!: a malformed definition is skipped instead of an error", "fail", [
        ("macro", macro_body("""        if count == 2 {
            $enforcer.engine.register_fn($fname, %s);
        } else if count == 3 {
            $enforcer.engine.register_fn($fname, %s);
        }""" % (CL2, CL3)))]),
    ("N13 new: the policy is loaded also from a filtered adapter", "fail", [
        ("body", ENF, CORE, "new", """{
        let mut e = Self::new_raw(m, a).await?;
        e.load_policy().await?;
        Ok(e)
    }""")]),
    ("N14 new_raw: no callback is registered", "fail", [
        ("sub", ENF, CORE, "new_raw", "e.on(Event::PolicyChange, notify_logger_and_watcher);", "")]),
    ("N15 new_raw: the error of register_g_functions is dropped", "fail", [
        ("sub", ENF, CORE, "new_raw", "e.register_g_functions()?;", "let _ = e.register_g_functions();")]),
    ("N16 build_incremental_role_links: the error is swallowed", "fail", [
        ("body", ENF, CORE, "build_incremental_role_links", """{
        let _ = self.model.build_incremental_role_links(Arc::clone(&self.rm), d);
        Ok(())
    }""")]),
    ("N17 clear_cache does not clear", "fail", [
        ("sub", EMI, None, "clear_cache", "ce.get_mut_cache().clear();", "")]),
    ("N18 EnforceContext::new: the matcher name without the suffix", "fail", [
        ("sub", ENF, r"impl\s+EnforceContext\s*\{", "new", 'm_type: format!("m{}", suffix),', 'm_type: format!("m{}", ""),')]),
    ("N19 emit: the callbacks of ANOTHER event run (PolicyChange whatever e is)", "fail", [
        ("sub", ENF, EMITTER, "emit", "self.events.get(&e)", "self.events.get(&Event::PolicyChange)")]),
    ("N21 Enforcer::register_function: Arg2 functions are filed under another name (read before it is accepted)", "fail", [
        ("sub", ENF, INHERENT, "register_function", """OperatorFunction::Arg2(func) => {
                engine.register_fn(key, func);""", """OperatorFunction::Arg2(func) => {
                engine.register_fn("other", func);""")]),
    ("N22 FunctionMap::default(): keyGet2 takes two parameters", "fail", [
        ("sub", "src/model/function_map.rs", r"impl\s+Default\s+for\s+FunctionMap\b", "default", """OperatorFunction::Arg3(
                |s1: ImmutableString,
                 s2: ImmutableString,
                 s3: ImmutableString| {
                    key_get2(&s1, &s2, &s3).into()
                },
            )""", """OperatorFunction::Arg2(
                |s1: ImmutableString,
                 s2: ImmutableString| {
                    key_get2(&s1, &s2, &s2).into()
                },
            )""")]),
    ("N20 enforce_mut answers Ok(true) whatever enforce says", "fail", [
        ("body", ENF, CORE, "enforce_mut", "{\n        let _ = self.enforce(rvals);\n        Ok(true)\n    }")]),
]


def ws_regex(old):
    return r"\s*".join(re.escape(t) for t in re.findall(r"\w+|[^\w\s]", old))


def apply_edit(root, ed):
    if ed[0] == "macro":
        path = os.path.join(root, MAC)
        src = open(path, encoding="utf-8").read()
        m = re.search(r"macro_rules!\s*register_g_function\s*\{", src)
        old = pins.balanced(src, m.end() - 1)
        assert old is not None
        new = src[:m.start()] + ed[1] + src[m.end() - 1 + len(old):]
        assert new != src
        open(path, "w", encoding="utf-8").write(new)
        return
    kind, rel, hdr, fn = ed[0], ed[1], ed[2], ed[3]
    path = os.path.join(root, rel)
    src = open(path, encoding="utf-8").read()
    start = 0
    if hdr is not None:
        m = re.search(hdr, src)
        assert m, hdr
        start = m.end()
    m = re.search(r"fn\s+%s\b" % fn, src[start:])
    assert m, fn
    # the body: the first `{` after the signature (skip `{` inside the parameter list: none in these signatures)
    j = start + m.end()
    depth = 0
    while True:
        c = src[j]
        if c in "(<":
            depth += 1
        elif c in ")>" and src[j - 1] != "-":
            depth -= 1
        elif c == "{" and depth == 0:
            break
        j += 1
    old = pins.balanced(src, j)
    assert old is not None, fn
    if kind == "body":
        new = ed[4]
    else:
        rx = ws_regex(ed[4])
        assert len(re.findall(rx, old)) == 1, (fn, ed[4][:40], len(re.findall(rx, old)))
        new = re.sub(rx, lambda _m: ed[5], old)
    assert new != old, fn
    open(path, "w", encoding="utf-8").write(src[:j] + new + src[j + len(old):])


def run(cmd, **kw):
    return subprocess.run(cmd, stdout=subprocess.PIPE, stderr=subprocess.STDOUT, text=True, **kw)


def first_error(out):
    m = re.search(r'File "\./([\w/]+\.v)", line (\d+).*?\n(Error:.*?)(?:\nmake|\Z)', out, re.S)
    if not m:
        return " ".join(out.strip().split("\n")[-3:])[:200]
    vfile = m.group(1)
    lines = open(os.path.join(COQ, vfile)).read().split("\n")
    thm = ""
    for k in range(int(m.group(2)) - 1, -1, -1):
        mm = re.match(r"\s*(?:Theorem|Lemma|Example|Corollary)\s+(\w+)", lines[k])
        if mm:
            thm = mm.group(1)
            break
    msg = " ".join(m.group(3).split())
    return "%s: %s: %s" % (vfile.split("/")[-1], thm, msg[:140])


def regenerate(repo):
    env = dict(os.environ, VERIF_REPO=repo)
    return run([sys.executable, os.path.join(HERE, "rs2coq.py"), os.path.join(COQ, "Gen", "EffectorGen.v")], env=env)


def main():
    only = sys.argv[1:]
    results = []
    try:
        for label, expect, edits in VARIANTS:
            if only and not any(label.startswith(o) for o in only):
                continue
            shutil.rmtree(SCRATCH, ignore_errors=True)
            shutil.copytree("/repo/src", os.path.join(SCRATCH, "src"))
            for ed in edits:
                apply_edit(SCRATCH, ed)
            regenerate(SCRATCH)
            mk = run(["timeout", "1800", "make", "PinChecks/PcEnforcer2Gen.vo"], cwd=COQ)
            ok = mk.returncode == 0
            gen = open(os.path.join(COQ, "Gen", "Enforcer2Gen.v")).read()
            translated = "gen_enforcer2_translated : bool := true" in gen
            why = "" if ok else first_error(mk.stdout)
            note = ""
            fm = re.search(r"\(\* translation of (\w+) failed: (.*?) \*\)", gen, re.S)
            if fm:
                note = " [untranslatable %s: %s]" % (fm.group(1), " ".join(fm.group(2).split())[:150])
            verdict = "pass" if ok and translated else "fail"
            flag = "as expected" if verdict == expect else "UNEXPECTED"
            print("%-4s (%s) %s%s%s" % (verdict.upper(), flag, label, (" -> " + why) if why else "", note))
            sys.stdout.flush()
            results.append(verdict == expect)
    finally:
        # restore the pristine generated files
        regenerate("/repo")
        mk = run(["timeout", "1800", "make", "PinChecks/PcEnforcer2Gen.vo", "PinChecks/PcEnforceGen.vo"], cwd=COQ)
        print("restored from /repo:", "build ok" if mk.returncode == 0 else "BUILD FAILED")
        shutil.rmtree(SCRATCH, ignore_errors=True)
    print("%d/%d variants behaved as expected" % (sum(results), len(results)))
    return 0 if all(results) and mk.returncode == 0 else 1


if __name__ == "__main__":
    sys.exit(main())
