#!/usr/bin/env python3
"""rs2coq, part 14: the REGEX-based functions of src/util.rs (`escape_assertion`, `escape_eval`,
`parse_csv_line`) and the `static NAME: Lazy<Regex>` items they use -> coq/Gen/RegexGen.v, over
coq/Gen/Regex.v (the TRUSTED restatement of the `regex` crate: AST, leftmost-first matcher, find_iter,
replace_all), coq/Gen/RegexRt.v (trim, starts_with(char), slices, ..) and coq/Gen/RustVec.v / RustIter.v
(`flow`, `rs_for`, `rs_fn`, `rs_usize_sub`, `rs_iter_map`).  coq/PinChecks/PcRegexGen.v proves the translated
functions equal to the hand models (Model/Csv.v parse_csv_line, Model/Expr.v escape_assertion; lemmas in
coq/Proofs/RegexP.v).  Kept in its own module; rs2coq.py's main() calls main() here.
Stretch: key_match2 / key_match3 of src/model/function_map.rs (statics MAT_B, MAT_P) up to their call of regex_match,
which compiles its argument at run time: that callee is a PARAMETER f_regex_match of the translation
(coq/PinChecks/PcRegexFmGen.v: the text handed to it is PathMatch.rewrite_km2 / rewrite_km3; flag gen_regex_fm_translated).

Re-read from /repo (VERIF_REPO) on every run.  NOTHING is hard-coded per function: every regex literal is parsed
into the AST, every replacement string into its template, every guard / literal / argument / slice bound comes
from the token stream of the function body.

1. items of src/util.rs
     macro_rules! regex { ($re:expr) => { ::regex::Regex::new($re).unwrap() }; }     (any name; one `expr` parameter)
     [pub[(crate)]] static NAME: Lazy<Regex> = Lazy::new(|| <e>);   <e> = the macro call or Regex::new(r"..").unwrap()
     [pub] fn name[<S: AsRef<str>>](x: &str | String | S ..) -> String | Cow<str> | Option<Vec<String>> | bool { .. }
2. regex literal -> Regex.regex   (regex-syntax, default flags; anything else is Untranslatable)
     literal bytes (printable ASCII), `\\` + punctuation, \\n \\t \\r, `.`, `^`, `$`, \\b \\B, \\s \\d \\w \\S \\D \\W,
     [..] / [^..] with single bytes, escapes, a-z ranges and \\s \\d \\w \\S \\D \\W inside,
     ( ) numbered in the order of their opening parenthesis, (?: ), `|`,
     * + ? {n} {n,} {n,m} and their lazy forms (`*?` ..); an UNBOUNDED repetition of an expression that can
     match the empty string is refused (outside the validated subset of Gen/Regex.v).
3. replacement string -> list tpl_item  (regex-automata util/interpolate.rs): `${n}`, `$n` (the longest
     [0-9A-Za-z_]+ after the `$` must be all digits), `$$`; a named reference is Untranslatable.
4. function bodies.  Supported subset
     statements   let [mut] x [: T] = e;   x = e; (straight-line code)   return e;   e;   for x in e { .. }
                  if c { .. } [else ..]   a final expression
     expressions  string / char / integer literals, variables, the statics, true false None Some(e) vec![]
                  ! & == != < <= > >= + - && ||   e[a..b] e[a..] e[..b]   { block }   if .. else ..   |x| e
                  format!("..{}..", e)   f(a, ..) for another fn f of the file (-> parameter f_f of the translation)
     methods      as_ref to_owned to_string into as_str(on a String) clone     (identity)
                  trim trim_start trim_end is_empty len starts_with(c | s) ends_with(c) contains("..") replace("..", "..")
                  RE.find_iter(s) RE.replace_all(s, "..") RE.replace(s, "..") RE.replacen(s, n, "..") RE.is_match(s)
                  it.map(|m| e)   m.as_str()   v.push(e)   v.is_empty()
   Translation.  A body without loop, mutation, early return and panicking operation is a Gallina EXPRESSION of
   the result type.  Any other body is `rs_fn (.. : flow unit R) : option R` (None = a panic: `a - b` below zero,
   a slice out of range); mutable locals are Coq variables re-bound by every mutation; a `for` loop is
   `rs_for` over the list of the items of the iterator, carrying the locals its body mutates.  An operation
   that can panic is bound before its use: `match rs_usize_sub a b with Some n_ => .. | None => LPanic end`;
   such an operation under `&&` / `||` / inside a closure is refused (evaluation order would matter).

Outside the subset: the generated file defines `gen_regex_translated := false`, the reason is a comment at the
place of the definition that failed, and a placeholder of the right type keeps everything compiling."""
import os
import re
import sys

sys.path.insert(0, os.path.dirname(os.path.abspath(__file__)))
import pins  # noqa: E402

UTIL = "src/util.rs"
# (Rust function, Coq type of the translation, placeholder)
# (Rust function, Coq result type of the translation, placeholder (binders, term), untranslated callees = parameters)
FUNCS = (("escape_assertion", "text", ("(_ : text)", "[]"), ()),
         ("escape_eval", "text", ("(_ : text)", "[]"), ()),
         ("parse_csv_line", "option (option (list text))", ("(_ : text)", "None"), ()))
STATICS = ("ESC_A", "ESC_C", "ESC_E")
# stretch: the functions of src/model/function_map.rs that rewrite their pattern with a static regex
FMAP = "src/model/function_map.rs"
FM_FUNCS = (("key_match2", "bool", ("(_ : text -> text -> bool) (_ _ : text)", "false"), ("regex_match",)),
            ("key_match3", "bool", ("(_ : text -> text -> bool) (_ _ : text)", "false"), ("regex_match",)))
FM_STATICS = ("MAT_B", "MAT_P")


class Untranslatable(Exception):
    pass


# =============================================================== regex literals
def coq_char(c):
    n = ord(c)
    if n >= 128:
        raise Untranslatable("non-ASCII character %r" % c)
    if c == '"':
        return '""""%char'
    if 32 <= n < 127:
        return '"%s"%%char' % c
    return "(ascii_of_nat %d)" % n


def coq_text(s):
    """a Gallina term of type text for an arbitrary ASCII string"""
    if s == "":
        return "(T \"\")"
    parts, cur = [], ""
    for ch in s:
        if ord(ch) >= 128:
            raise Untranslatable("non-ASCII string literal")
        if 32 <= ord(ch) < 127:
            cur += ch
        else:
            if cur:
                parts.append("T %s" % pins.coq_str(cur))
                cur = ""
            parts.append("[ascii_of_nat %d]" % ord(ch))
    if cur:
        parts.append("T %s" % pins.coq_str(cur))
    return "(" + " ++ ".join(parts) + ")"


PERL = {"s": "ISpace", "d": "IDigit", "w": "IWord", "S": "INotSpace", "D": "INotDigit", "W": "INotWord"}
CTRL = {"n": "\n", "t": "\t", "r": "\r"}
PUNCT = set("\\.+*?()|[]{}^$#&-~/\"'`!%,:;<=>@_ ")
# regex-syntax: is_escapeable_character = ASCII punctuation; `\<` and `\>` are word-boundary assertions: not taken
ESCAPABLE = PUNCT - set("<>")


class RxParser:
    """regex literal -> AST
         ("eps",) ("set", neg, [item]) ("cat", a, b) ("alt", a, b) ("star", greedy, a) ("plus", greedy, a)
         ("opt", greedy, a) ("rep", greedy, a, m, mx | None) ("group", n, a) ("wordb",) ("nwordb",) ("start",) ("end",)
       item = ("chr", c) | ("range", lo, hi) | ("perl", name)"""

    def __init__(self, src):
        self.s = src
        self.i = 0
        self.ngroups = 0

    def peek(self):
        return self.s[self.i] if self.i < len(self.s) else ""

    def fail(self, why):
        raise Untranslatable("regex %r, offset %d: %s" % (self.s, self.i, why))

    def parse(self):
        r = self.alt()
        if self.i != len(self.s):
            self.fail("unbalanced `)`")
        return r

    def alt(self):
        branches = [self.cat()]
        while self.peek() == "|":
            self.i += 1
            branches.append(self.cat())
        r = branches[-1]
        for b in reversed(branches[:-1]):
            r = ("alt", b, r)
        return r

    def cat(self):
        items = []
        while self.peek() not in ("", "|", ")"):
            items.append(self.repeat())
        if not items:
            return ("eps",)
        r = items[-1]
        for a in reversed(items[:-1]):
            r = ("cat", a, r)
        return r

    def repeat(self):
        a = self.atom()
        while True:
            c = self.peek()
            if c in ("*", "+", "?"):
                self.i += 1
                greedy = True
                if self.peek() == "?":
                    self.i += 1
                    greedy = False
                if a[0] in ("wordb", "nwordb", "start", "end", "eps"):
                    self.fail("repetition of an assertion")
                kind = {"*": "star", "+": "plus", "?": "opt"}[c]
                if kind in ("star", "plus") and rx_nullable(a):
                    self.fail("unbounded repetition of an expression that can match the empty string")
                a = (kind, greedy, a)
            elif c == "{":
                m = re.match(r"\{(\d+)(?:(,)(\d*))?\}(\??)", self.s[self.i:])
                if not m:
                    self.fail("`{` that does not start a counted repetition")
                self.i += m.end()
                lo = int(m.group(1))
                hi = lo if m.group(2) is None else (None if m.group(3) == "" else int(m.group(3)))
                if hi is not None and hi < lo:
                    self.fail("repetition {%d,%d}" % (lo, hi))
                if lo > 64 or (hi or 0) > 64:
                    self.fail("repetition count above 64")
                if a[0] in ("wordb", "nwordb", "start", "end", "eps"):
                    self.fail("repetition of an assertion")
                if hi is None and rx_nullable(a):
                    self.fail("unbounded repetition of an expression that can match the empty string")
                a = ("rep", m.group(4) == "", a, lo, hi)
            else:
                return a

    def atom(self):
        c = self.peek()
        if c == "(":
            self.i += 1
            if self.peek() == "?":
                if self.s.startswith("?:", self.i):
                    self.i += 2
                    r = self.alt()
                    if self.peek() != ")":
                        self.fail("missing `)`")
                    self.i += 1
                    return r
                self.fail("group flags / named groups are not supported")
            self.ngroups += 1
            n = self.ngroups
            r = self.alt()
            if self.peek() != ")":
                self.fail("missing `)`")
            self.i += 1
            return ("group", n, r)
        if c == "[":
            return self.cls()
        if c == ".":
            self.i += 1
            return ("set", True, [("chr", "\n")])
        if c == "^":
            self.i += 1
            return ("start",)
        if c == "$":
            self.i += 1
            return ("end",)
        if c == "\\":
            self.i += 1
            e = self.peek()
            if e == "":
                self.fail("trailing backslash")
            self.i += 1
            if e == "b":
                return ("wordb",)
            if e == "B":
                return ("nwordb",)
            if e in PERL:
                return ("set", False, [("perl", PERL[e])])
            if e in CTRL:
                return ("set", False, [("chr", CTRL[e])])
            if e in ESCAPABLE:
                return ("set", False, [("chr", e)])
            self.fail("escape \\%s is not supported" % e)
        if c in "*+?":
            self.fail("repetition operator without operand")
        if c in "{}]":
            self.fail("unescaped `%s`" % c)
        if not (32 <= ord(c) < 127):
            self.fail("non-printable or non-ASCII literal")
        self.i += 1
        return ("set", False, [("chr", c)])

    def cls(self):
        self.i += 1
        neg = False
        if self.peek() == "^":
            neg = True
            self.i += 1
        items = []
        if self.peek() == "]":
            self.fail("`]` as the first member of a class")
        while True:
            c = self.peek()
            if c == "":
                self.fail("unclosed class")
            if c == "]":
                self.i += 1
                break
            if c == "[":
                self.fail("nested class / [:name:]")
            if self.s.startswith("&&", self.i) or self.s.startswith("--", self.i) or self.s.startswith("~~", self.i):
                self.fail("class set operation")
            lo = self.cls_atom()
            if self.peek() == "-" and self.i + 1 < len(self.s) and self.s[self.i + 1] != "]":
                if lo[0] != "chr":
                    self.fail("range starting with a class")
                self.i += 1
                hi = self.cls_atom()
                if hi[0] != "chr" or ord(hi[1]) < ord(lo[1]):
                    self.fail("invalid range")
                items.append(("range", lo[1], hi[1]))
            else:
                items.append(lo)
        if not items:
            self.fail("empty class")
        return ("set", neg, items)

    def cls_atom(self):
        c = self.peek()
        self.i += 1
        if c == "\\":
            e = self.peek()
            self.i += 1
            if e in PERL:
                return ("perl", PERL[e])
            if e in CTRL:
                return ("chr", CTRL[e])
            if e in ESCAPABLE:
                return ("chr", e)
            self.fail("escape \\%s in a class is not supported" % e)
        if not (32 <= ord(c) < 127):
            self.fail("non-printable or non-ASCII class member")
        return ("chr", c)


def rx_nullable(r):
    k = r[0]
    if k == "set":
        return False
    if k in ("cat",):
        return rx_nullable(r[1]) and rx_nullable(r[2])
    if k == "alt":
        return rx_nullable(r[1]) or rx_nullable(r[2])
    if k == "plus":
        return rx_nullable(r[2])
    if k == "rep":
        return r[3] == 0 or rx_nullable(r[2])
    if k == "group":
        return rx_nullable(r[2])
    return True      # eps star opt assertions


def rx_coq(r):
    k = r[0]
    b = lambda g: "true" if g else "false"   # noqa: E731
    if k == "eps":
        return "REps"
    if k == "set":
        neg, items = r[1], r[2]
        if not neg and len(items) == 1 and items[0][0] == "chr":
            return "(RChar %s)" % coq_char(items[0][1])
        if neg and items == [("chr", "\n")]:
            return "RAny"
        its = []
        for it in items:
            if it[0] == "chr":
                its.append("IChar %s" % coq_char(it[1]))
            elif it[0] == "range":
                its.append("IRange %s %s" % (coq_char(it[1]), coq_char(it[2])))
            else:
                its.append(it[1])
        return "(RSet %s [%s])" % (b(neg), "; ".join(its))
    if k == "cat":
        return "(RCat %s %s)" % (rx_coq(r[1]), rx_coq(r[2]))
    if k == "alt":
        return "(RAlt %s %s)" % (rx_coq(r[1]), rx_coq(r[2]))
    if k == "star":
        return "(RStar %s %s)" % (b(r[1]), rx_coq(r[2]))
    if k == "plus":
        return "(RPlus %s %s)" % (b(r[1]), rx_coq(r[2]))
    if k == "opt":
        return "(ROpt %s %s)" % (b(r[1]), rx_coq(r[2]))
    if k == "rep":
        return "(RRep %s %s %d %s)" % (b(r[1]), rx_coq(r[2]), r[3], "None" if r[4] is None else "(Some %d)" % r[4])
    if k == "group":
        return "(RGroup %d %s)" % (r[1], rx_coq(r[2]))
    return {"wordb": "RWordB", "nwordb": "RNotWordB", "start": "RStart", "end": "REnd"}[k]


def regex_to_coq(lit):
    return rx_coq(RxParser(lit).parse())


def template_to_coq(rep):
    """regex-automata util/interpolate.rs `string`"""
    items, cur, i = [], "", 0
    while i < len(rep):
        c = rep[i]
        if c != "$":
            cur += c
            i += 1
            continue
        if rep.startswith("$$", i):
            cur += "$"
            i += 2
            continue
        name = None
        if rep.startswith("${", i):
            j = rep.find("}", i + 2)
            if j >= 0:
                name = rep[i + 2:j]
                nxt = j + 1
        else:
            m = re.match(r"[0-9A-Za-z_]+", rep[i + 1:])
            if m:
                name = m.group(0)
                nxt = i + 1 + m.end()
        if name is None:           # not a reference: the `$` is literal
            cur += "$"
            i += 1
            continue
        if not re.fullmatch(r"[0-9]+", name):
            raise Untranslatable("replacement %r refers to the NAMED group %r" % (rep, name))
        if cur:
            items.append("TLit %s" % coq_text(cur))
            cur = ""
        items.append("TGroup %d" % int(name))
        i = nxt
    if cur:
        items.append("TLit %s" % coq_text(cur))
    return "[" + "; ".join(items) + "]"


# ======================================================================== lexer
TOK = re.compile(r"""\s*(?:(//[^\n]*)|(/\*.*?\*/)|(\#!?\[(?:[^\[\]]|\[[^\]]*\])*\])|(r(\#*)"(.*?)"\5)|("(?:[^"\\]|\\.)*")"""
                 r"""|('(?:[^'\\]|\\.)')|(\d+)|(\$?[A-Za-z_]\w*(?:::[A-Za-z_]\w*)*!?)"""
                 r"""|(::|\|\||&&|==|!=|<=|>=|=>|->|\.\.|[{}()\[\];=!&.,<>*+\-:?|$]))""", re.S)


def lex(src):
    out, i, n = [], 0, len(src)
    while i < n:
        if src[i:].strip() == "":
            break
        m = TOK.match(src, i)
        if not m:
            raise Untranslatable("cannot tokenise at: %r" % src[i:i + 30])
        i = m.end()
        if m.group(1) or m.group(2):
            continue
        if m.group(3) is not None:
            out.append(("attr", re.sub(r"\s+", "", m.group(3))))
        elif m.group(4) is not None:
            out.append(("raw", m.group(6)))
        elif m.group(7) is not None:
            out.append(("str", pins.rust_unescape(m.group(7)[1:-1])))
        elif m.group(8) is not None:
            c = pins.rust_unescape(m.group(8)[1:-1])
            if len(c) != 1:
                raise Untranslatable("character literal " + m.group(8))
            out.append(("chr", c))
        elif m.group(9) is not None:
            out.append(("int", m.group(9)))
        elif m.group(10) is not None:
            out.append(("id", m.group(10)))
        else:
            out.append(("op", m.group(11)))
    return out


# ======================================================================= parser
# block = ("block", [stmt], final-expression | None)
# stmt  = ("let", x, mutable, e) | ("assign", x, e) | ("ret", e) | ("expr", e) | ("for", x, e, block)
# e     = ("str", s) | ("raw", s) | ("chr", c) | ("int", n) | ("lit", b) | ("var", x) | ("none",) | ("some", e) | ("vec", [e])
#       | ("not", e) | ("bin", op, a, b) | ("mcall", recv, name, [e]) | ("slice", e, a | None, b | None)
#       | ("closure", [x], e) | ("if", e, block, block | None) | ("macro", name, [tokens]) | ("call", path, [e]) | block
KEYWORDS = ("let", "return", "else", "match", "while", "for", "loop", "mut", "fn", "move", "in", "if", "break", "continue")
IDENTITY_METHODS = ("as_ref", "to_owned", "to_string", "into", "clone", "borrow")
IDENTITY_CTORS = ("Cow::Owned", "Cow::Borrowed", "String::from")


class RP:
    def __init__(self, toks):
        self.t = toks
        self.i = 0

    def peek(self, k=0):
        return self.t[self.i + k] if self.i + k < len(self.t) else ("eof", "")

    def eat(self, val=None):
        tk = self.peek()
        if val is not None and tk[1] != val:
            raise Untranslatable("expected %r, found %r" % (val, tk[1]))
        if tk[0] == "eof":
            raise Untranslatable("unexpected end of input")
        self.i += 1
        return tk

    def at(self, val):
        return self.peek()[0] in ("op", "id") and self.peek()[1] == val

    def ident(self):
        kind, x = self.eat()
        if kind != "id" or "::" in x or x.endswith("!") or x in KEYWORDS or x.startswith("$"):
            raise Untranslatable("identifier expected, found %r" % x)
        return x

    # ---- expressions
    def expr(self):
        if self.at("|") or self.at("||"):
            return self.closure()
        return self.or_()

    def closure(self):
        params = []
        if self.at("||"):
            self.eat()
        else:
            self.eat("|")
            while not self.at("|"):
                params.append(self.ident())
                if self.at(","):
                    self.eat()
            self.eat("|")
        return ("closure", params, self.expr())

    def or_(self):
        e = self.and_()
        while self.at("||"):
            self.eat()
            e = ("bin", "||", e, self.and_())
        return e

    def and_(self):
        e = self.cmp()
        while self.at("&&"):
            self.eat()
            e = ("bin", "&&", e, self.cmp())
        return e

    def cmp(self):
        a = self.add()
        if self.peek()[0] == "op" and self.peek()[1] in ("==", "!=", "<", "<=", ">", ">="):
            op = self.eat()[1]
            return ("bin", op, a, self.add())
        return a

    def add(self):
        e = self.unary()
        while self.peek()[0] == "op" and self.peek()[1] in ("+", "-"):
            op = self.eat()[1]
            e = ("bin", op, e, self.unary())
        return e

    def unary(self):
        if self.at("!"):
            self.eat()
            return ("not", self.unary())
        if self.at("&"):          # a reference: identity
            self.eat()
            return self.unary()
        return self.postfix()

    def args(self):
        self.eat("(")
        out = []
        while not self.at(")"):
            out.append(self.expr())
            if self.at(","):
                self.eat()
            elif not self.at(")"):
                raise Untranslatable("`,` or `)` expected in an argument list, found %r" % self.peek()[1])
        self.eat(")")
        return out

    def postfix(self):
        e = self.primary()
        while True:
            if self.at("."):
                self.eat()
                name = self.ident()
                e = ("mcall", e, name, self.args())
            elif self.at("["):
                self.eat()
                a = None if self.at("..") else self.add()
                self.eat("..")
                b = None if self.at("]") else self.add()
                self.eat("]")
                e = ("slice", e, a, b)
            else:
                return e

    def primary(self):
        kind, v = self.peek()
        if kind in ("str", "raw", "chr"):
            self.eat()
            return (kind, v)
        if kind == "int":
            self.eat()
            return ("int", int(v))
        if kind == "op" and v == "(":
            self.eat()
            e = self.expr()
            self.eat(")")
            return e
        if kind == "op" and v == "{":
            return self.block()
        if kind == "op" and v == "::":      # ::regex::Regex::new
            self.eat()
            k2, p = self.eat()
            if k2 != "id":
                raise Untranslatable("path after `::`")
            return ("call", p, self.args())
        if kind == "id":
            if v == "if":
                return self.if_()
            if v in ("true", "false"):
                self.eat()
                return ("lit", v)
            if v == "None":
                self.eat()
                return ("none",)
            if v == "Some":
                self.eat()
                a = self.args()
                if len(a) != 1:
                    raise Untranslatable("Some with %d arguments" % len(a))
                return ("some", a[0])
            if v == "vec!":
                self.eat()
                self.eat("[")
                es = []
                while not self.at("]"):
                    es.append(self.expr())
                    if self.at(","):
                        self.eat()
                self.eat("]")
                return ("vec", es)
            if v.endswith("!"):
                self.eat()
                return ("macro", v[:-1], self.macro_args())
            if v in KEYWORDS:
                raise Untranslatable("unsupported `%s`" % v)
            self.eat()
            if self.at("("):
                return ("call", v, self.args())
            if "::" in v:
                raise Untranslatable("path " + v)
            return ("var", v)
        raise Untranslatable("unexpected token %r" % (v or "end of input"))

    def macro_args(self):
        """the token tree between the parentheses of a macro call"""
        self.eat("(")
        depth, out = 1, []
        while True:
            tk = self.eat()
            if tk == ("op", "("):
                depth += 1
            elif tk == ("op", ")"):
                depth -= 1
                if depth == 0:
                    return out
            out.append(tk)

    def if_(self):
        self.eat("if")
        if self.at("let"):
            raise Untranslatable("if let")
        c = self.expr_no_struct()
        th = self.block()
        el = None
        if self.at("else"):
            self.eat()
            if self.at("if"):
                el = ("block", [], self.if_())
            else:
                el = self.block()
        return ("if", c, th, el)

    def expr_no_struct(self):
        return self.expr()

    # ---- statements
    def block(self):
        self.eat("{")
        stmts, final = [], None
        while not self.at("}"):
            if final is not None:
                # an expression of type () followed by another statement: `if c { return x; }`, `for ..`
                stmts.append(("expr", final))
                final = None
            kind, v = self.peek()
            if (kind, v) == ("id", "let"):
                self.eat()
                mutable = False
                if self.at("mut"):
                    self.eat()
                    mutable = True
                x = self.ident()
                if self.at(":"):
                    # a type annotation (`: Cow<str>`): skipped, the type is inferred from the initialiser
                    self.eat()
                    depth = 0
                    while not (depth == 0 and self.at("=")):
                        if self.at("<"):
                            depth += 1
                        elif self.at(">"):
                            depth -= 1
                        self.eat()
                self.eat("=")
                e = self.expr()
                self.eat(";")
                stmts.append(("let", x, mutable, e))
            elif kind == "id" and self.peek(1) == ("op", "=") and "::" not in v and v not in KEYWORDS:
                self.eat()
                self.eat("=")
                e = self.expr()
                self.eat(";")
                stmts.append(("assign", v, e))
            elif (kind, v) == ("id", "return"):
                self.eat()
                e = None if self.at(";") or self.at("}") else self.expr()
                if self.at(";"):
                    self.eat()
                stmts.append(("ret", e))
            elif (kind, v) == ("id", "for"):
                self.eat()
                x = self.ident()
                self.eat("in")
                it = self.expr()
                body = self.block()
                stmts.append(("for", x, it, body))
            else:
                e = self.expr()
                if self.at(";"):
                    self.eat()
                    stmts.append(("expr", e))
                elif e[0] == "if" and not self.at("}"):
                    stmts.append(("expr", e))
                else:
                    final = e
        self.eat("}")
        return ("block", stmts, final)


# ------------------------------------------------------------- items of a file
class Items:
    """the items of a source file this part needs: macro_rules!, static .. Lazy<Regex>, fn"""

    def __init__(self, src):
        self.toks = lex(src)
        self.macros = {}      # name -> (parameter, body tokens)
        self.statics = {}     # NAME -> tokens of the initialiser expression
        self.fns = {}         # name -> (generics {S: bound}, [(param, type tokens)], return type tokens, body tokens)
        self.scan()

    def group_end(self, i):
        """index just after the bracket group that opens at token i"""
        opener = self.toks[i][1]
        closer = {"(": ")", "{": "}", "[": "]"}[opener]
        depth, j = 0, i
        while j < len(self.toks):
            tk = self.toks[j]
            if tk[0] == "op" and tk[1] == opener:
                depth += 1
            elif tk[0] == "op" and tk[1] == closer:
                depth -= 1
                if depth == 0:
                    return j + 1
            j += 1
        raise Untranslatable("unbalanced %s" % opener)

    def scan(self):
        t, i, n = self.toks, 0, len(self.toks)
        pending_attrs = []
        while i < n:
            kind, v = t[i]
            if kind == "attr":
                pending_attrs.append(v)
                i += 1
                continue
            attrs, pending_attrs = pending_attrs, []
            if (kind, v) == ("id", "macro_rules!"):
                name = t[i + 1][1]
                end = self.group_end(i + 2)
                self.macro(name, t[i + 3:end - 1])
                i = end
                continue
            if (kind, v) == ("id", "mod"):
                # `mod tests { .. }` (under #[cfg(test)]) is not part of the build under verification
                j = i + 2
                if t[j] == ("op", "{"):
                    i = self.group_end(j)
                    continue
            # visibility
            j = i
            if t[j] == ("id", "pub"):
                j += 1
                if t[j] == ("op", "("):
                    j = self.group_end(j)
            if t[j] == ("id", "static"):
                name = t[j + 1][1]
                k = j + 2
                ty = []
                if t[k] != ("op", ":"):
                    raise Untranslatable("static %s: type expected" % name)
                k += 1
                while t[k] != ("op", "="):
                    ty.append(t[k][1])
                    k += 1
                k += 1
                init = []
                depth = 0
                while not (depth == 0 and t[k] == ("op", ";")):
                    if t[k][0] == "op" and t[k][1] in "({[":
                        depth += 1
                    elif t[k][0] == "op" and t[k][1] in ")}]":
                        depth -= 1
                    init.append(t[k])
                    k += 1
                self.statics[name] = ("".join(ty), init)
                i = k + 1
                continue
            if t[j] == ("id", "fn"):
                i = self.fn(j, attrs)
                continue
            # anything else (use .., impl .., struct ..): skip one token tree
            if kind == "op" and v in ("(", "{", "["):
                i = self.group_end(i)
            else:
                i += 1

    def macro(self, name, toks):
        # ( $x : expr ) => { body } [;]
        try:
            if toks[0] != ("op", "(") or toks[1][0] != "id" or not toks[1][1].startswith("$") \
                    or toks[2] != ("op", ":") or toks[3] != ("id", "expr") or toks[4] != ("op", ")") \
                    or toks[5] != ("op", "=>") or toks[6][1] not in ("{", "("):
                raise IndexError
        except IndexError:
            self.macros[name] = None     # a macro of another shape: using it is Untranslatable
            return
        depth, j = 0, 6
        while True:
            if toks[j][0] == "op" and toks[j][1] in "({":
                depth += 1
            elif toks[j][0] == "op" and toks[j][1] in ")}":
                depth -= 1
                if depth == 0:
                    break
            j += 1
        rest = [x for x in toks[j + 1:] if x != ("op", ";")]
        if rest:
            self.macros[name] = None     # several rules
            return
        self.macros[name] = (toks[1][1], toks[7:j])

    def fn(self, j, attrs):
        t = self.toks
        name = t[j + 1][1]
        k = j + 2
        generics = {}
        if t[k] == ("op", "<"):
            k += 1
            depth = 1
            cur = []
            while depth > 0:
                if t[k] == ("op", "<"):
                    depth += 1
                elif t[k] == ("op", ">"):
                    depth -= 1
                    if depth == 0:
                        break
                cur.append(t[k][1])
                k += 1
            k += 1
            for part in "".join(cur).split(","):
                if ":" in part:
                    g, bound = part.split(":", 1)
                    generics[g] = bound
        if t[k] != ("op", "("):
            raise Untranslatable("fn %s: parameter list expected" % name)
        pend = self.group_end(k)
        params, cur, depth = [], [], 0
        for tk in t[k + 1:pend - 1]:
            if tk[0] == "op" and tk[1] in "(<[":
                depth += 1
            elif tk[0] == "op" and tk[1] in ")>]":
                depth -= 1
            if depth == 0 and tk == ("op", ","):
                params.append(cur)
                cur = []
            else:
                cur.append(tk)
        if cur:
            params.append(cur)
        ps = []
        for p in params:
            if len(p) < 3 or p[0][0] != "id" or p[1] != ("op", ":"):
                ps.append((None, "".join(x[1] for x in p)))
            else:
                ps.append((p[0][1], "".join(x[1] for x in p[2:])))
        k = pend
        ret = []
        if t[k] == ("op", "->"):
            k += 1
            while t[k] != ("op", "{") and t[k] != ("op", ";"):
                ret.append(t[k][1])
                k += 1
        if t[k] == ("op", ";"):
            return k + 1
        end = self.group_end(k)
        if not any(a.startswith("#[cfg(test)") for a in attrs) and name not in self.fns:
            self.fns[name] = (generics, ps, "".join(ret), t[k:end])
        return end


def static_regex(items, name):
    """the raw string literal a `static NAME: Lazy<Regex>` is compiled from"""
    if name not in items.statics:
        raise Untranslatable("static %s not found" % name)
    ty, init = items.statics[name]
    if ty != "Lazy<Regex>":
        raise Untranslatable("static %s has type %s" % (name, ty))
    p = RP(init)
    e = p.expr()
    if p.peek()[0] != "eof":
        raise Untranslatable("static %s: trailing tokens in the initialiser" % name)
    if not (e[0] == "call" and e[1] == "Lazy::new" and len(e[2]) == 1 and e[2][0][0] == "closure" and not e[2][0][1]):
        raise Untranslatable("static %s: initialiser is not Lazy::new(|| ..)" % name)
    body = e[2][0][2]
    if body[0] == "block" and not body[1] and body[2] is not None:
        body = body[2]
    if body[0] == "macro":
        mac = items.macros.get(body[1])
        if mac is None:
            raise Untranslatable("static %s: macro %s! is not a one-rule macro with one expr parameter" % (name, body[1]))
        prm, mtoks = mac
        args = body[2]
        expanded = []
        for tk in mtoks:
            if tk == ("id", prm):
                expanded.append(("op", "("))
                expanded.extend(args)
                expanded.append(("op", ")"))
            else:
                expanded.append(tk)
        p2 = RP(expanded)
        body = p2.expr()
        if p2.peek()[0] != "eof":
            raise Untranslatable("static %s: trailing tokens in the expansion of %s!" % (name, e[1]))
    # Regex::new(<raw string>).unwrap()
    if not (body[0] == "mcall" and body[2] == "unwrap" and not body[3] and body[1][0] == "call"
            and body[1][1] in ("Regex::new", "regex::Regex::new") and len(body[1][2]) == 1):
        raise Untranslatable("static %s: not Regex::new(..).unwrap()" % name)
    lit = body[1][2][0]
    if lit[0] not in ("raw", "str"):
        raise Untranslatable("static %s: the pattern is not a string literal" % name)
    return lit[1]


# ===================================================================== emission
def tyname(t):
    if isinstance(t, tuple):
        return "%s<%s>" % (t[0], tyname(t[1]))
    return str(t)


class NeedFlow(Exception):
    """the body is not a pure expression"""


class Emit:
    """types: "text" "bool" "nat" "unit" "regex" "match" "asref" ("opt", T) ("vec", T) ("iter", T); T may be None = unknown"""

    def __init__(self, statics, flow, externs=None):
        self.externs = externs or {}   # untranslated fn of the same file -> ([parameter types], result type)
        self.used_externs = []
        self.statics = statics     # NAME -> Coq constant
        self.flow = flow           # True: terms of type `flow S R`; False: a pure expression
        self.fresh = 0
        self.depth = 0             # nesting depth of loops

    def tmp(self, base):
        self.fresh += 1
        return "%s%d_" % (base, self.fresh)

    def panic(self):
        if not self.flow:
            raise NeedFlow()
        return "LPanic"

    # -- pure expressions: (type, term); raises on a panicking operation
    def pure(self, e, env):
        hold = []

        def k(ty, a):
            hold.append((ty, a))
            return "\0"
        saved = self.flow
        self.flow = True
        try:
            out = self.ex(e, env, k)
        finally:
            self.flow = saved
        if out != "\0" or len(hold) != 1:
            raise Untranslatable("an operation that can panic (or a branch) under `&&` / `||` / `!`, in a closure or "
                                 "in a condition")
        return hold[0]

    def template(self, e):
        if e[0] != "str":
            raise Untranslatable("the replacement is not a string literal")
        return template_to_coq(e[1])

    def ex(self, e, env, k):
        """k(type, term of that type) -> the term for what follows"""
        kind = e[0]
        if kind == "str" or kind == "raw":
            return k("text", coq_text(e[1]))
        if kind == "int":
            return k("nat", str(e[1]))
        if kind == "lit":
            return k("bool", e[1])
        if kind == "chr":
            raise Untranslatable("character literal outside starts_with / ends_with")
        if kind == "var":
            if e[1] in env:
                return k(env[e[1]][0], "v_" + e[1])
            if e[1] in self.statics:
                return k("regex", self.statics[e[1]])
            raise Untranslatable("identifier " + e[1])
        if kind == "none":
            return k(("opt", None), "None")
        if kind == "some":
            return self.ex(e[1], env, lambda t, a: k(("opt", t), "(Some %s)" % a))
        if kind == "vec":
            if e[1]:
                raise Untranslatable("vec! with elements")
            return k(("vec", None), "[]")
        if kind == "call":
            if e[1] in IDENTITY_CTORS and len(e[2]) == 1:
                return self.ex(e[2][0], env, lambda t, a: k(self.want(t, "text", e[1]), a))
            if e[1] in self.externs:
                # a function of the same file that this part does not translate: a PARAMETER of the translation
                ptys, rty = self.externs[e[1]]
                if len(ptys) != len(e[2]):
                    raise Untranslatable("call of %s with %d arguments" % (e[1], len(e[2])))
                terms = []
                for pt, arg in zip(ptys, e[2]):
                    t, a = self.pure(arg, env)
                    self.want(t, pt, "an argument of " + e[1])
                    terms.append(a)
                if e[1] not in self.used_externs:
                    self.used_externs.append(e[1])
                return k(rty, "(f_%s %s)" % (e[1], " ".join(terms)))
            raise Untranslatable("call of " + e[1])
        if kind == "macro":
            if e[1] == "format":
                toks = e[2]
                if len(toks) == 3 and toks[0][0] == "str" and toks[1] == ("op", ",") and toks[0][1].count("{}") == 1 \
                        and "{" not in toks[0][1].replace("{}", "") and "}" not in toks[0][1].replace("{}", ""):
                    pre, post = toks[0][1].split("{}")
                    p2 = RP([toks[2]])
                    t, a = self.pure(p2.expr(), env)
                    self.want(t, "text", "format!")
                    return k("text", "(rs_format1 %s %s %s)" % (coq_text(pre), coq_text(post), a))
                raise Untranslatable("format! other than format!(\"..{}..\", x)")
            raise Untranslatable("macro %s!" % e[1])
        if kind == "not":
            t, a = self.pure(e[1], env)
            self.want(t, "bool", "!")
            return k("bool", "(negb %s)" % a)
        if kind == "bin":
            op = e[1]
            if op in ("&&", "||"):
                ta, a = self.pure(e[2], env)
                tb, b = self.pure(e[3], env)
                self.want(ta, "bool", op)
                self.want(tb, "bool", op)
                return k("bool", "(%s %s %s)" % (a, op, b))

            def second(ta, a):
                def done(tb, b):
                    if op in ("==", "!="):
                        if ta == "nat" and tb == "nat":
                            c = "(Nat.eqb %s %s)" % (a, b)
                        elif ta == "text" and tb == "text":
                            c = "(rs_eq %s %s)" % (a, b)
                        else:
                            raise Untranslatable("comparison of %s with %s" % (tyname(ta), tyname(tb)))
                        return k("bool", "(negb %s)" % c if op == "!=" else c)
                    self.want(ta, "nat", op)
                    self.want(tb, "nat", op)
                    if op == "+":
                        return k("nat", "(%s + %s)" % (a, b))
                    if op == "-":
                        n = self.tmp("n")
                        return "(match rs_usize_sub %s %s with Some %s => %s | None => %s end)" % (
                            a, b, n, k("nat", n), self.panic())
                    c = {"<=": "(Nat.leb %s %s)" % (a, b), "<": "(Nat.ltb %s %s)" % (a, b),
                         ">=": "(Nat.leb %s %s)" % (b, a), ">": "(Nat.ltb %s %s)" % (b, a)}[op]
                    return k("bool", c)
                return self.ex(e[3], env, done)
            return self.ex(e[2], env, second)
        if kind == "slice":
            def with_s(ts, s):
                self.want(ts, "text", "a slice")

                def with_a(ta, a):
                    def with_b(tb, b):
                        t = self.tmp("t")
                        if b is None:
                            op = "rs_slice_from %s %s" % (s, a)
                        else:
                            op = "rs_slice %s %s %s" % (s, a, b)
                        return "(match %s with Some %s => %s | None => %s end)" % (op, t, k("text", t), self.panic())
                    if e[3] is None:
                        return with_b(None, None)
                    return self.ex(e[3], env, lambda tb, b: with_b(self.want(tb, "nat", "a slice bound"), b))
                if e[2] is None:
                    return with_a("nat", "0")
                return self.ex(e[2], env, lambda ta, a: with_a(self.want(ta, "nat", "a slice bound"), a))
            return self.ex(e[1], env, with_s)
        if kind == "block":
            return self.value_block(e, env, k)
        if kind == "if":
            t, c = self.pure(e[1], env)
            self.want(t, "bool", "a condition")
            if e[3] is None:
                raise Untranslatable("if-expression without else")
            try:
                ta, a = self.pure(e[2], env)
                tb, b = self.pure(e[3], env)
                if ta == tb:
                    return k(ta, "(if %s then %s else %s)" % (c, a, b))
            except (Untranslatable, NeedFlow):
                pass
            return "(if %s\n then %s\n else %s)" % (c, self.value_block(e[2], env, k), self.value_block(e[3], env, k))
        if kind == "closure":
            raise Untranslatable("closure outside an iterator adaptor")
        if kind == "mcall":
            return self.mcall(e, env, k)
        raise Untranslatable("expression " + kind)

    def want(self, t, expected, what):
        if t != expected:
            raise Untranslatable("%s on / of a %s (expected %s)" % (what, tyname(t), expected))
        return t

    def value_block(self, blk, env, k):
        """a block used for its value: lets and a final expression"""
        stmts, final = blk[1], blk[2]
        if final is None:
            raise Untranslatable("block without a value in expression position")
        if not stmts:
            return self.ex(final, env, k)
        st = stmts[0]
        if st[0] == "assign":
            # straight-line code: an assignment to a `let mut` local re-binds the Coq variable
            if st[1] not in env or not env[st[1]][1]:
                raise Untranslatable("assignment to %s, which is not a `let mut` local" % st[1])

            def rebind(t, a):
                if t != env[st[1]][0]:
                    raise Untranslatable("assignment of a %s to a %s" % (tyname(t), tyname(env[st[1]][0])))
                return "(let v_%s := %s in\n %s)" % (st[1], a, self.value_block(("block", stmts[1:], final), env, k))
            return self.ex(st[2], env, rebind)
        if st[0] != "let":
            raise Untranslatable("statement %s inside a value block" % st[0])

        def bind(t, a):
            env2 = dict(env)
            env2[st[1]] = (t, st[2])
            return "(let v_%s := %s in\n %s)" % (st[1], a, self.value_block(("block", stmts[1:], final), env2, k))
        return self.ex(st[3], env, bind)

    def mcall(self, e, env, k):
        recv, name, args = e[1], e[2], e[3]

        def on(t, a):
            if name in IDENTITY_METHODS and not args and t in ("text", "asref"):
                return k("text", a)
            if t == "text":
                if not args and name in ("trim", "trim_start", "trim_end"):
                    return k("text", "(rs_%s %s)" % (name, a))
                if not args and name == "as_str":
                    return k("text", a)
                if not args and name == "is_empty":
                    return k("bool", "(rs_is_empty %s)" % a)
                if not args and name == "len":
                    return k("nat", "(rs_len %s)" % a)
                if name == "contains" and len(args) == 1 and args[0][0] == "str":
                    if args[0][1] == "":
                        raise Untranslatable("contains of the empty string")
                    return k("bool", "(rs_contains_str %s %s)" % (a, coq_text(args[0][1])))
                if name == "replace" and len(args) == 2 and args[0][0] == "str" and args[1][0] == "str":
                    if args[0][1] == "":
                        raise Untranslatable("str::replace of the empty string")
                    return k("text", "(rs_str_replace %s %s %s)" % (a, coq_text(args[0][1]), coq_text(args[1][1])))
                if name in ("starts_with", "ends_with") and len(args) == 1:
                    if args[0][0] == "chr":
                        return k("bool", "(rs_%s_char %s %s)" % (name, a, coq_char(args[0][1])))
                    if name == "starts_with":
                        tb, b = self.pure(args[0], env)
                        self.want(tb, "text", "starts_with")
                        return k("bool", "(rs_starts_with %s %s)" % (a, b))
            if t == "regex":
                if name == "find_iter" and len(args) == 1:
                    return self.ex(args[0], env, lambda th, h: k(("iter", "match"),
                                   "(rx_find_iter %s %s)" % (a, self.want(th, "text", "find_iter") and h)))
                if name == "is_match" and len(args) == 1:
                    return self.ex(args[0], env, lambda th, h: k("bool",
                                   "(rx_is_match %s %s)" % (a, self.want(th, "text", "is_match") and h)))
                if name in ("replace_all", "replace") and len(args) == 2:
                    tpl = self.template(args[1])
                    return self.ex(args[0], env, lambda th, h: k("text",
                                   "(rx_%s %s %s %s)" % (name, a, self.want(th, "text", name) and h, tpl)))
                if name == "replacen" and len(args) == 3 and args[1][0] == "int":
                    tpl = self.template(args[2])
                    return self.ex(args[0], env, lambda th, h: k("text",
                                   "(rx_replacen %s %s %d %s)" % (a, self.want(th, "text", name) and h, args[1][1], tpl)))
            if t == "match" and name == "as_str" and not args:
                return k("text", "(rx_as_str %s)" % a)
            if isinstance(t, tuple) and t[0] == "iter" and name == "map" and len(args) == 1 and args[0][0] == "closure":
                ps, body = args[0][1], args[0][2]
                if len(ps) != 1:
                    raise Untranslatable("closure with %d parameters in map" % len(ps))
                env2 = dict(env)
                env2[ps[0]] = (t[1], False)
                tb, b = self.pure(body, env2)
                return k(("iter", tb), "(rs_iter_map (fun v_%s => %s) %s)" % (ps[0], b, a))
            if isinstance(t, tuple) and t[0] == "vec" and name == "is_empty" and not args:
                return k("bool", "(rs_vec_is_empty %s)" % a)
            raise Untranslatable("method .%s with %d argument(s) on a %s" % (name, len(args), tyname(t)))
        return self.ex(recv, env, on)

    # -- statements (flow mode): a term of type flow S R
    def assigned(self, blk):
        """the variables a block mutates (through .push)"""
        out = []

        def walk(x):
            if isinstance(x, tuple):
                if x and x[0] == "mcall" and x[2] == "push" and x[1][0] == "var" and x[1][1] not in out:
                    out.append(x[1][1])
                for y in x:
                    walk(y)
            elif isinstance(x, list):
                for y in x:
                    walk(y)
        walk(blk)
        return out

    def has_control(self, x):
        if isinstance(x, tuple):
            if x and x[0] in ("ret", "for"):
                return True
            if x and x[0] == "mcall" and x[2] == "push":
                return True
            return any(self.has_control(y) for y in x)
        if isinstance(x, list):
            return any(self.has_control(y) for y in x)
        return False

    def seq(self, stmts, final, env, kend, ret):
        """kend(env) -> the term when control reaches the end of the block without a value;
           a final expression is the value of the block: kval"""
        if not stmts:
            if final is None:
                return kend(env)
            return self.stmt_expr(final, env, kend, ret, True)
        st, rest = stmts[0], stmts[1:]
        nxt = lambda en: self.seq(rest, final, en, kend, ret)    # noqa: E731
        if st[0] == "let":
            def bind(t, a):
                env2 = dict(env)
                env2[st[1]] = (t, st[2])
                return "(let v_%s := %s in\n %s)" % (st[1], a, nxt(env2))
            return self.ex(st[3], env, bind)
        if st[0] == "ret":
            if rest or final is not None:
                raise Untranslatable("code after return")
            return self.ret(st[1], env, ret)
        if st[0] == "for":
            x, it, body = st[1], st[2], st[3]
            carried = self.assigned(body)
            for v in carried:
                if v not in env or not env[v][1]:
                    raise Untranslatable("mutation of %s, which is not a `let mut` local" % v)
            if len(carried) != 1:
                raise Untranslatable("a loop that mutates %d locals" % len(carried))
            cv = "v_" + carried[0]

            def with_iter(t, a):
                if not (isinstance(t, tuple) and t[0] in ("iter", "vec")):
                    raise Untranslatable("for over a " + tyname(t))
                env2 = dict(env)
                env2[x] = (t[1], False)
                if body[2] is not None and not self.is_unit_expr(body[2]):
                    raise Untranslatable("loop body with a value")
                self.depth += 1
                b = self.seq(body[1], body[2], env2, lambda en: "(LNext %s)" % cv, ret)
                self.depth -= 1
                holder = {}

                def after(en):
                    return nxt(en)
                # the element type of the carried vector may have been refined by a push in the body
                env3 = dict(env)
                env3[carried[0]] = (self.refined.get(carried[0], env[carried[0]][0]), True)
                # (without the annotation Coq 8.16's unifier overflows its stack on the `if` of a Done branch)
                ann = " return flow unit (%s)" % coq_type(ret) if self.depth == 0 else ""
                return ("(match rs_for (fun v_%s %s =>\n %s)\n %s %s%s with\n | Done %s => %s\n | Returned ret_ => LReturn ret_"
                        "\n | Panicked => LPanic end)") % (x, cv, b, a, cv, ann, cv, after(env3))
            self.refined = getattr(self, "refined", {})
            return self.ex(it, env, with_iter)
        if st[0] == "expr":
            return self.stmt_expr(st[1], env, nxt, ret, False)
        raise Untranslatable("statement " + st[0])

    def is_unit_expr(self, e):
        return (e[0] == "mcall" and e[2] == "push") or e[0] == "if" and e[3] is None

    def ret(self, e, env, ret):
        if e is None:
            raise Untranslatable("return without a value")
        return self.ex(e, env, lambda t, a: "(LReturn %s)" % self.coerce(t, a, ret))

    def coerce(self, t, a, ret):
        if not compatible(t, ret):
            raise Untranslatable("value of type %s where %s is expected" % (tyname(t), tyname(ret)))
        return a

    def stmt_expr(self, e, env, nxt, ret, is_final):
        """an expression in statement position (is_final: it is the last thing of its block)"""
        if e[0] == "mcall" and e[2] == "push" and e[1][0] == "var" and len(e[3]) == 1:
            v = e[1][1]
            if v not in env or not env[v][1]:
                raise Untranslatable("push on %s, which is not a `let mut` local" % v)
            tv = env[v][0]
            if not (isinstance(tv, tuple) and tv[0] == "vec"):
                raise Untranslatable("push on a " + tyname(tv))

            def pushed(t, a):
                if tv[1] is not None and tv[1] != t:
                    raise Untranslatable("push of a %s on a %s" % (tyname(t), tyname(tv)))
                env2 = dict(env)
                env2[v] = (("vec", t), True)
                self.refined = getattr(self, "refined", {})
                self.refined[v] = ("vec", t)
                return "(let v_%s := rs_push v_%s %s in\n %s)" % (v, v, a, nxt(env2))
            return self.ex(e[3][0], env, pushed)
        if e[0] == "if" and (e[3] is None or not is_final or self.has_control(e)):
            t, c = self.pure(e[1], env)
            self.want(t, "bool", "a condition")
            th, el = e[2], e[3]
            th_exits = always_exits(th)
            el_exits = el is not None and always_exits(el)
            if is_final and el is not None:
                # the value of the function / block
                return "(if %s\n then %s\n else %s)" % (c, self.seq(th[1], th[2], env, nxt, ret),
                                                        self.seq(el[1], el[2], env, nxt, ret))
            if el is None and th_exits:
                return "(if %s\n then %s\n else %s)" % (c, self.seq(th[1], th[2], env, nxt, ret), nxt(env))
            if el is not None and th_exits and el_exits:
                return "(if %s\n then %s\n else %s)" % (c, self.seq(th[1], th[2], env, nxt, ret),
                                                        self.seq(el[1], el[2], env, nxt, ret))
            if self.assigned(th) or (el is not None and self.assigned(el)):
                raise Untranslatable("an `if` statement whose branches mutate a local and fall through")
            if th_exits is False and (el is None or el_exits is False) and not self.has_control(e):
                raise Untranslatable("an `if` statement without effect")
            raise Untranslatable("an `if` statement of which only one branch leaves the function, with an else")
        if is_final:
            # the value of the enclosing function
            return self.ex(e, env, lambda t, a: "(LReturn %s)" % self.coerce(t, a, ret))
        raise Untranslatable("expression statement without effect")


def always_exits(blk):
    stmts, final = blk[1], blk[2]
    if final is not None:
        return final[0] == "if" and final[3] is not None and always_exits(final[2]) and always_exits(final[3])
    if not stmts:
        return False
    last = stmts[-1]
    if last[0] == "ret":
        return True
    if last[0] == "expr" and last[1][0] == "if" and last[1][3] is not None:
        return always_exits(last[1][2]) and always_exits(last[1][3])
    return False


def compatible(t, ret):
    if t == ret:
        return True
    if isinstance(t, tuple) and isinstance(ret, tuple) and t[0] == ret[0]:
        return t[1] is None or compatible(t[1], ret[1])
    return False


def rust_type(ty, generics):
    ty = ty.replace("'_", "")
    if re.fullmatch(r"&(?:'\w+)?str|&?String|Cow<(?:'\w+,)?str>", ty):
        return "text"
    if ty in generics and generics[ty] == "AsRef<str>":
        return "asref"
    if ty == "bool":
        return "bool"
    if ty == "usize":
        return "nat"
    m = re.fullmatch(r"Option<(.+)>", ty)
    if m:
        return ("opt", rust_type(m.group(1), generics))
    m = re.fullmatch(r"Vec<(.+)>", ty)
    if m:
        return ("vec", rust_type(m.group(1), generics))
    raise Untranslatable("type " + ty)


def coq_type(t):
    if t in ("text", "asref"):
        return "text"
    if t == "bool":
        return "bool"
    if t == "nat":
        return "nat"
    if t[0] == "opt":
        return "option (%s)" % coq_type(t[1])
    if t[0] == "vec":
        return "list (%s)" % coq_type(t[1])
    raise Untranslatable("type " + tyname(t))


def simp_ty(s):
    return re.sub(r"\((\w+)\)", r"\1", s)


def translate_fn(items, name, statics, want_ty, translated=()):
    """want_ty: the Coq type the obligations expect (without the parameters for untranslated callees)"""
    if name not in items.fns:
        raise Untranslatable("fn %s not found" % name)
    generics, params, ret, body = items.fns[name]
    env = {}
    binders = []
    for p, ty in params:
        if p is None:
            raise Untranslatable("parameter pattern " + ty)
        t = rust_type(ty, generics)
        env[p] = (t, False)
        binders.append("(v_%s : %s)" % (p, coq_type(t)))
    rt = rust_type(ret, generics)
    # the other functions of the file, callable as parameters `f_<name>` of the translation
    externs = {}
    for other, (g2, ps2, ret2, _) in items.fns.items():
        if other == name or other in translated:
            continue
        try:
            externs[other] = ([rust_type(ty, g2) for _, ty in ps2], rust_type(ret2, g2))
        except Untranslatable:
            pass
    p = RP(body)
    blk = p.block()
    if p.peek()[0] != "eof":
        raise Untranslatable("trailing tokens after the body")
    em = Emit(statics, False, externs)
    term, cty = None, None
    if not em.has_control(blk):
        try:
            def fin(t, a):
                return em.coerce(t, a, rt)
            term = em.value_block(blk, env, fin)
            cty = simp_ty(coq_type(rt))
        except NeedFlow:
            term = None
    if term is None:
        em = Emit(statics, True, externs)
        term = "rs_fn\n (%s)" % em.seq(blk[1], blk[2], env, lambda en: "(LNext tt)", rt)
        cty = "option (%s)" % simp_ty(coq_type(rt))
    if cty != want_ty:
        raise Untranslatable("translation of type %s, the obligations expect %s" % (cty, want_ty))
    fbinders = []
    for f in em.used_externs:
        ptys, rty = externs[f]
        fbinders.append("(f_%s : %s)" % (f, " -> ".join([simp_ty(coq_type(t)) for t in ptys] + [simp_ty(coq_type(rty))])))
    return "Definition gen_%s %s : %s :=\n %s.\n" % (name, " ".join(fbinders + binders), cty, term), em.used_externs


def comment_safe(s):
    return s.replace("*)", "* )").replace("(*", "( *").replace('"', "'")


def gen_file(out, rel, static_names, funcs, prefix=""):
    """the statics and functions of one source file; returns ok"""
    ok = True
    src = pins.read(rel)
    items = None
    try:
        if not src:
            raise Untranslatable("cannot read " + rel)
        items = Items(src)
    except Exception as ex:   # noqa
        ok = False
        out.append("(* %s could not be read: %s *)" % (rel, comment_safe(str(ex))))
    statics = {}
    for name in static_names:
        cname = "gen_" + name.lower()
        try:
            if items is None:
                raise Untranslatable("no items")
            lit = static_regex(items, name)
            term = regex_to_coq(lit)
            out.append("(* %s = %s *)" % (name, comment_safe(lit)))
            out.append("Definition %s : regex :=\n %s.\n" % (cname, term))
        except Exception as ex:   # noqa
            ok = False
            out.append("(* translation of %s failed: %s *)" % (name, comment_safe(str(ex))))
            out.append("Definition %s : regex := REps.\n" % cname)
        statics[name] = cname
    for name, ty, dummy, want_ext in funcs:
        try:
            if items is None:
                raise Untranslatable("no items")
            txt, used = translate_fn(items, name, statics, ty)
            if list(used) != list(want_ext):
                raise Untranslatable("calls the untranslated functions %s, the obligations expect %s" % (used, list(want_ext)))
            out.append(txt)
        except Exception as ex:   # noqa
            ok = False
            out.append("(* translation of %s failed: %s *)" % (name, comment_safe(str(ex))))
            out.append("Definition gen_%s %s : %s := %s.\n" % (name, dummy[0], ty, dummy[1]))
    return ok


def generate():
    out = ["(* GENERATED on every run by tools/rs2coq.py (part 14: tools/rs2coq_regex.py) from /repo/src/util.rs",
           "   (the statics ESC_A, ESC_C, ESC_E; escape_assertion, escape_eval, parse_csv_line) and, as a stretch, from",
           "   /repo/src/model/function_map.rs (MAT_B, MAT_P; key_match2, key_match3 up to the call of regex_match, which",
           "   compiles its argument at run time and is a PARAMETER f_regex_match of the translation) - do not edit.",
           "   Regex literals are parsed into Gen/Regex.v's AST; `option` around a result type: None = a panic. *)",
           "From CV Require Import Model.Base Gen.RustStr Gen.RustVec Gen.RustIter Gen.Regex Gen.RegexRt.", ""]
    ok = gen_file(out, UTIL, STATICS, FUNCS)
    out.append("Definition gen_regex_translated : bool := %s.\n" % ("true" if ok else "false"))
    out.append("(* ---- stretch: src/model/function_map.rs ---- *)")
    ok2 = gen_file(out, FMAP, FM_STATICS, FM_FUNCS)
    out.append("Definition gen_regex_fm_translated : bool := %s." % ("true" if ok2 else "false"))
    return "\n".join(out) + "\n", ok


def main(dst_dir):
    dst = os.path.join(dst_dir, "RegexGen.v")
    txt, ok = generate()
    old = open(dst, encoding="utf-8").read() if os.path.exists(dst) else None
    if old != txt:
        open(dst, "w", encoding="utf-8").write(txt)
        print("rs2coq_regex: rewritten", dst, "(translated)" if ok else "(UNTRANSLATABLE)")
    else:
        print("rs2coq_regex: unchanged", dst)
    return ok


if __name__ == "__main__":
    main(sys.argv[1] if len(sys.argv) > 1 else "/verif/coq/Gen")
