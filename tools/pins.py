#!/usr/bin/env python3
"""Source pins: a deliberately tiny translator.

Re-reads, on every run, the parts of /repo's source whose *text* determines
behaviour (literals, constants, small structural inventories) and writes them
as Gallina definitions to coq/Pins.v.  coq/PinChecks/*.v prove, by
reflexivity, that each pinned value equals the value the hand-written model
uses; a changed literal makes that file fail to compile.

Pins are additional evidence only: no theorem is proved "because a pin
matched".  A pin that cannot be located in the source is emitted as a
distinguished value (`pin_missing`) so the check file fails rather than the
generator crashing.
"""
import os
import re
import sys

REPO = os.environ.get("VERIF_REPO", "/repo")


def read(rel):
    try:
        with open(os.path.join(REPO, rel), encoding="utf-8") as f:
            return f.read()
    except OSError:
        return ""


def coq_str(s):
    return '"' + s.replace('"', '""') + '"'


def T(s):
    return "(T %s)" % coq_str(s)


def tlist(xs):
    return "[" + "; ".join(T(x) for x in xs) + "]"


def rust_unescape(lit):
    # ordinary (non-raw) Rust string literal body
    out = []
    i = 0
    while i < len(lit):
        c = lit[i]
        if c == "\\" and i + 1 < len(lit):
            n = lit[i + 1]
            m = {"n": "\n", "t": "\t", "r": "\r", "\\": "\\", '"': '"', "'": "'", "0": "\0"}
            if n in m:
                out.append(m[n])
                i += 2
                continue
            if n == "\n":  # line continuation
                i += 2
                while i < len(lit) and lit[i] in " \t\n":
                    i += 1
                continue
        out.append(c)
        i += 1
    return "".join(out)


STR = r'"((?:[^"\\]|\\.)*)"'
RAWSTR = r'r(#*)"(.*?)"\1'


def fn_body(src, header_re, start=0):
    """text of the brace-balanced body of the first *definition* (signature
    followed by `{` before any `;`) matching header_re"""
    for m in re.finditer(header_re, src[start:]):
        k = start + m.end()
        semi = src.find(";", k)
        i = src.find("{", k)
        if i < 0:
            return None
        if 0 <= semi < i:
            continue  # a declaration without body
        return balanced(src, i)
    return None


def balanced(src, i):
    depth = 0
    j = i
    in_str = False
    while j < len(src):
        c = src[j]
        if in_str:
            if c == "\\":
                j += 1
            elif c == '"':
                in_str = False
        else:
            if c == "'" and src[j + 1 : j + 3] == "\"'":
                j += 2
            elif c == '"':
                in_str = True
            elif c == "{":
                depth += 1
            elif c == "}":
                depth -= 1
                if depth == 0:
                    return src[i : j + 1]
        j += 1
    return None


def regex_literals(src, name):
    """regex!(r"...") or Regex::new(r"...") bound to static NAME"""
    m = re.search(r"static\s+" + name + r"\b.*?(?:regex!|Regex::new)\(\s*" + RAWSTR, src, re.S)
    if m:
        return m.group(2)
    return None


def pins_effector(out):
    src = read("src/effector.rs")
    body = fn_body(src, r"fn\s+new_stream\s*\(") or ""
    m = re.search(r"match\s+expr\s*\{(.*?)\n\s*\};", body, re.S)
    arms_false, arms_true, other = [], [], []
    if m:
        for arm in re.finditer(r"((?:\s*\|?\s*" + STR + r")+)\s*=>\s*(\w+)", m.group(1)):
            lits = [rust_unescape(x) for x in re.findall(STR, arm.group(1))]
            (arms_false if arm.group(3) == "false" else arms_true if arm.group(3) == "true" else other).extend(lits)
    out.append("Definition pin_eff_init_false : list text := %s." % tlist(arms_false))
    out.append("Definition pin_eff_init_true : list text := %s." % tlist(arms_true))
    out.append("Definition pin_eff_init_other : list text := %s." % tlist(other))
    # (no body hashes for effector.rs: translated every run, PinChecks/PcEffectorGen.v)
    pbody = fn_body(src, r"fn\s+push_effect\s*\(") or ""
    cmp_lits = [rust_unescape(x) for x in re.findall(r"self\.expr\s*==\s*" + STR, pbody)]
    out.append("Definition pin_eff_push_exprs : list text := %s." % tlist(cmp_lits))
    out.append("Definition pin_eff_cap_assert : bool := %s." % ("true" if re.search(r"assert!\(\s*cap\s*>\s*0\s*\)", body) else "false"))
    out.append("Definition pin_eff_next_assert : bool := %s." % ("true" if re.search(r"assert!\(\s*self\.done\s*\)", fn_body(src, r"fn\s+next\s*\(") or "") else "false"))


def strip_rust_comments(src):
    out = []
    i = 0
    in_str = False
    while i < len(src):
        c = src[i]
        if in_str:
            out.append(c)
            if c == "\\" and i + 1 < len(src):
                out.append(src[i + 1])
                i += 1
            elif c == '"':
                in_str = False
        elif c == '"':
            in_str = True
            out.append(c)
        elif src.startswith("//", i):
            j = src.find("\n", i)
            i = len(src) if j < 0 else j
            continue
        elif src.startswith("/*", i):
            j = src.find("*/", i + 2)
            i = len(src) if j < 0 else j + 2
            continue
        else:
            out.append(c)
        i += 1
    return "".join(out)


def body_hash(rel, header_re, start_re=None):
    """sha256 (16 hex digits) of the comment-free, whitespace-collapsed body of a function"""
    import hashlib
    src = read(rel)
    start = 0
    if start_re:
        m = re.search(start_re, src)
        if not m:
            return "missing"
        start = m.start()
    b = fn_body(src, header_re, start)
    if b is None:
        return "missing"
    norm = re.sub(r"\s+", " ", strip_rust_comments(b)).strip()
    return hashlib.sha256(norm.encode("utf-8")).hexdigest()[:16]


def pin_bodies(out, prefix, items):
    """items: (name, file, header regex[, start regex])"""
    for it in items:
        name, rel, hdr = it[0], it[1], it[2]
        st = it[3] if len(it) > 3 else None
        out.append("Definition pin_body_%s_%s : text := %s." % (prefix, name, T(body_hash(rel, hdr, st))))


def pins_rolegraph(out):
    src = read("src/rbac/default_role_manager.rs")
    m = re.search(r'const\s+DEFAULT_DOMAIN\s*:\s*&str\s*=\s*' + STR + r"\s*;", src)
    out.append("Definition pin_default_domain : text := %s." % (T(rust_unescape(m.group(1))) if m else "pin_missing"))
    enf = read("src/enforcer.rs")
    body = fn_body(enf, r"async\s+fn\s+new_raw\s*<") or ""
    m = re.search(r"DefaultRoleManager::new\(\s*(\d+)\s*\)", body)
    out.append("Definition pin_hierarchy_limit : nat := %s." % (m.group(1) if m else "0"))
    # (the statements under #[cfg(feature = "cached")] - the has_link cache - are translated by part 23, tools/rs2coq_rmcache.py,
    #  and proved against Model/RmCache.v in PinChecks/PcRmCacheGen.v)
    # the bodies of default_role_manager.rs are no longer hash-pinned: rs2coq part 11 (tools/rs2coq_rm.py) translates every
    # non-test fn of the file each run and PinChecks/PcRoleManagerGen.v proves the translation equal to Model/RoleGraphM.v


def impl_start(tr, ty):
    return r"impl(?:<[^>]*>)?\s+" + tr + r"\s+for\s+" + ty


def fnre(name, asyn=False):
    return (r"async\s+" if asyn else r"") + r"fn\s+" + name + r"\b"


# table-driven body pins: set -> [(name, file, header regex[, start regex])]
ENF = "src/enforcer.rs"
DM = "src/model/default_model.rs"
IA = "src/internal_api.rs"
MA = "src/adapter/memory_adapter.rs"
FA = "src/adapter/file_adapter.rs"
SA = "src/adapter/string_adapter.rs"
CE = "src/cached_enforcer.rs"
BODYSETS = {
    # (private_enforce / private_enforce_with_context, the role-link builders of assertion.rs / default_model.rs and
    #  DefaultModel::clear_policy are TRANSLATED and proved equal to the model: PcEnforceGen.v, PcLinksGen.v)
    "enf": [
        # nothing of enforcer.rs is hash-pinned any more: parts 7 (sequencing methods), 10 (the two enforcement loops) and 15
        # (register_g_functions, new_raw / new, the enforce wrappers, build_incremental_role_links, on / off / emit) translate it
    ],
    "model": [
        # add_def, load_section, load_assertion, get_key_suffix, from_str, to_text: TRANSLATED (tools/rs2coq_ini.py, PcIniGen.v)
        # add_policy, add_policies, get_policy, get_filtered_policy, has_policy, get_values_for_field_in_policy, remove_policy,
        # remove_policies, remove_filtered_policy (and get_model / get_mut_model): TRANSLATED as whole functions on the model map
        # (tools/rs2coq_model2.py = part 18 on top of the loops of parts 3 / 8; PinChecks/PcModel2Gen.v): no body of
        # default_model.rs is hash-pinned any more
    ],
    "internal": [
    ],
    "adapters": [
        # nothing of the three bundled adapters is hash-pinned any more: part 9 (tools/rs2coq_adapters.py: memory adapter, line
        # handlers, string loaders) and part 17 (tools/rs2coq_fsave.py: the file protocol of save / clear, file reading, the text
        # rendering, the incremental stubs, is_filtered) translate them
    ],
    "util": [
        # config.rs (parse_buffer, add_config, get, get_str, from_str) is TRANSLATED (tools/rs2coq_ini.py, PinChecks/PcIniGen.v)
        # escape_assertion, escape_eval, parse_csv_line (and the regex literals they use) are TRANSLATED through the regex
        # semantics of Gen/Regex.v (tools/rs2coq_regex.py, PinChecks/PcRegexGen.v), not hash-pinned
    ],
    "fmap": [
        # key_match / key_get: part 2 (PcStrFnGen.v); regex_match, key_match2..5, key_get2/3 with their run-time Regex::new: part 16
        # (tools/rs2coq_fmap.py, Gen/RegexSyntax.v, PinChecks/PcFmapGen.v)
    ],
}


TRANSLATED_BODIES = {
    "src/enforcer.rs": ["load_policy", "load_filtered_policy", "save_policy", "clear_policy", "build_role_links", "set_role_manager",
                        "set_model", "set_adapter", "enable_enforce", "enable_auto_save", "enable_auto_build_role_links",
                        "enable_auto_notify_watcher", "add_function", "set_effector", "is_filtered", "private_enforce",
                        "private_enforce_with_context", "register_g_functions", "new_raw", "new", "enforce", "enforce_mut",
                        "enforce_with_context", "build_incremental_role_links", "on", "off", "emit", "register_function"],
    "src/model/default_model.rs": ["from_str", "load_section", "load_assertion", "get_key_suffix", "add_def", "to_text", "add_policy",
                                   "add_policies", "get_policy", "get_filtered_policy", "has_policy", "get_values_for_field_in_policy",
                                   "remove_policy", "remove_policies", "remove_filtered_policy", "build_role_links",
                                   "build_incremental_role_links", "clear_policy"],
    "src/adapter/file_adapter.rs": ["load_policy_file", "load_filtered_policy_file", "save_policy_file", "load_policy", "load_filtered_policy",
                                    "save_policy", "clear_policy", "add_policy", "add_policies", "remove_policy", "remove_policies",
                                    "remove_filtered_policy", "is_filtered", "load_policy_line", "load_filtered_policy_line"],
    "src/adapter/string_adapter.rs": ["load_policy", "load_filtered_policy", "save_policy", "clear_policy", "add_policy", "add_policies",
                                      "remove_policy", "remove_policies", "remove_filtered_policy", "is_filtered", "load_policy_line"],
    "src/config.rs": ["from_str", "parse_buffer", "add_config", "get", "get_str"],
    "src/model/function_map.rs": ["key_match", "key_get", "key_match2", "key_get2", "key_match3", "key_get3", "key_match4", "key_match5",
                                  "regex_match", "default", "add_function", "get_functions"],
    "src/model/assertion.rs": ["build_role_links", "build_incremental_role_links", "default", "get_policy", "get_mut_policy"],
    "src/internal_api.rs": ["add_policy_internal", "add_policies_internal", "remove_policy_internal", "remove_policies_internal",
                            "remove_filtered_policy_internal"],
    "src/emitter.rs": ["notify_logger_and_watcher", "clear_cache"],     # rs2coq part 15
    "src/management_api.rs": ["add_policy", "add_policies", "remove_policy", "remove_policies", "add_named_policy", "add_named_policies",
                              "remove_named_policy", "remove_named_policies", "add_grouping_policy", "add_grouping_policies",
                              "remove_grouping_policy", "remove_grouping_policies", "add_named_grouping_policy", "add_named_grouping_policies",
                              "remove_named_grouping_policy", "remove_named_grouping_policies", "remove_filtered_policy",
                              "remove_filtered_grouping_policy", "remove_filtered_named_policy", "remove_filtered_named_grouping_policy",
                              # read side: rs2coq part 13 (tools/rs2coq_query.py, PinChecks/PcQueryGen.v)
                              "get_named_policy", "get_all_policy", "get_filtered_named_policy", "has_named_policy", "get_named_grouping_policy",
                              "get_all_grouping_policy", "get_filtered_named_grouping_policy", "has_grouping_named_policy", "get_all_named_subjects",
                              "get_all_named_objects", "get_all_named_actions", "get_all_named_roles", "get_policy", "get_filtered_policy",
                              "has_policy", "get_grouping_policy", "get_filtered_grouping_policy", "has_grouping_policy", "get_all_subjects",
                              "get_all_objects", "get_all_actions", "get_all_roles"],
    "src/rbac_api.rs": ["add_permission_for_user", "add_permissions_for_user", "add_role_for_user", "add_roles_for_user", "delete_role_for_user",
                        "delete_roles_for_user", "delete_user", "delete_role", "delete_permission", "delete_permission_for_user",
                        "delete_permissions_for_user",
                        "get_roles_for_user", "get_users_for_role", "has_role_for_user", "get_permissions_for_user", "has_permission_for_user",
                        "get_implicit_roles_for_user", "get_implicit_permissions_for_user", "get_implicit_users_for_permission"],
    "src/cached_enforcer.rs": ["set_role_manager", "set_model", "set_adapter", "build_role_links", "load_policy", "load_filtered_policy",
                               "clear_policy", "add_function", "set_effector", "enable_enforce", "save_policy", "enable_auto_save",
                               "enable_auto_build_role_links", "enable_auto_notify_watcher", "private_enforce", "private_enforce_with_context",
                               "enforce", "enforce_mut", "enforce_with_context"],
}


def pins_bodysets(out):
    for setname, items in BODYSETS.items():
        pin_bodies(out, setname, items)
    # whole-file pins for the small files every decision goes through
    import hashlib
    # (src/macros.rs, src/convert.rs and src/cache/default_cache.rs are no longer pinned as text: part 18, tools/rs2coq_model2.py,
    #  translates every macro / impl / method of them each run - PinChecks/PcModel2Gen.v -; it also translates the enums of
    #  src/error.rs, whose pin stays because the Display texts of the variants are not part of that translation)
    for name, rel in [("fmgmtapi", "src/management_api.rs"),
                      ("frbacapi", "src/rbac_api.rs"), ("femitter", "src/emitter.rs"),
                      ("fcachedenforcer", "src/cached_enforcer.rs"),
                      # small files a property is anchored in that no other pin covers
                      ("frolemanager", "src/rbac/role_manager.rs"), ("ferror", "src/error.rs"), ("fadaptermod", "src/adapter/mod.rs"),
                      ("fwatcher", "src/watcher.rs"), ("ffrontend", "src/frontend.rs"),
                      # files whose FUNCTIONS are translated one by one: everything the translators do not read (small
                      # accessors, set_watcher, constructors, file-opening glue, struct and impl headers) stays pinned as text,
                      # with the translated bodies cut out (TRANSLATED_BODIES)
                      ("fenforcer", "src/enforcer.rs"), ("fdefaultmodel", "src/model/default_model.rs"),
                      ("ffileadapter", "src/adapter/file_adapter.rs"), ("fstringadapter", "src/adapter/string_adapter.rs"),
                      ("fconfig", "src/config.rs"), ("ffunctionmap", "src/model/function_map.rs"),
                      ("fassertion", "src/model/assertion.rs"), ("finternalapi", "src/internal_api.rs")]:
        src = read(rel)
        # the test modules at the end of these files are not part of the pinned behaviour
        cut = src.find("#[cfg(test)]")
        if cut >= 0:
            src = src[:cut]
        # bodies that tools/rs2coq*.py TRANSLATE and prove equal to the model are tied semantically
        # (PcApiGen.v, PcCachedGen.v): they are left out of the textual pin, so a meaning-preserving
        # rewrite of them raises no alarm while everything else in the file stays pinned
        for fname in TRANSLATED_BODIES.get(rel, []):
            pos = 0
            while True:
                m = re.search(r"fn\s+" + fname + r"\s*(?:<[^>]*>)?\s*\(", src[pos:])
                if not m:
                    break
                k = pos + m.end()
                semi = src.find(";", k)
                i = src.find("{", k)
                if i < 0 or (0 <= semi < i):
                    pos = k
                    continue
                body = balanced(src, i)
                if body is None:
                    break
                src = src[:i] + "{/*translated*/}" + src[i + len(body):]
                pos = i + 5
        norm = re.sub(r"\s+", " ", strip_rust_comments(src)).strip()
        h = hashlib.sha256(norm.encode("utf-8")).hexdigest()[:16] if src else "missing"
        out.append("Definition pin_body_%s_all : text := %s." % (name, T(h)))


def pins_literals(out):
    util = read("src/util.rs")
    for n in ["ESC_A", "ESC_C", "ESC_E"]:
        v = regex_literals(util, n)
        out.append("Definition pin_re_%s : text := %s." % (n, T(v) if v is not None else "pin_missing"))
    fm = read("src/model/function_map.rs")
    for n in ["MAT_B", "MAT_P"]:
        v = regex_literals(fm, n)
        out.append("Definition pin_re_%s : text := %s." % (n, T(v) if v is not None else "pin_missing"))
    enf = read("src/enforcer.rs")
    body = fn_body(enf, fnre("private_enforce")) or ""
    lits = [rust_unescape(x) for x in re.findall(STR, body)]
    out.append("Definition pin_enforce_literals : list text := %s." % tlist(lits))
    body2 = fn_body(enf, fnre("private_enforce_with_context")) or ""
    lits2 = [rust_unescape(x) for x in re.findall(STR, body2)]
    out.append("Definition pin_enforce_ctx_literals : list text := %s." % tlist(lits2))
    ce = read("src/cached_enforcer.rs")
    m = re.search(r"DefaultCache::new\((\d+)\)", ce)
    out.append("Definition pin_cache_capacity : nat := %s." % (m.group(1) if m else "0"))
    # inventory: which CoreApi methods of CachedEnforcer touch the cache
    start = re.search(impl_start("CoreApi", "CachedEnforcer"), ce)
    inv = []
    if start:
        blk = balanced(ce, ce.find("{", start.end()))
        for mm in re.finditer(r"(?:async\s+)?fn\s+(\w+)\s*(?:<[^>]*>)?\s*\(", blk or ""):
            b = fn_body(blk, r"fn\s+" + mm.group(1) + r"\s*(?:<[^>]*>)?\s*\(")
            if b is not None:
                inv.append((mm.group(1), "cache.clear()" in b or "private_enforce" in b))
    out.append("Definition pin_cached_inventory : list (text * bool) := [%s]." %
               "; ".join("(%s, %s)" % (T(n), "true" if c else "false") for n, c in inv))


def pins_locks(out):
    """inventory of every lock acquisition on a role-manager / enforcer handle outside test modules:
    (file, n_sites) and the number of guards BOUND to a variable (held across statements)"""
    files = ["src/enforcer.rs", "src/macros.rs", "src/rbac_api.rs", "src/model/assertion.rs", "src/model/default_model.rs",
             "src/internal_api.rs", "src/management_api.rs", "src/cached_enforcer.rs", "src/rbac/default_role_manager.rs"]
    inv = []
    bound = 0
    for rel in files:
        src = read(rel)
        cut = src.find("#[cfg(test)]")
        if cut >= 0:
            src = src[:cut]
        src = strip_rust_comments(src)
        n = len(re.findall(r"\.(?:read|write)\(\)", src))
        inv.append((rel, n))
        # a guard bound by let (held until the end of the block)
        bound += len(re.findall(r"let\s+(?:mut\s+)?\w+\s*(?::[^=;]*)?=\s*[^;]*\.(?:read|write)\(\)\s*;", src))
    out.append("Definition pin_lock_sites : list (text * nat) := [%s]." % "; ".join("(%s, %d)" % (T(r), n) for r, n in inv))
    out.append("Definition pin_lock_guards_bound : nat := %d." % bound)


SECTIONS = [pins_effector, pins_rolegraph, pins_bodysets, pins_literals, pins_locks]


def generate():
    out = [
        "(* GENERATED by tools/pins.py from %s on every check run. Do not edit. *)" % REPO,
        "From CV Require Import Model.Base.",
        "Definition pin_missing : text := T \"<pin not found in source>\".",
        "",
    ]
    for f in SECTIONS:
        out.append("(* ---- %s ---- *)" % f.__name__)
        try:
            f(out)
        except Exception as e:  # a crashed extractor must fail the pin check, not the run
            out.append("(* extractor crashed: %s *)" % str(e).replace("*)", "* )"))
            out.append("Definition pin_crashed_%s : bool := false." % f.__name__)
        out.append("")
    return "\n".join(out) + "\n"


def freeze(txt):
    """tools/pins.py --freeze: record the current body hashes as the expected
    ones (coq/PinChecks/Frozen.v, committed). Run deliberately after a reviewed
    change to /repo, never by a check."""
    out = ["(* Frozen body hashes of the modelled functions: written by `tools/pins.py --freeze`",
           "   after the model was last aligned with /repo. Committed; checks never rewrite it. *)",
           "From CV Require Import Model.Base.", ""]
    for m in re.finditer(r"Definition pin_body_(\w+) : text := (\(T \"[^\"]*\"\))\.", txt):
        out.append("Definition frozen_%s : text := %s." % (m.group(1), m.group(2)))
    pcdir = os.path.join(os.path.dirname(os.path.dirname(os.path.abspath(__file__))), "coq", "PinChecks")
    with open(os.path.join(pcdir, "Frozen.v"), "w") as f:
        f.write("\n".join(out) + "\n")
    print("frozen", len(out) - 4, "body hashes")
    # one obligation file per body set: PinChecks/PcBody_<set>.v
    names = re.findall(r"Definition pin_body_(\w+) : text", txt)
    sets = {}
    for n in names:
        sets.setdefault(n.split("_")[0], []).append(n)
    for st, ns in sets.items():
        if st in ("eff", "rm"):
            continue  # hand-written PcEffector.v / PcRoleGraph.v cover these
        lines = ["(* GENERATED by `tools/pins.py --freeze`: the modelled functions of set `%s` are textually the ones" % st,
                 "   the model was last aligned with. *)",
                 "From CV Require Import Model.Base Pins PinChecks.Frozen.", ""]
        for n in ns:
            lines.append("Lemma pin_body_%s_ok : pin_body_%s = frozen_%s. Proof. reflexivity. Qed." % (n, n, n))
        with open(os.path.join(pcdir, "PcBody_%s.v" % st), "w") as f:
            f.write("\n".join(lines) + "\n")


def main():
    if len(sys.argv) > 1 and sys.argv[1] == "--freeze":
        freeze(generate())
        return
    dst = sys.argv[1] if len(sys.argv) > 1 else "/verif/coq/Pins.v"
    txt = generate()
    old = None
    try:
        with open(dst, encoding="utf-8") as f:
            old = f.read()
    except OSError:
        pass
    if old != txt:
        with open(dst, "w", encoding="utf-8") as f:
            f.write(txt)
        print("pins: rewritten", dst)
    else:
        print("pins: unchanged")


if __name__ == "__main__":
    main()
