"""Shared machinery of tools/check: builds (Coq cone, extracted model, Rust
harness), differential run, classification, replay files, evidence."""
import hashlib
import json
import os
import re
import subprocess
import sys
import time

VERIF = os.path.dirname(os.path.dirname(os.path.abspath(__file__)))
REPO = os.environ.get("VERIF_REPO", "/repo")
COQ = os.path.join(VERIF, "coq")
BUILD = os.path.join(VERIF, ".build")
ML = os.path.join(BUILD, "ml")
ALT = os.path.abspath(REPO) != "/repo"      # development only (tools/seedtest --copy): checks run against a COPY of /repo
HT = os.path.join(BUILD, "harness-target-alt" if ALT else "harness-target")
CVH = os.path.join(HT, "debug", "cvh")
HARNESS = os.path.join(BUILD, "harness-alt") if ALT else os.path.join(VERIF, "harness")
MODELRUN = os.path.join(ML, "modelrun")
NPROC = os.cpu_count() or 4


def _cleanup_private_dirs():
    import shutil
    for sub in ("run", "assum"):
        shutil.rmtree(os.path.join(BUILD, sub, str(os.getpid())), ignore_errors=True)


import atexit  # noqa: E402
atexit.register(_cleanup_private_dirs)

FORBIDDEN = re.compile(
    r"\b(Admitted|admit|Axiom|Axioms|Parameter|Parameters|Conjecture|Conjectures|"
    r"Admit Obligations|Unset Guard Checking|Unset Positivity Checking|"
    r"Unset Universe Checking|bypass_check|native_compute)\b|type-in-type|impredicative-set"
)
# stdlib-declared axioms that would be tolerated if they ever showed up (none expected)
AXIOM_ALLOW = {
    "functional_extensionality_dep",
    "proof_irrelevance",
    "classic",
    "JMeq_eq",
    "Eqdep.Eq_rect_eq.eq_rect_eq",
    "propositional_extensionality",
}


def sh(cmd, cwd=None, timeout=3600, env=None):
    e = dict(os.environ)
    e["CARGO_NET_OFFLINE"] = "true"
    if env:
        e.update(env)
    t0 = time.time()
    try:
        p = subprocess.run(cmd, cwd=cwd, shell=isinstance(cmd, str), stdout=subprocess.PIPE,
                           stderr=subprocess.STDOUT, timeout=timeout, env=e)
        return p.returncode, p.stdout.decode("utf-8", "replace"), time.time() - t0
    except subprocess.TimeoutExpired as ex:
        return 124, (ex.stdout or b"").decode("utf-8", "replace") + "\nTIMEOUT", time.time() - t0


# ----------------------------------------------------------------- Coq side
def coq_makefile():
    mk = os.path.join(COQ, "Makefile")
    cp = os.path.join(COQ, "_CoqProject")
    if not os.path.exists(mk) or os.path.getmtime(mk) < os.path.getmtime(cp):
        rc, out, _ = sh("coq_makefile -f _CoqProject -o Makefile", cwd=COQ)
        if rc != 0:
            raise RuntimeError("coq_makefile failed: " + out)


def regen_pins():
    """regenerate, from /repo's current text, everything the proofs are tied to: source pins, the translated Gallina, and the
    Examples that validate the trusted restatements of regex / regex-syntax / rhai against the REAL crates. Every tool runs even
    when an earlier one fails; failures are raised together at the end (tools/check turns them into a broken obligation)."""
    failures = []
    with build_lock():
        for name, cmd, to in [
                ("tools/pins.py", [sys.executable, os.path.join(VERIF, "tools", "pins.py"), os.path.join(COQ, "Pins.v")], 3600),
                # the translated parts of the model (src/*.rs -> Gen/*Gen.v)
                ("tools/rs2coq.py", [sys.executable, os.path.join(VERIF, "tools", "rs2coq.py"), os.path.join(COQ, "Gen", "EffectorGen.v")], 3600),
                # Gen/Regex.v (trusted restatement of the regex crate) is re-validated against the real crate's answers
                ("tools/rx_crate_examples.py", [sys.executable, os.path.join(VERIF, "tools", "rx_crate_examples.py")], 1200),
                # Gen/RegexSyntax.v (the crate's PARSER) and the Captures / closure-replacer / HashMap restatements of Gen/FmapRt.v
                ("tools/rx_syntax_examples.py", [sys.executable, os.path.join(VERIF, "tools", "rx_syntax_examples.py")], 1800),
                # Model/Expr.v (hand model of the rhai matcher fragment) against the real rhai engine configured as
                # src/enforcer.rs configures it (coq/Gen/RhaiExamples.v)
                ("tools/rhai_examples.py", [sys.executable, os.path.join(VERIF, "tools", "rhai_examples.py")], 1800)]:
            rc, out, _ = sh(cmd, timeout=to)
            if rc != 0:
                failures.append("%s failed (exit %d):\n%s" % (name, rc, out[-1500:]))
    if failures:
        raise RuntimeError("\n".join(failures))


class build_lock:
    """checks may run concurrently: builds that write into shared directories (coq/*.vo, .build/ml, the cargo target)
    are serialised by an advisory file lock; the differential runs use per-process directories"""

    def __enter__(self):
        import fcntl
        os.makedirs(BUILD, exist_ok=True)
        self.f = open(os.path.join(BUILD, "build.lock"), "w")
        fcntl.flock(self.f, fcntl.LOCK_EX)
        return self

    def __exit__(self, *a):
        import fcntl
        fcntl.flock(self.f, fcntl.LOCK_UN)
        self.f.close()


def coq_build(targets, timeout=1800):
    """make the given .vo targets (and their cones). Returns (ok, log, failing_file)"""
    with build_lock():
        coq_makefile()
        rc, out, dt = sh(["make", "-j%d" % NPROC] + targets, cwd=COQ, timeout=timeout)
    failing = None
    m = re.search(r'File "\./([^"]+)", line (\d+)', out)
    if m:
        failing = "%s:%s" % (m.group(1), m.group(2))
    return rc == 0, out, failing


def cone(vfile):
    """transitive CV-dependencies of a .v file (relative paths), by scanning Require lines"""
    seen = []
    todo = [vfile]
    while todo:
        f = todo.pop()
        if f in seen:
            continue
        seen.append(f)
        try:
            src = open(os.path.join(COQ, f), encoding="utf-8").read()
        except OSError:
            continue
        src = strip_comments(src)
        for m in re.finditer(r"From\s+CV\s+Require\s+(?:Import\s+|Export\s+)?(.*?)\.(?=\s)", src, re.S):
            for mod in m.group(1).split():
                todo.append(mod.replace(".", "/") + ".v")
    return seen


def strip_comments(src):
    out = []
    depth = 0
    i = 0
    in_str = False
    while i < len(src):
        if depth == 0 and src[i] == '"':
            in_str = not in_str
            out.append(src[i])
            i += 1
        elif not in_str and src.startswith("(*", i):
            depth += 1
            i += 2
        elif not in_str and depth > 0 and src.startswith("*)", i):
            depth -= 1
            i += 2
        else:
            if depth == 0:
                out.append(src[i])
            i += 1
    return "".join(out)


def forbidden_scan(files):
    hits = []
    for f in files:
        try:
            src = strip_comments(open(os.path.join(COQ, f), encoding="utf-8").read())
        except OSError:
            continue
        # string literals may legitimately contain words; drop them
        src_ns = re.sub(r'"(?:[^"]|"")*"', '""', src)
        for ln, line in enumerate(src_ns.split("\n"), 1):
            if FORBIDDEN.search(line):
                hits.append("%s:%d: %s" % (f, ln, line.strip()))
    return hits


def count_qed(files):
    n = 0
    for f in files:
        try:
            src = strip_comments(open(os.path.join(COQ, f), encoding="utf-8").read())
        except OSError:
            continue
        n += len(re.findall(r"\b(Qed|Defined)\s*\.", src))
    return n


def theorems_of(vfile):
    src = strip_comments(open(os.path.join(COQ, vfile), encoding="utf-8").read())
    return re.findall(r"\b(?:Theorem|Lemma|Corollary|Example)\s+([A-Za-z_][A-Za-z0-9_']*)", src)


def print_assumptions(vfile):
    """re-run Print Assumptions for every theorem of a Properties file against
    the compiled .vo; returns {theorem: text}"""
    mod = "CV." + vfile[:-2].replace("/", ".")
    thms = theorems_of(vfile)
    d = os.path.join(BUILD, "assum", str(os.getpid()))
    os.makedirs(d, exist_ok=True)
    name = "Assum_" + re.sub(r"\W", "_", vfile[:-2])
    path = os.path.join(d, name + ".v")
    with open(path, "w") as f:
        f.write("Require Import %s.\n" % mod)
        for t in thms:
            f.write('Goal True. idtac "@@%s". Abort.\nPrint Assumptions %s.\n' % (t, t))
    with build_lock():
        rc, out, _ = sh(["coqc", "-Q", COQ, "CV", "-w", "-notation-overridden", path], cwd=d, timeout=600)
    res = {}
    if rc != 0:
        return None, out
    cur = None
    for line in out.split("\n"):
        if line.startswith("@@"):
            cur = line[2:].strip()
            res[cur] = ""
        elif cur is not None:
            res[cur] += line + "\n"
    return {k: v.strip() for k, v in res.items()}, out


def assumptions_ok(assum):
    bad = []
    for thm, txt in assum.items():
        if txt.startswith("Closed under the global context"):
            continue
        names = re.findall(r"^([A-Za-z_][\w.']*)\s*:", txt, re.M)
        for n in names:
            if n.split(".")[-1] not in AXIOM_ALLOW and n not in AXIOM_ALLOW:
                bad.append("%s depends on %s" % (thm, n))
        if not names:
            bad.append("%s: unparsed assumptions output: %s" % (thm, txt[:80]))
    return bad


# ------------------------------------------------------- executable sides
def build_ml():
    with build_lock():
        return _build_ml()


def _build_ml():
    os.makedirs(ML, exist_ok=True)
    srcs = [os.path.join(VERIF, "extracted", f) for f in ("model.mli", "model.ml", "modelrun.ml")]
    for s in srcs:
        if not os.path.exists(s):
            return False, "missing " + s
    stamp = os.path.join(ML, "stamp")
    h = hashlib.sha256(b"".join(open(s, "rb").read() for s in srcs)).hexdigest()
    if os.path.exists(stamp) and open(stamp).read() == h and os.path.exists(MODELRUN):
        return True, "up to date"
    for s in srcs:
        with open(os.path.join(ML, os.path.basename(s)), "wb") as f:
            f.write(open(s, "rb").read())
    rc, out, _ = sh("ocamlfind ocamlopt -w -a -package str -linkpkg model.mli model.ml modelrun.ml -o modelrun",
                    cwd=ML, timeout=900)
    if rc == 0:
        open(stamp, "w").write(h)
    return rc == 0, out


def build_harness():
    with build_lock():
        return _build_harness()


def _build_harness():
    if ALT:
        import shutil
        shutil.rmtree(HARNESS, ignore_errors=True)
        shutil.copytree(os.path.join(VERIF, "harness"), HARNESS, ignore=shutil.ignore_patterns("target"))
        ct = os.path.join(HARNESS, "Cargo.toml")
        txt = open(ct).read().replace('path = "/repo"', 'path = "%s"' % os.path.abspath(REPO))
        open(ct, "w").write(txt)
    lock_src = os.path.join(REPO, "Cargo.lock")
    lock_dst = os.path.join(HARNESS, "Cargo.lock")
    if os.path.exists(lock_src) and not os.path.exists(lock_dst):
        with open(lock_dst, "wb") as f:
            f.write(open(lock_src, "rb").read())
    rc, out, dt = sh(["cargo", "build", "--offline", "--quiet"], cwd=HARNESS,
                     timeout=1800, env={"RUSTFLAGS": "--cfg casbin_verif -Awarnings", "CARGO_TARGET_DIR": HT})
    return rc == 0, out


def _run_sharded(binary, mode, case_lines, extra_files=None, timeout=3600, tag="x"):
    """run `binary mode shard [extra]` over up to NPROC shards, preserving order"""
    n = len(case_lines)
    if n == 0:
        return []
    k = min(NPROC, max(1, n // 2000))
    size = (n + k - 1) // k
    d = os.path.join(BUILD, "run", str(os.getpid()))
    os.makedirs(d, exist_ok=True)
    procs = []
    for i in range(k):
        chunk = case_lines[i * size:(i + 1) * size]
        cf = os.path.join(d, "%s.%d.cases" % (tag, i))
        with open(cf, "w", encoding="utf-8") as f:
            f.write("\n".join(chunk) + "\n")
        cmd = [binary, mode, cf]
        if extra_files is not None:
            ef = os.path.join(d, "%s.%d.extra" % (tag, i))
            with open(ef, "w", encoding="utf-8") as f:
                f.write("\n".join(extra_files[i * size:(i + 1) * size]) + "\n")
            cmd.append(ef)
        of = open(os.path.join(d, "%s.%d.out" % (tag, i)), "wb")
        procs.append((subprocess.Popen(cmd, stdout=of, stderr=subprocess.DEVNULL), of, len(chunk)))
    out = []
    deadline = time.time() + timeout
    for p, of, cnt in procs:
        try:
            p.wait(timeout=max(1, deadline - time.time()))
            hung = False
        except subprocess.TimeoutExpired:
            p.kill()
            hung = True
        of.close()
        lines = open(of.name, encoding="utf-8", errors="replace").read().split("\n")
        if lines and lines[-1] == "":
            lines.pop()
        if len(lines) < cnt:
            # process died (abort / hang): the first missing line is the culprit
            lines = lines + [("HANG" if hung else "ABORT")] + ["?not-run"] * (cnt - len(lines) - 1)
        out.extend(lines[:cnt])
    return out


def run_model(cases, timeout=3600):
    return _run_sharded(MODELRUN, "run", cases, timeout=timeout, tag="model")


def run_prep(cases, timeout=3600):
    """{expr} placeholders -> the matcher text the Gallina printer produces (what the real crate is fed)"""
    if not any("{" in c or c.startswith("pm ") for c in cases):
        return cases
    return _run_sharded(MODELRUN, "prep", cases, timeout=timeout, tag="prep")


def run_impl(cases, timeout=3600):
    return _run_sharded(CVH, "run", run_prep(cases), timeout=timeout, tag="impl")


def run_pred(cases, impl_out, timeout=3600, prop=""):
    os.environ["CVPROP"] = prop
    return _run_sharded(MODELRUN, "pred", cases, extra_files=impl_out, timeout=timeout, tag="pred")


# ------------------------------------------------------------ known findings
def load_known():
    p = os.path.join(VERIF, "known_findings.json")
    try:
        return json.load(open(p))
    except OSError:
        return {"findings": []}


def write_replay(pid, payload):
    d = os.path.join(VERIF, "replays")
    os.makedirs(d, exist_ok=True)
    h = hashlib.sha256(json.dumps(payload, sort_keys=True).encode()).hexdigest()[:12]
    path = os.path.join(d, "%s-%s.json" % (pid, h))
    with open(path, "w") as f:
        json.dump(payload, f, indent=1, sort_keys=True)
    return path


def write_evidence(pid, ev):
    d = os.path.join(VERIF, "evidence")
    os.makedirs(d, exist_ok=True)
    with open(os.path.join(d, pid + ".json"), "w") as f:
        json.dump(ev, f, indent=1, sort_keys=True)
