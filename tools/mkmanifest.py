#!/usr/bin/env python3
"""Writes MANIFEST.json from tools/props.py (claimed checks) and the list of
properties not (yet) claimed."""
import json, os, sys
sys.path.insert(0, os.path.dirname(os.path.abspath(__file__)))
import props

V = os.path.dirname(os.path.dirname(os.path.abspath(__file__)))
ids = [json.loads(l)["id"] for l in open(os.path.join(V, "properties.jsonl")) if l.strip()]
checks = []
for pid in ids:
    if pid not in props.PROPS:
        continue
    P = props.PROPS[pid]
    # how this property's model is tied to /repo's text on every run: proved translations vs frozen-text pins
    pcs = [os.path.basename(x)[:-2] for x in P.get("pinchecks", [])]
    gens = sorted({x for x in pcs if x.endswith("Gen")})
    pins = sorted({x for x in pcs if not x.endswith("Gen") and x != "RegexExamples"})
    srcs = [os.path.basename(x)[:-2] for x in P.get("coq_extra", []) if x.endswith("src.v") or x.endswith("Gen.v") or x.endswith("SrcStep.v") or x.endswith("SrcAsk.v")]
    tie = (" SOURCE TIE (every run): Gallina regenerated from /repo by tools/rs2coq.py and PROVED equal to the model in "
           + (", ".join(gens) if gens else "(none)") + "; frozen-text / literal pins " + (", ".join(pins) if pins else "(none)")
           + ((". Headline theorems restated about the translated source: " + ", ".join(srcs)) if srcs else "")
           + "; plus the differential run of the extracted model against the real crate.")
    checks.append({
        "property_id": pid,
        "quick_cmd": "tools/check %s --tier quick" % pid,
        "thorough_cmd": "tools/check %s --tier thorough" % pid,
        "evidence_file": "/verif/evidence/%s.json" % pid,
        "replay_cmd_template": "tools/check %s --replay {path}" % pid,
        "engine": "coq-model+correspondence",
        "level_claimed": {"category": "proof", "text": P["level_text"] + tie, "design_ref": "5." + pid},
        "level_note": P["level_note"],
        "technique": P.get("technique", "machine-checked proof in Coq 8.16 over an executable Gallina model; the model is tied to /repo on every run by (a) a Rust->Gallina translator (tools/rs2coq*.py) whose output is regenerated from the source and proved equal to the model function by function, (b) frozen-text pins for the code not yet translated, (c) a differential correspondence run of the extracted model against the real crate"),
    })
na = [{"property_id": pid, "reason": props.NOT_CLAIMED.get(pid, "check not built yet; nothing is claimed for this property")}
      for pid in ids if pid not in props.PROPS]
m = {
    "version": 1,
    "setup_cmd": "tools/setup",
    "hooks": {
        "guard": "casbin_verif",
        "enable": "RUSTFLAGS=\"--cfg casbin_verif\" (set by tools/check when it builds harness/ against /repo); one add-only hook commit: a verif_hooks module in src/lib.rs re-exports util text functions and a Config dump under #[cfg(casbin_verif)]",
        "baseline_off_cmd": "cd /repo && cargo test --workspace --no-fail-fast --offline",
        "source_commits": ["62ada8a5f9648b7981291254a9cd4e4c995e86fd"],
        "add_only": True,
    },
    "engines": [{
        "name": "coq-model+correspondence",
        "path": "coq/ extracted/ harness/ gen/ tools/",
        "serves_properties": [c["property_id"] for c in checks],
        "kind_free_text": "Coq 8.16 theorems over an executable Gallina model; Gallina regenerated from /repo's Rust text each run (tools/rs2coq*.py) and proved equal to the model; extracted OCaml model runner vs Rust harness driving the real crate on identical generated cases; source pins regenerated from /repo each run",
    }],
    "checks": checks,
    "not_applicable": na,
    "notes": "see DESIGN.md; known findings in known_findings.json",
}
json.dump(m, open(os.path.join(V, "MANIFEST.json"), "w"), indent=1)
print("MANIFEST.json: %d checks, %d not claimed" % (len(checks), len(na)))
