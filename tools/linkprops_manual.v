(* ---- the role manager: RoleManagerGen on the representation of a plain manager (Proofs/LinkRmP.v) ---- *)
(* rm_rep lvl m g = rm_inv g /\ rm_abs g = embed m /\ rm_max_hierarchy_level g = lvl; rm_conc / rm_back are the
   representation changes; wf is an invariant of every reachable state (link_inv_reachable) *)
Theorem link_rm_rep_conc : forall lvl m, wf m -> rm_rep lvl m (rm_conc lvl m).
Proof. exact LinkRmP.rm_rep_conc. Qed.
Print Assumptions link_rm_rep_conc.

Theorem link_rm_back_conc : forall lvl m, rm_back (rm_conc lvl m) = m.
Proof. exact LinkRmP.rm_back_conc. Qed.
Print Assumptions link_rm_back_conc.

Theorem link_rm_rep_new : forall lvl, rm_rep lvl [] (gen_new lvl).
Proof. exact LinkRmP.rm_rep_new. Qed.
Print Assumptions link_rm_rep_new.

Theorem link_rm_add_link_rep : forall lvl m g a b d, wf m -> rm_rep lvl m g ->
  exists g', gen_add_link g a b d = Some g' /\ rm_rep lvl (add_link m a b d) g'.
Proof. exact LinkRmP.link_rm_add_link_rep. Qed.
Print Assumptions link_rm_add_link_rep.

Theorem link_rm_delete_link_rep : forall ord, ord_ok ord -> forall lvl m g a b d, wf m -> rm_rep lvl m g ->
  exists g' r, gen_delete_link ord g a b d = Some (g', r) /\
               rm_rep lvl (fst (delete_link m a b d)) g' /\ rs_is_ok r = snd (delete_link m a b d).
Proof. exact LinkRmP.link_rm_delete_link_rep. Qed.
Print Assumptions link_rm_delete_link_rep.

Theorem link_rm_clear_rep : forall lvl m g, rm_rep lvl m g -> exists g', gen_clear g = Some g' /\ rm_rep lvl [] g'.
Proof. exact LinkRmP.link_rm_clear_rep. Qed.
Print Assumptions link_rm_clear_rep.

Theorem link_rm_has_link_rep : forall ord, ord_ok ord -> forall fuel lvl m g a b d,
  rm_rep lvl m g -> rm_fuel_ok fuel m -> gen_has_link ord fuel g a b d = Some (has_link lvl m a b d).
Proof. exact LinkRmP.link_rm_has_link_rep. Qed.
Print Assumptions link_rm_has_link_rep.

Theorem link_rm_get_roles_rep : forall ord, ord_ok ord -> forall lvl m g n d, rm_rep lvl m g ->
  exists l, gen_get_roles ord g n d = Some l /\ forall y, In y l <-> In y (get_roles m n d).
Proof. exact LinkRmP.link_rm_get_roles_rep. Qed.
Print Assumptions link_rm_get_roles_rep.

Theorem link_rm_get_users_rep : forall ord, ord_ok ord -> forall lvl m g n d, rm_rep lvl m g ->
  exists l, gen_get_users ord g n d = Some l /\ forall y, In y l <-> In y (get_users m n d).
Proof. exact LinkRmP.link_rm_get_users_rep. Qed.
Print Assumptions link_rm_get_users_rep.

(* the same as functions on the plain manager (LinksPrims.rs_rm_add_link is add_link, rs_rm_delete_link is
   delete_link with its flag read as Result<()>) *)
Theorem link_rs_rm_add_link : forall m a b d, wf m -> lk_rm_add_link m a b d = rs_rm_add_link m a b d.
Proof. exact LinkRmP.link_rm_add_link. Qed.
Print Assumptions link_rs_rm_add_link.

Theorem link_rs_rm_delete_link : forall ord, ord_ok ord -> forall m a b d, wf m ->
  lk_rs_delete_link ord m a b d = rs_rm_delete_link m a b d.
Proof. exact LinkAddP.link_rs_delete_link. Qed.
Print Assumptions link_rs_rm_delete_link.

Theorem link_rm_delete_link : forall ord, ord_ok ord -> forall m a b d, wf m ->
  lk_rm_delete_link ord m a b d = delete_link m a b d.
Proof. exact LinkRmP.link_rm_delete_link. Qed.
Print Assumptions link_rm_delete_link.

Theorem link_rm_clear_fn : forall m, wf m -> lk_rm_clear m = RoleGraph.rm_clear m.
Proof. exact LinkRmP.link_rm_clear. Qed.
Print Assumptions link_rm_clear_fn.

Theorem link_rm_has_link : forall ord, ord_ok ord -> forall fuel lvl m a b d, wf m -> rm_fuel_ok fuel m ->
  lk_rm_has_link ord fuel lvl m a b d = has_link lvl m a b d.
Proof. exact LinkRmP.link_rm_has_link. Qed.
Print Assumptions link_rm_has_link.

Theorem link_rm_get_roles : forall ord, ord_ok ord -> forall m n d, wf m ->
  forall y, In y (lk_rm_get_roles ord m n d) <-> In y (get_roles m n d).
Proof. exact LinkRmP.link_rm_get_roles. Qed.
Print Assumptions link_rm_get_roles.

Theorem link_rm_get_users : forall ord, ord_ok ord -> forall m n d, wf m ->
  forall y, In y (lk_rm_get_users ord m n d) <-> In y (get_users m n d).
Proof. exact LinkRmP.link_rm_get_users. Qed.
Print Assumptions link_rm_get_users.

(* through gen_history_ok: the graph behind a handle that is the `lrun` of its link history is the state the
   translated mutators reach on that history from DefaultRoleManager::new *)
Theorem link_rm_history : forall ord, ord_ok ord -> forall lvl (h : list lop),
  exists g, gen_run ord (gen_new lvl) (map mop_of h) = Some (g, lrun_flags [] h) /\ rm_rep lvl (lrun h) g.
Proof. exact LinkRmP.link_rm_history. Qed.
Print Assumptions link_rm_history.

Theorem link_rm_fuel_exists : forall m, exists F, forall fuel, F <= fuel -> rm_fuel_ok fuel m.
Proof. exact LinkRmP.rm_fuel_exists. Qed.
Print Assumptions link_rm_fuel_exists.

Example link_rm_ex :
  wf ex_rm /\ rm_fuel_ok 4 ex_rm /\ ord_ok (@rev text) /\
  lk_rm_has_link (@rev text) 4 10 ex_rm (T "alice") (T "root") None = true /\
  lk_rm_has_link (@rev text) 4 10 ex_rm (T "bob") (T "root") None = false /\
  lk_rm_add_link ex_rm (T "x") (T "y") None = add_link ex_rm (T "x") (T "y") None /\
  lk_rm_delete_link (@rev text) ex_rm (T "alice") (T "admin") None = delete_link ex_rm (T "alice") (T "admin") None.
Proof. exact LinkRmP.link_rm_ex. Qed.

(* ---- the invariant under which the role-manager links hold (Proofs/LinkInvP.v) ---- *)
(* link_inv s = rm_wf s /\ gfuns_wf s: the current manager and every manager captured by a registered closure are
   well formed *)
Theorem link_inv_new_enforcer : forall d a w, link_inv (fst (new_enforcer d a w)).
Proof. exact LinkInvP.link_inv_new_enforcer. Qed.
Print Assumptions link_inv_new_enforcer.

Theorem link_inv_step : forall s o, link_inv s -> link_inv (fst (step s o)).
Proof. exact LinkInvP.link_inv_step. Qed.
Print Assumptions link_inv_step.

Theorem link_inv_reachable : forall d a w ops, link_inv (run_ops (fst (new_enforcer d a w)) ops).
Proof. exact LinkInvP.link_inv_reachable. Qed.
Print Assumptions link_inv_reachable.

Theorem link_fs_fuel_exists : forall fs, exists F, forall fuel, F <= fuel -> fs_fuel_ok fuel fs.
Proof. exact LinkEnforceP.fs_fuel_exists. Qed.
Print Assumptions link_fs_fuel_exists.

(* ================================================================== *)
(* 2. LEAVES                                                           *)

(* @TOTAL@ rows, each carrying its Gallina constant; by class (std, petgraph, hashlink, regex, rhai, mini-moka,
   tokio-fs, parking_lot, serde, harness, struct): @COUNTS@ *)
Example link_leaves_count_by_class :
  map (fun c => length (leaves_of_class c)) all_classes = [@COUNTS@].
Proof. exact LinkLeavesP.leaves_count_by_class. Qed.
Example link_leaves_count : length trusted_leaves = @TOTAL@.
Proof. exact LinkLeavesP.leaves_count. Qed.
Example link_leaves_partition :
  length all_leaves = fold_right plus 0 (map (fun c => length (leaves_of_class c)) all_classes).
Proof. exact LinkLeavesP.leaves_partition. Qed.
Example link_untranslated_crate : length untranslated_crate = 4.
Proof. exact LinkingP.untranslated_crate_count. Qed.

(* ================================================================== *)
(* 3. CAPSTONE                                                         *)

(* ---- the generated functions with their callees abstracted ARE the generated functions ---- *)
Theorem link_skeletons :
  api_add_named_policy_skel step_add = gen_add_named_policy /\
  api_add_named_grouping_policy_skel step_add = gen_add_named_grouping_policy /\
  internal_add_skel ad_add m_add_policy emit emit_clear_cache build_incremental_role_links = gen_add_policy_internal /\
  enf_bil_skel LinksGen.gen_model_build_incremental_role_links = gen_enf_build_incremental_role_links /\
  links_incr_skel rs_rm_add_link rs_rm_delete_link = gen_model_build_incremental_role_links /\
  penf_skel get_ast new_stream Effector.push Effector.next Effector.done eval_matcher = EnforceGen.gen_private_enforce /\
  em_skel has_link key_match key_get key_match2 key_match3 key_match4 key_match5 regex_match_words key_get2 key_get3
  = eval_matcher.
Proof.
  exact (conj api_add_named_policy_skel_gen (conj api_add_named_grouping_policy_skel_gen (conj internal_add_skel_gen
        (conj enf_bil_skel_gen (conj links_incr_skel_gen (conj penf_skel_gen em_skel_model)))))).
Qed.
Print Assumptions link_skeletons.

(* ---- the add half, layer by layer ---- *)
Theorem link_ad0_add : forall null_add, (forall sec pt r, null_add sec pt r = Ok true) ->
  forall a sec pt r, lk_ad0_add null_add a sec pt r = ad0_add a sec pt r.
Proof. exact LinkAddP.link_ad0_add. Qed.
Print Assumptions link_ad0_add.

Theorem link_ad_add : forall null_add, (forall sec pt r, null_add sec pt r = Ok true) ->
  forall a sec pt r, lk_ad_add null_add a sec pt r = ad_add a sec pt r.
Proof. exact LinkAddP.link_ad_add. Qed.
Print Assumptions link_ad_add.

Theorem link_m_add_policy_fn : forall md sec pt r, lk_m_add_policy md sec pt r = m_add_policy md sec pt r.
Proof. exact LinkAddP.link_m_add_policy. Qed.
Print Assumptions link_m_add_policy_fn.

Theorem link_emit_fn : forall s ev, lk_emit s ev = emit s ev.
Proof. exact LinkAddP.link_emit. Qed.
Print Assumptions link_emit_fn.

Theorem link_emit_clear_cache_fn : forall s, lk_emit_clear_cache s = emit_clear_cache s.
Proof. exact LinkAddP.link_emit_clear_cache_fn. Qed.
Print Assumptions link_emit_clear_cache_fn.

Theorem link_links_incr : forall ord, ord_ok ord -> forall h d md m, wf m ->
  lk_links_incr ord h d md m = gen_model_build_incremental_role_links h d md m.
Proof. exact LinkAddP.link_links_incr. Qed.
Print Assumptions link_links_incr.

Theorem link_bil : forall ord, ord_ok ord -> forall s d, rm_wf s -> lk_bil ord s d = build_incremental_role_links s d.
Proof. exact LinkAddP.link_bil. Qed.
Print Assumptions link_bil.

Theorem link_add_policy_internal : forall ord, ord_ok ord ->
  forall null_add, (forall sec pt r, null_add sec pt r = Ok true) ->
  forall s sec pt r, rm_wf s -> lk_add_policy_internal ord null_add s sec pt r = gen_add_policy_internal s sec pt r.
Proof. exact LinkAddP.link_add_policy_internal. Qed.
Print Assumptions link_add_policy_internal.

Theorem link_add_named_policy : forall ord, ord_ok ord ->
  forall null_add, (forall sec pt r, null_add sec pt r = Ok true) ->
  forall s pt r, rm_wf s -> lk_add_named_policy ord null_add s pt r = gen_add_named_policy s pt r.
Proof. exact LinkAddP.link_add_named_policy. Qed.
Print Assumptions link_add_named_policy.

Theorem link_add_named_grouping_policy : forall ord, ord_ok ord ->
  forall null_add, (forall sec pt r, null_add sec pt r = Ok true) ->
  forall s pt r, rm_wf s -> lk_add_named_grouping_policy ord null_add s pt r = gen_add_named_grouping_policy s pt r.
Proof. exact LinkAddP.link_add_named_grouping_policy. Qed.
Print Assumptions link_add_named_grouping_policy.

Theorem link_add_step : forall ord, ord_ok ord ->
  forall null_add, (forall sec pt r, null_add sec pt r = Ok true) ->
  forall g s pt r, rm_wf s -> lk_add ord null_add g s pt r = step s (OAdd (if g then s_g else s_p) pt r).
Proof. exact LinkAddP.lk_add_step. Qed.
Print Assumptions link_add_step.

(* ---- Enforcer::build_role_links down to the translated role manager (Proofs/LinkBuildP.v) ---- *)
Theorem link_build_skeletons :
  links_build_skel rs_rm_add_link = gen_model_build_role_links /\
  build_role_links_skel EnforcerPrims.rm_clear model_build_role_links = gen_build_role_links.
Proof. exact (conj links_build_skel_gen build_role_links_skel_gen). Qed.
Print Assumptions link_build_skeletons.

Theorem link_links_build : forall h md m, wf m -> lk_links_build h md m = gen_model_build_role_links h md m.
Proof. exact LinkBuildP.link_links_build. Qed.
Print Assumptions link_links_build.

Theorem link_build_role_links_fn : forall s, rm_wf s -> lk_build_role_links s = gen_build_role_links s.
Proof. exact LinkBuildP.link_build_role_links_fn. Qed.
Print Assumptions link_build_role_links_fn.

Theorem link_build_role_links_step : forall s, rm_wf s -> lk_build_role_links s = step s OBuildRoleLinks.
Proof. exact LinkBuildP.lk_build_role_links_step. Qed.
Print Assumptions link_build_role_links_step.

Example link_build_ex :
  let s1 := fst (step cap_s0 (OAdd s_g s_g [alice; admin])) in
  rm_wf s1 /\ lk_build_role_links s1 = step s1 OBuildRoleLinks /\
  roles_for_user (fst (lk_build_role_links s1)) alice None = [admin].
Proof. exact LinkingP.link_build_ex. Qed.

(* ---- the enforce half ---- *)
Theorem link_eval_matcher : forall ptab ord fuel, ord_ok ord -> forall fs m sc, fs_wf fs -> fs_fuel_ok fuel fs ->
  lk_eval_matcher ord fuel ptab fs m sc = eval_matcher ptab fs m sc \/ eval_matcher ptab fs m sc = Err EEvalc.
Proof. exact LinkEnforceP.lk_eval_matcher_agree. Qed.
Print Assumptions link_eval_matcher.

Theorem link_private_enforce : forall ptab ord fuel, ord_ok ord -> forall en md mx fs rv, fs_wf fs -> fs_fuel_ok fuel fs ->
  lk_private_enforce ptab ord fuel en md mx fs rv = EnforceGen.gen_private_enforce ptab en md mx fs rv \/
  EnforceGen.gen_private_enforce ptab en md mx fs rv = Err EEvalc.
Proof. exact LinkEnforceP.lk_private_enforce_agree. Qed.
Print Assumptions link_private_enforce.

Theorem link_enforce_agree : forall ptab ord fuel, ord_ok ord -> forall s rv, link_inv s -> fs_fuel_ok fuel (e_fs s) ->
  lk_enforce ptab ord fuel s rv = enforce ptab s rv \/ enforce ptab s rv = Err EEvalc.
Proof. exact LinkEnforceP.lk_enforce_agree. Qed.
Print Assumptions link_enforce_agree.

Theorem link_enforce_eq : forall ptab ord fuel, ord_ok ord -> forall s rv, link_inv s -> fs_fuel_ok fuel (e_fs s) ->
  enforce ptab s rv <> Err EEvalc -> lk_enforce ptab ord fuel s rv = enforce ptab s rv.
Proof. exact LinkEnforceP.lk_enforce_eq. Qed.
Print Assumptions link_enforce_eq.

(* ---- the capstone ---- *)
(* linked_add_then_enforce: add_named_policy (g = false) / add_named_grouping_policy (g = true) through ApiGen ->
   InternalGen -> AdaptersGen / FsaveGen + Model2Gen + Enforcer2Gen (emit) + Enforcer2Gen -> LinksGen ->
   RoleManagerGen, then private_enforce through EnforceGen -> EffectorGen, Model2Gen (lookup macros), StrFnGen /
   FmapGen (built-ins), RoleManagerGen (g(..)); model_add_then_enforce: step + enforce of Model/Engine.v.
   Hypotheses: the iteration order permutes; ML_null_adapter; link_inv (invariant: link_inv_reachable); fuel above
   the size of the role graphs after the add (some fuel is: capstone_reachable); ML_regex_class. *)
Theorem capstone_agree : forall ptab ord fuel null_add,
  ord_ok ord -> (forall sec pt r, null_add sec pt r = Ok true) ->
  forall g s pt r rv, link_inv s -> fs_fuel_ok fuel (e_fs (after_add g s pt r)) ->
  linked_add_then_enforce ptab ord fuel null_add g s pt r rv = model_add_then_enforce ptab g s pt r rv \/
  (fst (linked_add_then_enforce ptab ord fuel null_add g s pt r rv) = fst (model_add_then_enforce ptab g s pt r rv) /\
   snd (model_add_then_enforce ptab g s pt r rv) = Err EEvalc).
Proof. exact LinkingP.linked_add_then_enforce_agree. Qed.
Print Assumptions capstone_agree.

Theorem capstone : forall ptab ord fuel null_add,
  ord_ok ord ->
  forall ML_null_adapter : (forall sec pt r, null_add sec pt r = Ok true),
  forall g s pt r rv, link_inv s -> fs_fuel_ok fuel (e_fs (after_add g s pt r)) ->
  forall ML_regex_class : snd (model_add_then_enforce ptab g s pt r rv) <> Err EEvalc,
  linked_add_then_enforce ptab ord fuel null_add g s pt r rv = model_add_then_enforce ptab g s pt r rv.
Proof. exact LinkingP.capstone. Qed.
Print Assumptions capstone.

Theorem capstone_state : forall ptab ord fuel null_add,
  ord_ok ord -> (forall sec pt r, null_add sec pt r = Ok true) ->
  forall g s pt r rv, link_inv s ->
  fst (linked_add_then_enforce ptab ord fuel null_add g s pt r rv)
  = (fst (step s (OAdd (if g then s_g else s_p) pt r)), snd (step s (OAdd (if g then s_g else s_p) pt r))).
Proof. exact LinkingP.capstone_state. Qed.
Print Assumptions capstone_state.

Theorem capstone_reachable : forall ptab ord null_add d a w ops g pt r rv,
  ord_ok ord -> (forall sec pt r, null_add sec pt r = Ok true) ->
  let s := run_ops (fst (new_enforcer d a w)) ops in
  exists F, forall fuel, F <= fuel ->
    snd (model_add_then_enforce ptab g s pt r rv) <> Err EEvalc ->
    linked_add_then_enforce ptab ord fuel null_add g s pt r rv = model_add_then_enforce ptab g s pt r rv.
Proof. exact LinkingP.capstone_reachable. Qed.
Print Assumptions capstone_reachable.

(* the hypotheses are satisfiable: RBAC over a memory adapter; a role link added through the API, then the request
   of the new member decided through the translated role manager *)
Example capstone_ex_hyps :
  ord_ok (@rev text) /\ link_inv cap_s0 /\
  fs_fuel_ok 4 (e_fs (after_add true cap_s0 s_g [alice; admin])) /\
  snd (model_add_then_enforce no_ptab true cap_s0 s_g [alice; admin] (req alice data1 read)) <> Err EEvalc.
Proof. exact LinkingP.capstone_ex_hyps. Qed.

Example capstone_ex :
  lk_enforce no_ptab (@rev text) 4 cap_s0 (req alice data1 read) = Ok false /\
  linked_add_then_enforce no_ptab (@rev text) 4 cap_null true cap_s0 s_g [alice; admin] (req alice data1 read)
  = model_add_then_enforce no_ptab true cap_s0 s_g [alice; admin] (req alice data1 read) /\
  snd (fst (linked_add_then_enforce no_ptab (@rev text) 4 cap_null true cap_s0 s_g [alice; admin] (req alice data1 read))) = Ok true /\
  snd (linked_add_then_enforce no_ptab (@rev text) 4 cap_null true cap_s0 s_g [alice; admin] (req alice data1 read)) = Ok true /\
  e_adapter (fst (fst (linked_add_then_enforce no_ptab (@rev text) 4 cap_null true cap_s0 s_g [alice; admin] (req alice data1 read))))
  = mem [pl admin data1 read; gl alice admin].
Proof. exact LinkingP.capstone_ex. Qed.

Example capstone_ex_p :
  linked_add_then_enforce no_ptab (@rev text) 4 cap_null false cap_s0 s_p [bob; data2; write] (req bob data2 write)
  = model_add_then_enforce no_ptab false cap_s0 s_p [bob; data2; write] (req bob data2 write) /\
  snd (linked_add_then_enforce no_ptab (@rev text) 4 cap_null false cap_s0 s_p [bob; data2; write] (req bob data2 write)) = Ok true.
Proof. exact LinkingP.capstone_ex_p. Qed.

(* ML_regex_class cannot be dropped (the finding of part 16, seen end to end): a regexMatch pattern outside the
   model's class - the source answers, the model's built-in is an evaluation error *)
Example capstone_regex_class_needed :
  let s := mk cap_rx_def (mem []) in
  snd (model_add_then_enforce no_ptab false s s_p [alice; data1; T "^GET|POST$"] (req alice data1 (T "GETx"))) = Err EEvalc /\
  snd (linked_add_then_enforce no_ptab (@rev text) 4 cap_null false s s_p [alice; data1; T "^GET|POST$"] (req alice data1 (T "GETx"))) = Ok true.
Proof. exact LinkingP.capstone_regex_class_needed. Qed.
