#!/usr/bin/env python3
"""Robustness / sensitivity demonstration for part 12 of rs2coq (tools/rs2coq_ini.py: src/config.rs and the loading
half of src/model/default_model.rs -> coq/Gen/IniGen.v, obligations in coq/PinChecks/PcIniGen.v, statements in
coq/Properties/IniGen.v).

For every variant: copy /repo/src to a scratch directory (tempfile.mkdtemp(), outside /repo and /verif), apply the
textual edits of the variant, run rs2coq_ini on the scratch copy, rebuild Properties/IniGen.vo (which needs
PinChecks/PcIniGen.vo) and compare the outcome with the expectation (meaning-preserving rewrite -> the proofs pass
unchanged; change of meaning -> a proof fails or the function leaves the translated subset).  For a failing variant
that was translated, a battery of concrete texts is evaluated by vm_compute on the translated functions and on the
model, and the first text on which they differ is reported (so that a failed proof is seen to be a change of meaning,
not a weak tactic).  The pristine generated file is restored at the end.

usage: python3 tools/rs2coq_demo_ini.py [label-prefix ..]
"""
import os
import re
import shutil
import subprocess
import sys
import tempfile

HERE = os.path.dirname(os.path.abspath(__file__))
ROOT = os.path.dirname(HERE)
COQ = os.path.join(ROOT, "coq")
SCRATCH = tempfile.mkdtemp(prefix="rs2coq_demo_ini_")
sys.path.insert(0, HERE)

CONFIG = "src/config.rs"
MODEL = "src/model/default_model.rs"

COMMENT_TEST = """            if line.is_empty()
                || line.starts_with(DEFAULT_COMMENT)
                || line.starts_with(DEFAULT_COMMENT_SEM)
            {
                continue;
            } else if line.starts_with('[') && line.ends_with(']') {"""

VARIANTS = [
    # (label, expectation, [(file, old, new)])
    ("P0 the source as it is", "pass", []),
    ("P1 parse_buffer: locals renamed (line -> cur, next_section -> pending, inner_line -> inner, bytes -> n)", "pass", [
        (CONFIG, "@fn parse_buffer", [("line", "cur"), ("next_section", "pending"), ("inner_line", "inner"),
                                      ("inner_bytes", "m"), ("bytes", "n"), ("option_val", "kv")])]),
    ("P2 parse_buffer: operands of || and && swapped, `0 == bytes`, the final `if` inverted", "pass", [
        (CONFIG, COMMENT_TEST, """            if line.starts_with(DEFAULT_COMMENT_SEM)
                || line.is_empty()
                || line.starts_with(DEFAULT_COMMENT)
            {
                continue;
            } else if line.ends_with(']') && line.starts_with('[') {"""),
        (CONFIG, "            if bytes == 0 {", "            if 0 == bytes {"),
        (CONFIG, """                if !next_section.is_empty() {
                    section = next_section;
                }""", """                if next_section.is_empty() {
                } else {
                    section = next_section;
                }""")]),
    ("P3 add_config: `if let Some(old_value) = section_value.get_mut(&option)` instead of let + match", "pass", [
        (CONFIG, """        let key_value = section_value.get_mut(&option);
        match key_value {
            Some(old_value) => {
                *old_value = value;
            }
            None => {
                section_value.insert(option, value);
            }
        }""", """        if let Some(old_value) = section_value.get_mut(&option) {
            *old_value = value;
        } else {
            section_value.insert(option, value);
        }""")]),
    ("P4 load_assertion: match arms reordered; get_key_suffix: branches swapped under `i != 1`", "pass", [
        (MODEL, """            "r" => "request_definition",
            "p" => "policy_definition",
            "g" => "role_definition",
            "e" => "policy_effect",
            "m" => "matchers",""", """            "m" => "matchers",
            "e" => "policy_effect",
            "g" => "role_definition",
            "p" => "policy_definition",
            "r" => "request_definition","""),
        (MODEL, """        if i == 1 {
            "".to_owned()
        } else {
            i.to_string()
        }""", """        if i != 1 {
            i.to_string()
        } else {
            String::new()
        }""")]),
    ("P5 add_def: the two branches swapped under a negated condition, `sec == \"p\" || sec == \"r\"`", "pass", [
        (MODEL, """        if sec == "r" || sec == "p" {
            ast.tokens = ast
                .value
                .split(',')
                .map(|x| format!("{}_{}", key, x.trim()))
                .collect();
        } else {
            ast.value = escape_assertion(&ast.value);
        }""", """        if !(sec == "p" || sec == "r") {
            ast.value = escape_assertion(&ast.value);
        } else {
            ast.tokens = ast
                .value
                .split(',')
                .map(|x| format!("{}_{}", key, x.trim()))
                .collect();
        }""")]),
    ("P6 load_section: `if self.load_assertion(..)? { i += 1; } else { break Ok(()); }`; from_str: a named reader", "pass", [
        (MODEL, """            if !self.load_assertion(
                cfg,
                sec,
                &format!("{}{}", sec, self.get_key_suffix(i)),
            )? {
                break Ok(());
            } else {
                i += 1;
            }""", """            let key = format!("{}{}", sec, self.get_key_suffix(i));
            if self.load_assertion(cfg, sec, &key)? {
                i += 1;
            } else {
                break Ok(());
            }"""),
        (CONFIG, """        c.parse_buffer(&mut ioBufReader::new(ioCursor::new(
            s.as_ref().as_bytes(),
        )))
        .await?;""", """        let mut reader = ioBufReader::new(ioCursor::new(s.as_ref().as_bytes()));
        c.parse_buffer(&mut reader).await?;""")]),
    ("N1 (i) continuation loop: a blank / comment line ends it (`break` instead of `continue`)", "fail", [
        (CONFIG, """                        || inner_line.starts_with(DEFAULT_COMMENT_SEM)
                    {
                        continue;
                    }""", """                        || inner_line.starts_with(DEFAULT_COMMENT_SEM)
                    {
                        break;
                    }""")]),
    ("N2 (ii) a section header inside a continuation is applied immediately (`section = ..`)", "fail", [
        (CONFIG, """                        next_section =
                            inner_line[1..inner_line.len() - 1].to_string();""", """                        section =
                            inner_line[1..inner_line.len() - 1].to_string();""")]),
    ("N3 (iii) `split('=')` instead of `splitn(2, '=')`", "fail", [
        (CONFIG, "                    .splitn(2, '=')", "                    .split('=')")]),
    ("N4 (iv) `trim_end_matches(..)` dropped", "fail", [
        (CONFIG, """                let option_val: Vec<&str> = line
                    .trim_end_matches(|c| {
                        char::is_whitespace(c)
                            || char::to_string(&c)
                                == DEFAULT_MULTI_LINE_SEPARATOR
                    })
                    .splitn(2, '=')""", """                let option_val: Vec<&str> = line
                    .splitn(2, '=')""")]),
    ("N5 (v) add_config keeps the OLD value of a duplicate key", "fail", [
        (CONFIG, """            Some(old_value) => {
                *old_value = value;
            }""", """            Some(_old_value) => {}""")]),
    ("N6 (vi) an empty section name is no longer mapped to \"default\"", "fail", [
        (CONFIG, """        if section.is_empty() {
            section = DEFAULT_SECTION.to_owned();
        }
""", "")]),
    ("N7a (vii) load_section starts at i = 0", "fail", [
        (MODEL, "        let mut i = 1;\n", "        let mut i = 0;\n")]),
    ("N7b (vii) get_key_suffix: `i <= 1`", "fail", [
        (MODEL, "        if i == 1 {\n            \"\".to_owned()", "        if i <= 1 {\n            \"\".to_owned()")]),
    ("N8 (viii) add_def accepts an empty value (no early `return false`)", "fail", [
        (MODEL, """        if ast.value.is_empty() {
            return false;
        }
""", "")]),
    ("N9a (ix) add_def builds tokens for \"m\" too", "fail", [
        (MODEL, """        if sec == "r" || sec == "p" {
            ast.tokens""", """        if sec == "r" || sec == "p" || sec == "m" {
            ast.tokens""")]),
    ("N9b (ix) add_def builds the tokens from the untrimmed pieces", "fail", [
        (MODEL, """.map(|x| format!("{}_{}", key, x.trim()))""", """.map(|x| format!("{}_{}", key, x))""")]),
    ("N10 (x) DefaultModel::from_str loads \"g\" before \"m\"", "fail", [
        (MODEL, "@from_str_order", None)]),
    ("N11 the comment character of a full-line comment is '!' (DEFAULT_COMMENT)", "fail", [
        (CONFIG, 'const DEFAULT_COMMENT: &str = "#";', 'const DEFAULT_COMMENT: &str = "!";')]),
    ("N12 parse_buffer: a `while let` loop (outside the subset: clean failure)", "fail", [
        (CONFIG, """                if !next_section.is_empty() {
                    section = next_section;
                }""", """                let mut it = option_val.iter();
                while let Some(_x) = it.next() {}
                if !next_section.is_empty() {
                    section = next_section;
                }""")]),
    ("P7 to_text: locals renamed (s -> out, value -> shown, token -> tk)", "pass", [
        (MODEL, "@fn to_text", [("s", "out"), ("value", "shown"), ("token", "tk")])]),
    ("N13 to_text: the role definitions are written through the replacement table as well", "fail", [
        (MODEL, """                for (ptype, assertion) in assertions {
                    s.push_str(&format!("{} = {}\\n", ptype, assertion.value));
                }""", """                for (ptype, assertion) in assertions {
                    let mut value = assertion.value.clone();
                    for (token_pattern, new_token) in &token_patterns {
                        value = value.replace(token_pattern, new_token);
                    }
                    s.push_str(&format!("{} = {}\\n", ptype, value));
                }""")]),
    ("N14 to_text: p_eft is looked for in the matchers instead of the policy effect", "fail", [
        (MODEL, """        if let Some(assertions) = self.model.get("e") {
            if let Some(assertion) = assertions.get("e") {""", """        if let Some(assertions) = self.model.get("m") {
            if let Some(assertion) = assertions.get("m") {""")]),
]


def run(cmd, **kw):
    return subprocess.run(cmd, stdout=subprocess.PIPE, stderr=subprocess.STDOUT, text=True, **kw)


def fn_span(src, name, after=0):
    m = re.search(r"\bfn\s+%s\b" % name, src[after:])
    i = src.index("{", after + m.end())
    depth, j = 0, i
    while True:
        depth += (src[j] == "{") - (src[j] == "}")
        j += 1
        if depth == 0:
            return after + m.start(), j


def apply_edit(rel, old, new):
    path = os.path.join(SCRATCH, rel)
    src = open(path, encoding="utf-8").read()
    if old.startswith("@fn "):
        a, b = fn_span(src, old[4:])
        body = src[a:b]
        pieces = re.split(r'("(?:[^"\\]|\\.)*")', body)          # string literals are left alone
        for x, y in new:
            pieces = [pc if pc.startswith('"') else re.sub(r"(?<!\w)(?<!(?<!\.)\.)%s\b" % x, y, pc) for pc in pieces]
        body = "".join(pieces)
        src = src[:a] + body + src[b:]
    elif old == "@from_str_order":
        # the second occurrence (DefaultModel::from_str; the first is from_file)
        a = src.index("pub async fn from_str")
        seg_old = """        model.load_section(&cfg, "m")?;

        model.load_section(&cfg, "g")?;"""
        seg_new = """        model.load_section(&cfg, "g")?;

        model.load_section(&cfg, "m")?;"""
        k = src.index(seg_old, a)
        src = src[:k] + seg_new + src[k + len(seg_old):]
    else:
        assert src.count(old) == 1, (rel, old[:60], src.count(old))
        src = src.replace(old, new)
    open(path, "w", encoding="utf-8").write(src)


# ---- a battery of concrete comparisons between the translated functions and the model
def coq_text_of(s):
    parts = []
    cur = ""
    for ch in s:
        if ch == "\n":
            if cur:
                parts.append('T "%s"' % cur.replace('"', '""'))
                cur = ""
            parts.append("[nl]")
        else:
            cur += ch
    if cur:
        parts.append('T "%s"' % cur.replace('"', '""'))
    return "(" + " ++ ".join(parts or ["[]"]) + ")"


BASIC = "[request_definition]\nr = sub, obj, act\n[policy_definition]\np = sub, obj, act\n[role_definition]\ng = _, _\n" \
        "[policy_effect]\ne = some(where (p.eft == allow))\n[matchers]\nm = g(r.sub, p.sub) && r.obj == p.obj\n"
TEXTS = [
    ("the basic RBAC model", BASIC),
    ("a line with two trailing backslashes, a blank line, a further line:  k = v \\\\ / (blank) / w", "k = v \\\\\n\nw\n"),
    ("a section header inside a continuation:  [a] / k = v \\ / [b] / k2 = w", "[a]\nk = v \\\n[b]\nk2 = w\n"),
    ("a value containing '=':  k = a == b", "k = a == b\n"),
    ("two trailing backslashes at the end of the text:  k = v \\\\", "k = v \\\\"),
    ("a key defined twice:  k = 1 / k = 2", "k = 1\nk = 2\n"),
    ("a definition before any section header:  k = v", "k = v\n"),
    ("a request definition that is only a comment:  r = #c", "[request_definition]\nr = #c\n"),
    ("r2 / p2 definitions", "[request_definition]\nr = sub\nr2 = sub, dom\n[policy_definition]\np = sub\np2 = sub, dom\n"
                            "[policy_effect]\ne = some(where (p.eft == allow))\n[matchers]\nm = r.sub == p.sub\n"),
    ("a comment line starting with '!'", "! note\nk = v\n"),
    ("a role definition that mentions a token:  g = r_sub, _", BASIC.replace("g = _, _", "g = r_sub, _")),
]
WITNESS_HEAD = r"""
From CV Require Import Model.Base Model.Csv Model.Ini.
From CV Require Import Gen.RustStr Gen.StrFnGen Gen.RustVec Gen.RustIter Gen.Petgraph Gen.IniRt Gen.IniGen.
Definition F := 400.
Definition otext_eqb (a b : option text) : bool :=
  match a, b with Some x, Some y => teqb x y | None, None => true | _, _ => false end.
Definition lookup (st : config_state) (s k : text) : option text :=
  match hm_get (conf_data st) s with Some m => hm_get m k | None => None end.
Definition same_cfg (t : text) : bool :=
  match gen_from_str F t, parse_config t with
  | Some (ROk st), Some c =>
      forallb (fun kv => otext_eqb (lookup st (fst (fst kv)) (snd (fst kv))) (cfg_get (fst kv) c)) c &&
      forallb (fun sm => forallb (fun kv => otext_eqb (Some (snd kv)) (cfg_get (fst sm, fst kv) c)) (snd sm)) (conf_data st)
  | Some (RErr _), None => true
  | _, _ => false
  end.
Definition adef_eqb (a : gen_assertion) (d : adef) : bool :=
  teqb (ga_key a) (ad_key d) && teqb (ga_value a) (ad_value d) && list_eqb teqb (ga_tokens a) (ad_tokens d).
Fixpoint defs_eqb (am : lhm gen_assertion) (ds : list adef) : bool :=
  match am, ds with
  | [], [] => true
  | (k, a) :: am', d :: ds' => teqb k (ad_key d) && adef_eqb a d && defs_eqb am' ds'
  | _, _ => false
  end.
Definition same_model (t : text) : bool :=
  match gen_model_from_str F t, model_of_text t with
  | Some (ROk m), Some md =>
      forallb (fun s => match hm_get (dm_model m) s, assoc s md with
                        | Some am, Some ds => defs_eqb am ds
                        | None, None => true
                        | _, _ => false
                        end) [T "r"; T "p"; T "e"; T "m"; T "g"] &&
      Nat.eqb (length (dm_model m)) (length md)
  | Some (RErr _), None => true
  | _, _ => false
  end.
Definition same_totext (t : text) : bool :=
  match gen_model_from_str F t, model_of_text t with
  | Some (ROk m), Some md => match gen_to_text (fun l => l) m with Some s => teqb s (to_text md) | None => false end
  | Some (RErr _), None => true
  | _, _ => false
  end.
Definition same_suffix (i : nat) : bool := teqb (gen_get_key_suffix {| dm_model := [] |} i) (key_suffix i).
"""


def witness():
    path = os.path.join(SCRATCH, "Witness.v")
    items, descr = [], []
    for d, t in TEXTS:
        items.append("same_cfg %s" % coq_text_of(t))
        descr.append("Config::from_str + lookups on " + d)
        items.append("same_model %s" % coq_text_of(t))
        descr.append("DefaultModel::from_str on " + d)
        items.append("same_totext %s" % coq_text_of(t))
        descr.append("to_text (insertion order) of the model of " + d)
    for i in (0, 1, 2, 10):
        items.append("same_suffix %d" % i)
        descr.append("get_key_suffix(%d)" % i)
    txt = WITNESS_HEAD + "Eval vm_compute in\n  [%s].\n" % ";\n   ".join(items)
    open(path, "w").write(txt)
    r = run(["timeout", "600", "coqc", "-Q", ".", "CV", path], cwd=COQ)
    m = re.search(r"=\s*\[([^\]]*)\]\s*:\s*list bool", r.stdout)
    if r.returncode != 0 or not m:
        em = re.search(r"Error:(.*?)(?:\n\n|\Z)", r.stdout, re.S)
        return "the battery does not typecheck any more (%s)" % (" ".join(em.group(1).split())[:110] if em else "?")
    vals = [x.strip() for x in m.group(1).split(";")]
    bad = [d for d, v in zip(descr, vals) if v == "false"]
    return ("translated code and model differ on: " + bad[0]) if bad else "no difference on the fixed inputs"


def regenerate(repo):
    env = dict(os.environ, VERIF_REPO=repo)
    return run([sys.executable, os.path.join(HERE, "rs2coq_ini.py"), os.path.join(COQ, "Gen")], env=env)


def main():
    only = sys.argv[1:]
    results = []
    for label, expect, edits in VARIANTS:
        if only and not any(label.startswith(o) for o in only):
            continue
        shutil.rmtree(SCRATCH, ignore_errors=True)
        shutil.copytree("/repo/src", os.path.join(SCRATCH, "src"))
        for rel, old, new in edits:
            apply_edit(rel, old, new)
        regenerate(SCRATCH)
        mk = run(["timeout", "1200", "make", "Properties/IniGen.vo"], cwd=COQ)
        ok = mk.returncode == 0
        why = ""
        if not ok:
            m = re.search(r'File "\./(PinChecks/PcIniGen|Properties/IniGen|Gen/IniGen)\.v", line (\d+).*?\n(Error:.*?)(?:\n\n|\nmake)', mk.stdout, re.S)
            if m:
                thm = ""
                lines = open(os.path.join(COQ, m.group(1) + ".v")).read().split("\n")
                for k in range(int(m.group(2)) - 1, -1, -1):
                    mm = re.match(r"(?:Theorem|Lemma|Example|Corollary)\s+(\w+)", lines[k])
                    if mm:
                        thm = mm.group(1)
                        break
                why = "%s: %s" % (thm, " ".join(m.group(3).split())[:90])
            else:
                why = " ".join(mk.stdout.strip().split("\n")[-3:])[:200]
        gen = open(os.path.join(COQ, "Gen", "IniGen.v")).read()
        note = ""
        fm = re.search(r"\(\* translation (?:of (\S+) )?failed: (.*?) \*\)", gen, re.S)
        if fm:
            note = " [untranslatable %s: %s]" % (fm.group(1) or "", " ".join(fm.group(2).split()))
        if not ok and not fm:
            note += " [witness: %s]" % witness()
        verdict = "pass" if ok else "fail"
        flag = "as expected" if verdict == expect else "UNEXPECTED"
        print("%-4s (%s) %s%s%s" % (verdict.upper(), flag, label, (" -> " + str(why)) if why else "", note))
        sys.stdout.flush()
        results.append(verdict == expect)
    regenerate("/repo")
    mk = run(["timeout", "1200", "make", "Properties/IniGen.vo"], cwd=COQ)
    print("restored from /repo:", "build ok" if mk.returncode == 0 else "BUILD FAILED")
    shutil.rmtree(SCRATCH, ignore_errors=True)
    print("%d/%d variants behaved as expected" % (sum(results), len(results)))
    return 0 if all(results) and mk.returncode == 0 else 1


if __name__ == "__main__":
    sys.exit(main())
