#!/usr/bin/env python3
"""Robustness / sensitivity demonstration for part 5 of rs2coq (tools/rs2coq_api.py:
the mutating helpers of src/management_api.rs and src/rbac_api.rs).

For every variant: copy /repo/src to a scratch directory (tempfile.mkdtemp, never
/repo or /verif), replace the body of one or more methods, run rs2coq_api on the
scratch copy, rebuild PinChecks/PcApiGen.vo and compare with the expectation
(meaning-preserving rewrite -> all 32 obligations still proved; change of
meaning / outside the subset -> an obligation or the translation fails).  The
pristine generated file is restored (and rebuilt) at the end.

usage: python3 tools/rs2coq_api_demo.py [label-prefix ..]
       (also reachable as  python3 tools/rs2coq_demo.py api [label-prefix ..])
"""
import os
import re
import shutil
import subprocess
import sys
import tempfile

HERE = os.path.dirname(os.path.abspath(__file__))
ROOT = os.path.dirname(HERE)
COQ = os.path.join(ROOT, "coq")
sys.path.insert(0, HERE)
import pins  # noqa: E402

RBAC = "src/rbac_api.rs"
MGMT = "src/management_api.rs"

DELETE_USER_ARGS = "(0, vec![name.to_string()])"

# (label, expectation, [(file, method, new body), ..])
VARIANTS = [
    ("P0 unmodified sources", "pass", []),
    ("P1 delete_user: the vector is bound first and cloned", "pass", [(RBAC, "delete_user", """{
        let v = vec![name.to_string()];
        let res1 = self.remove_filtered_grouping_policy(0, v.clone()).await?;
        let res2 = self.remove_filtered_policy(0, v).await?;
        Ok(res1 || res2)
    }""")]),
    ("P2 delete_user: match on the first result instead of ?", "pass", [(RBAC, "delete_user", """{
        let res1 = match self
            .remove_filtered_grouping_policy(0, vec![name.to_string()])
            .await
        {
            Ok(removed) => removed,
            Err(e) => return Err(e),
        };
        let res2 = self
            .remove_filtered_policy(0, vec![name.to_string()])
            .await?;
        Ok(res1 || res2)
    }""")]),
    ("P3 add_role_for_user / delete_roles_for_user: vec![..] instead of array-iter-map-collect, match instead of if let",
     "pass", [(RBAC, "add_role_for_user", """{
        self.add_grouping_policy(if let Some(domain) = domain {
            vec![user.to_string(), role.to_string(), domain.to_string()]
        } else {
            vec![user.to_owned(), role.to_owned()]
        })
        .await
    }"""), (RBAC, "delete_roles_for_user", """{
        let filter = match domain {
            Some(d) => vec![user.to_string(), String::from(""), d.to_string()],
            None => vec![user.to_string()],
        };
        self.remove_filtered_grouping_policy(0, filter).await
    }""")]),
    ("P4 add_roles_for_user: the test on the domain hoisted out of the closure", "pass", [(RBAC, "add_roles_for_user", """{
        let rules = if let Some(domain) = domain {
            roles
                .into_iter()
                .map(|role| vec![user.to_string(), role, domain.to_string()])
                .collect()
        } else {
            roles.into_iter().map(|role| vec![user.to_string(), role]).collect()
        };
        self.add_grouping_policies(rules).await
    }""")]),
    ("P5 delete_role / delete_user: flags combined as `if res1 { true } else { res2 }` / `res2 || res1`", "pass",
     [(RBAC, "delete_role", """{
        let res1 = self
            .remove_filtered_grouping_policy(1, vec![name.to_string()])
            .await?;
        let res2 = self
            .remove_filtered_policy(0, vec![name.to_string()])
            .await?;
        Ok(if res1 { true } else { res2 })
    }"""), (RBAC, "delete_user", """{
        let res1 = self.remove_filtered_grouping_policy(0, vec![name.to_string()]).await?;
        let res2 = self.remove_filtered_policy(0, vec![name.to_string()]).await?;
        Ok(res2 || res1)
    }""")]),
    ("P6 add_role_for_user: one awaited call per branch, the named form called directly in one of them", "pass",
     [(RBAC, "add_role_for_user", """{
        if let Some(domain) = domain {
            self.add_named_grouping_policy(
                "g",
                vec![user.to_string(), role.to_string(), domain.to_string()],
            )
            .await
        } else {
            self.add_grouping_policy(vec![user.to_string(), role.to_string()]).await
        }
    }""")]),
    ("P7 management: tuple pattern instead of .0, tail call instead of `?` + Ok, `?` + Ok instead of tail call", "pass",
     [(MGMT, "remove_filtered_named_policy", """{
        let (rule_removed, _) = self
            .remove_filtered_policy_internal("p", ptype, field_index, field_values)
            .await?;
        Ok(rule_removed)
    }"""), (MGMT, "add_named_grouping_policy", """{
        self.add_policy_internal("g", ptype, params).await
    }"""), (MGMT, "add_policy", """{
        let added = self.add_named_policy("p", params).await?;
        Ok(added)
    }""")]),
    ("P8 add_permissions_for_user: the closure copies its argument before inserting", "pass",
     [(RBAC, "add_permissions_for_user", """{
        let perms = permissions
            .into_iter()
            .map(|p| {
                let mut q = p;
                q.insert(0, user.to_string());
                q
            })
            .collect();
        self.add_policies(perms).await
    }""")]),
    ("P9 delete_user: second call inside the || but on the LEFT (always evaluated)", "pass", [(RBAC, "delete_user", """{
        let res1 = self.remove_filtered_grouping_policy(0, vec![name.to_string()]).await?;
        Ok(self.remove_filtered_policy(0, vec![name.to_string()]).await? || res1)
    }""")]),
    # ---------------------------------------------------------------- changes of meaning
    ("N1 (i) delete_role folded into a short-circuit ||: the second removal is skipped when the first removed something",
     "fail", [(RBAC, "delete_role", """{
        Ok(self
            .remove_filtered_grouping_policy(1, vec![name.to_string()])
            .await?
            || self
                .remove_filtered_policy(0, vec![name.to_string()])
                .await?)
    }""")]),
    ("N1b (i) delete_user folded into a short-circuit ||", "fail", [(RBAC, "delete_user", """{
        Ok(self.remove_filtered_grouping_policy(0, vec![name.to_string()]).await?
            || self.remove_filtered_policy(0, vec![name.to_string()]).await?)
    }""")]),
    ("N2 (ii) delete_role: field index 0 instead of 1 for the grouping removal", "fail", [(RBAC, "delete_role", """{
        let res1 = self
            .remove_filtered_grouping_policy(0, vec![name.to_string()])
            .await?;
        let res2 = self
            .remove_filtered_policy(0, vec![name.to_string()])
            .await?;
        Ok(res1 || res2)
    }""")]),
    ("N3 (iii) add_role_for_user builds [role, user]", "fail", [(RBAC, "add_role_for_user", """{
        self.add_grouping_policy(if let Some(domain) = domain {
            [role, user, domain]
                .iter()
                .map(|s| (*s).to_string())
                .collect()
        } else {
            [role, user].iter().map(|s| (*s).to_string()).collect()
        })
        .await
    }""")]),
    ("N4 (iv) delete_roles_for_user with a domain builds [user, domain] (no \"\" wildcard)", "fail",
     [(RBAC, "delete_roles_for_user", """{
        self.remove_filtered_grouping_policy(
            0,
            if let Some(domain) = domain {
                [user, domain]
                    .iter()
                    .map(|s| (*s).to_string())
                    .collect()
            } else {
                [user].iter().map(|s| (*s).to_string()).collect()
            },
        )
        .await
    }""")]),
    ("N5a (v) add_named_grouping_policy passes section \"p\" to the internal entry point", "fail",
     [(MGMT, "add_named_grouping_policy", """{
        let rule_added = self.add_policy_internal("p", ptype, params).await?;
        Ok(rule_added)
    }""")]),
    ("N5b (v) add_grouping_policy delegates to add_named_policy(\"g\", ..) (section p)", "fail",
     [(MGMT, "add_grouping_policy", """{
        self.add_named_policy("g", params).await
    }""")]),
    ("N5c add_grouping_policy: default policy type \"p\"", "fail", [(MGMT, "add_grouping_policy", """{
        self.add_named_grouping_policy("p", params).await
    }""")]),
    ("N6 (vi) remove_filtered_named_policy returns true instead of .0", "fail",
     [(MGMT, "remove_filtered_named_policy", """{
        self.remove_filtered_policy_internal("p", ptype, field_index, field_values)
            .await?;
        Ok(true)
    }""")]),
    ("N7 delete_user: the policy removal first, then the grouping removal", "fail", [(RBAC, "delete_user", """{
        let res2 = self
            .remove_filtered_policy(0, vec![name.to_string()])
            .await?;
        let res1 = self
            .remove_filtered_grouping_policy(0, vec![name.to_string()])
            .await?;
        Ok(res1 || res2)
    }""")]),
    ("N8 delete_user: && instead of ||", "fail", [(RBAC, "delete_user", """{
        let res1 = self.remove_filtered_grouping_policy(0, vec![name.to_string()]).await?;
        let res2 = self.remove_filtered_policy(0, vec![name.to_string()]).await?;
        Ok(res1 && res2)
    }""")]),
    ("N9 delete_user: the error of the first removal is swallowed", "fail", [(RBAC, "delete_user", """{
        let res1 = match self.remove_filtered_grouping_policy(0, vec![name.to_string()]).await {
            Ok(b) => b,
            Err(_) => false,
        };
        let res2 = self.remove_filtered_policy(0, vec![name.to_string()]).await?;
        Ok(res1 || res2)
    }""")]),
    ("N10 add_named_policy: section and policy type swapped", "fail", [(MGMT, "add_named_policy", """{
        self.add_policy_internal(ptype, "p", params).await
    }""")]),
    ("N11 delete_permission: field index 0 instead of 1", "fail", [(RBAC, "delete_permission", """{
        self.remove_filtered_policy(0, permission).await
    }""")]),
    ("N12 add_permissions_for_user: the user is appended instead of prepended", "fail",
     [(RBAC, "add_permissions_for_user", """{
        let perms = permissions
            .into_iter()
            .map(|mut p| {
                p.push(user.to_string());
                p
            })
            .collect();
        self.add_policies(perms).await
    }""")]),
    ("N13 remove_policies written as a loop over single removals (outside the subset)",
     "fail", [(MGMT, "remove_policies", """{
        let mut all = true;
        for params in paramss {
            all = self.remove_named_policy("p", params).await? && all;
        }
        Ok(all)
    }""")]),
    ("N14 remove_filtered_named_policy computes the flag from .1 (outside the subset)", "fail",
     [(MGMT, "remove_filtered_named_policy", """{
        Ok(!self
            .remove_filtered_policy_internal("p", ptype, field_index, field_values)
            .await?
            .1
            .is_empty())
    }""")]),
    ("N15 delete_permission_for_user: removal by filter instead of the exact rule", "fail",
     [(RBAC, "delete_permission_for_user", """{
        let mut permission = permission;
        permission.insert(0, user.to_string());
        self.remove_filtered_policy(0, permission).await
    }""")]),
]


# ---------------------------------------------------------------- concrete witnesses
# When an obligation fails, the changed functions (and their callers) are RUN against the model on a
# few concrete enforcers (the ones of the Examples of PcApiGen.v) to exhibit a path on which source and
# model really differ - so that "the tactic did not find a proof" is backed by "there is none".
POOL = {
    "text": ["alice", "bob", "admin", '(T "carol")'],
    "pt": ["s_p", "s_g", '(T "p2")'],
    "rule": ["[alice; data1; read]", "[data1; write]", "[bob; root]", "[admin]", "[root; admin]", "[data1]"],
    "rules": ["[[alice; data1; read]; [admin; data1; write]]", "[[data2; read]; [data2; write]]", "[[bob; root]]"],
    "nat": ["0", "1"],
    "opt": ["None", '(Some (T "dom"))'],
}
STATES = ["ex_api", "ex_dom", "(ex_api_fail [RFail])", "(ex_api_fail [RPass; RFail])", "ex_watched"]
# function -> (argument kinds, the model's side over {s} and {0} {1} ..)
MODEL = {
    "add_named_policy": (["pt", "rule"], "step {s} (OAdd s_p {0} {1})"),
    "add_named_policies": (["pt", "rules"], "step {s} (OAddMany s_p {0} {1})"),
    "remove_named_policy": (["pt", "rule"], "step {s} (ORemove s_p {0} {1})"),
    "remove_named_policies": (["pt", "rules"], "step {s} (ORemoveMany s_p {0} {1})"),
    "add_named_grouping_policy": (["pt", "rule"], "step {s} (OAdd s_g {0} {1})"),
    "add_named_grouping_policies": (["pt", "rules"], "step {s} (OAddMany s_g {0} {1})"),
    "remove_named_grouping_policy": (["pt", "rule"], "step {s} (ORemove s_g {0} {1})"),
    "remove_named_grouping_policies": (["pt", "rules"], "step {s} (ORemoveMany s_g {0} {1})"),
    "remove_filtered_named_policy": (["pt", "nat", "rule"], "step {s} (ORemoveFiltered s_p {0} {1} {2})"),
    "remove_filtered_named_grouping_policy": (["pt", "nat", "rule"], "step {s} (ORemoveFiltered s_g {0} {1} {2})"),
    "add_policy": (["rule"], "step {s} (OAdd s_p s_p {0})"),
    "add_policies": (["rules"], "step {s} (OAddMany s_p s_p {0})"),
    "remove_policy": (["rule"], "step {s} (ORemove s_p s_p {0})"),
    "remove_policies": (["rules"], "step {s} (ORemoveMany s_p s_p {0})"),
    "add_grouping_policy": (["rule"], "step {s} (OAdd s_g s_g {0})"),
    "add_grouping_policies": (["rules"], "step {s} (OAddMany s_g s_g {0})"),
    "remove_grouping_policy": (["rule"], "step {s} (ORemove s_g s_g {0})"),
    "remove_grouping_policies": (["rules"], "step {s} (ORemoveMany s_g s_g {0})"),
    "remove_filtered_policy": (["nat", "rule"], "step {s} (ORemoveFiltered s_p s_p {0} {1})"),
    "remove_filtered_grouping_policy": (["nat", "rule"], "step {s} (ORemoveFiltered s_g s_g {0} {1})"),
    "add_permission_for_user": (["text", "rule"], "step_rbac {s} (RAddPermission {0} {1})"),
    "add_permissions_for_user": (["text", "rules"], "step_rbac {s} (RAddPermissions {0} {1})"),
    "add_role_for_user": (["text", "text", "opt"], "step_rbac {s} (RAddRole {0} {1} {2})"),
    "add_roles_for_user": (["text", "rule", "opt"], "step_rbac {s} (RAddRoles {0} {1} {2})"),
    "delete_role_for_user": (["text", "text", "opt"], "step_rbac {s} (RDeleteRole {0} {1} {2})"),
    "delete_roles_for_user": (["text", "opt"], "step_rbac {s} (RDeleteRoles {0} {1})"),
    "delete_user": (["text"], "step_rbac {s} (RDeleteUser {0})"),
    "delete_role": (["text"], "step_rbac {s} (RDeleteRoleAll {0})"),
    "delete_permission": (["rule"], "step_rbac {s} (RDeletePermission {0})"),
    "delete_permission_for_user": (["text", "rule"], "step_rbac {s} (RDeletePermissionFor {0} {1})"),
    "delete_permissions_for_user": (["text"], "step_rbac {s} (RDeletePermissionsFor {0})"),
}
WITNESS_HEADER = """From CV Require Import Model.Base Model.Enforce Model.Engine Gen.ApiRt Gen.ApiGen Proofs.ExModels.
Definition ex_api : estate :=
  mk rbac_def (mem [pl alice data1 read; pl admin data1 write; gl alice admin; gl bob admin]).
Definition ex_dom : estate :=
  mk rbac_def (mem [[s_g; s_g; bob; root; T "dom"]; [s_g; s_g; bob; admin; T "other"];
                    [s_g; s_g; alice; admin; T "dom"]]).
Definition ex_watched : estate :=      (* with a watcher: the event log is part of the state *)
  fst (new_enforcer rbac_def (mem [pl alice data1 read; pl admin data1 write; gl alice admin; gl bob admin]) true).
Definition ex_api_fail (script : list resp) : estate := upd_adapter ex_api (AScripted (e_adapter ex_api) script).
Definition pol (sec : text) (r : estate * outcome bool) : list rule := m_get_policy (e_model (fst r)) sec sec.
Definition same_pol (sec : text) (a b : estate * outcome bool) : bool := list_eqb reqb (pol sec a) (pol sec b).
"""


def gen_defs(txt):
    return dict(re.findall(r"^Definition (gen_\w+)\b(.*?)(?=^\(\*|^Definition|\Z)", txt, re.S | re.M))


def affected(pristine, variant):
    a, b = gen_defs(pristine), gen_defs(variant)
    hit = set(n for n in b if a.get(n) != b[n])
    grew = True
    while grew:                                   # callers of changed functions
        grew = False
        for n, body in b.items():
            if n not in hit and any(re.search(r"\b%s\b" % h, body) for h in hit):
                hit.add(n)
                grew = True
    return sorted(n[4:] for n in hit if n[4:] in MODEL)


def witnesses(names, scratch):
    """-> [description of the first differing run of every function that has one]"""
    import itertools
    tests = []
    for n in names:
        kinds, model = MODEL[n]
        for st in STATES:
            for args in itertools.product(*[POOL[k] for k in kinds]):
                tests.append((n, "(gen_%s %s %s)" % (n, st, " ".join(args)), "(%s)" % model.format(*args, s=st),
                              "%s on %s with %s" % (n, st, " ".join(args))))
    if not tests:
        return []
    script = [WITNESS_HEADER]
    for k, (_, lhs, rhs, _) in enumerate(tests):
        script.append("Goal True. first [ assert (%s = %s) by (vm_compute; reflexivity); idtac \"SAME %d\" "
                      "| idtac \"DIFF %d\" ]. Abort." % (lhs, rhs, k, k))
    path = os.path.join(scratch, "ApiWitness.v")
    open(path, "w").write("\n".join(script) + "\n")
    out = run(["timeout", "600", "coqc", "-Q", COQ, "CV", path]).stdout
    first = {}
    for k in [int(x) for x in re.findall(r"^DIFF (\d+)", out, re.M)]:
        first.setdefault(tests[k][0], k)
    if not first and "SAME 0" not in out:
        return ["(witness search did not run: %s)" % " ".join(out.split())[:200]]
    script = [WITNESS_HEADER]
    for n, k in sorted(first.items()):
        _, lhs, rhs, _ = tests[k]
        script.append("Eval vm_compute in (snd %s, snd %s, same_pol s_p %s %s, same_pol s_g %s %s)."
                      % (lhs, rhs, lhs, rhs, lhs, rhs))
    open(path, "w").write("\n".join(script) + "\n")
    out = run(["timeout", "600", "coqc", "-Q", COQ, "CV", path]).stdout
    vals = re.findall(r"=\s*\((.*?)\)\s*:\s*outcome", out, re.S)
    res = []
    for (n, k), v in zip(sorted(first.items()), vals + [""] * len(first)):
        parts = [" ".join(x.split()) for x in v.split(",")]
        if len(parts) == 4:
            what = "source %s / model %s" % (parts[0], parts[1]) if parts[0] != parts[1] else "both " + parts[0]
            what += "; p rules %s, g rules %s afterwards" % tuple("equal" if x == "true" else "DIFFERENT" for x in parts[2:])
            if parts[0] == parts[1] and parts[2] == parts[3] == "true":
                what += " (the states differ elsewhere: adapter / event log / role links)"
        else:
            what = "differs"
        res.append("%s: %s" % (tests[k][3], what))
    return res


def run(cmd, **kw):
    return subprocess.run(cmd, stdout=subprocess.PIPE, stderr=subprocess.STDOUT, text=True, **kw)


def replace_body(path, fn, body):
    src = open(path, encoding="utf-8").read()
    old = pins.fn_body(src, r"\bfn\s+%s\s*\(" % fn)      # first DEFINITION (declarations are skipped)
    assert old is not None and src.count(old) == 1, fn
    open(path, "w", encoding="utf-8").write(src.replace(old, body))


def failing_theorem(out, vfile):
    m = re.search(r'File "\./%s", line (\d+).*?\n(Error:.*?)(?:\n\n|\nmake)' % re.escape(vfile), out, re.S)
    if not m:
        return " ".join(out.strip().split("\n")[-3:])[:160]
    lines = open(os.path.join(COQ, vfile)).read().split("\n")
    thm = "?"
    for k in range(int(m.group(1)) - 1, -1, -1):
        mm = re.match(r"(?:Theorem|Lemma|Example)\s+(\w+)", lines[k])
        if mm:
            thm = mm.group(1)
            break
    return "%s: %s" % (thm, " ".join(m.group(2).split())[:80])


def main(only=None):
    only = sys.argv[1:] if only is None else only
    scratch = tempfile.mkdtemp(prefix="rs2coq_api_demo_")     # outside /repo and /verif; removed at the end
    gen = os.path.join(COQ, "Gen", "ApiGen.v")
    results = []
    import rs2coq_api
    pristine = rs2coq_api.generate(lambda rel: open(os.path.join("/repo", rel), encoding="utf-8").read())[0]
    try:
        for label, expect, edits in VARIANTS:
            if only and not any(label.startswith(o) for o in only):
                continue
            shutil.rmtree(scratch, ignore_errors=True)
            shutil.copytree("/repo/src", os.path.join(scratch, "src"))
            for rel, fn, body in edits:
                replace_body(os.path.join(scratch, rel), fn, body)
            env = dict(os.environ, VERIF_REPO=scratch)
            run([sys.executable, os.path.join(HERE, "rs2coq_api.py"), gen], env=env)
            variant_txt = open(gen).read()
            mk = run(["timeout", "600", "make", "PinChecks/PcApiGen.vo"], cwd=COQ)
            ok = mk.returncode == 0
            why = ""
            if not ok:
                why = failing_theorem(mk.stdout, "PinChecks/PcApiGen.v")
                if "Gen/ApiGen.v" in mk.stdout and "Error" in mk.stdout and "PcApiGen.v\", line" not in mk.stdout:
                    why = "GENERATED FILE DOES NOT COMPILE: " + why
            notes = re.findall(r"\(\* translation of (\w+) \(.*?\) failed: (.*?) \*\)", open(gen).read(), re.S)
            note = "".join(" [untranslatable %s: %s]" % (a, " ".join(b.split())[:110]) for a, b in notes)
            wit = []
            if not ok and not notes and not why.startswith("GENERATED"):
                wit = witnesses(affected(pristine, variant_txt), scratch)
            verdict = "pass" if ok else "fail"
            flag = "as expected" if verdict == expect else "UNEXPECTED"
            print("%-4s (%s) %s%s%s" % (verdict.upper(), flag, label, (" -> " + why) if why else "", note))
            for w in wit:
                print("       witness: " + w)
            if not ok and not notes and not wit:
                print("       NO WITNESS FOUND on the concrete enforcers tried")
            sys.stdout.flush()
            results.append(verdict == expect and not why.startswith("GENERATED"))
    finally:
        env = dict(os.environ, VERIF_REPO="/repo")
        run([sys.executable, os.path.join(HERE, "rs2coq_api.py"), gen], env=env)
        mk = run(["timeout", "600", "make", "PinChecks/PcApiGen.vo"], cwd=COQ)
        print("restored from /repo:", "build ok" if mk.returncode == 0 else "BUILD FAILED")
        shutil.rmtree(scratch, ignore_errors=True)
    print("%d/%d variants behaved as expected" % (sum(results), len(results)))
    return 0 if all(results) and mk.returncode == 0 else 1


if __name__ == "__main__":
    sys.exit(main())
