"""Per-property registry used by tools/check."""

TRUSTED_BASE = [
    "Coq 8.16.1 kernel (coqc; coqchk in the thorough tier); vm_compute for witnesses/examples; no native_compute",
    "axioms: none (Print Assumptions of every property theorem is re-run and must be 'Closed under the global context')",
    "extraction to OCaml: ExtrOcamlBasic, ExtrOcamlChar, ExtrOcamlString directives only; nat/N/Z stay inductive; OCaml 4.13.1",
    "extracted/modelrun.ml (hand-written line-protocol driver), harness/ (Rust driver of the real crate), gen/*.py, tools/check, tools/pins.py",
    "the hand-written Gallina model is tied to the code only by the differential run and the source pins of this run",
]

PROPS = {
    "C02": {
        "coq": "Properties/C02.v",
        "pinchecks": ["PinChecks/PcEffector.v"],
        "gen": "c02",
        "level_text": "Coq theorems (c02_result, c02_early_final, c02_cap_complete, c02_next_readable, c02_forced_*) prove for every "
                      "effect rule and every finite sequence (unbounded length) that the streaming combiner equals the declarative "
                      "definition, that early completion is final and that it is complete at capacity; the model is tied to "
                      "src/effector.rs by an exhaustive differential run (all sequences up to N) and literal pins",
        "level_note": "trusted: Coq kernel, extraction, the differential harness; the model of effector.rs is hand-written and validated, not derived",
        "explanation": "theorems c02_* over Model/Effector.v for all rules and all sequences; "
                       "correspondence: exhaustive sequences up to N against casbin::DefaultEffector",
        "assumptions": [
            "DefaultEffector is the effector in use (Enforcer::new_raw installs it); user effectors are out of scope",
            "usize arithmetic on idx/cap does not overflow (cap = number of stored rules)",
        ],
    },
    "C03": {
        "coq": "Properties/C03.v",
        "pinchecks": ["PinChecks/PcRoleGraph.v"],
        "gen": "c03",
        "level_text": "Coq theorems over Model/RoleGraph.v, for every history of add_link/delete_link/clear and every query: the per-domain "
                      "edge set refines the set-semantics spec (c03_links_refine), has_link is sound at every depth (c03_sound) and complete "
                      "for chains shorter than the limit (c03_complete; the queue-drain depth counter is proved <= the BFS level), listings are "
                      "exactly the neighbours, other domains are untouched; the model is tied to DefaultRoleManager by a differential run "
                      "(exhaustive short histories with small limits, random long ones around the limit 10)",
        "level_note": "trusted: Coq kernel, extraction, harness; modelled not verified: petgraph adjacency order (newest edge first), HashMap/HashSet; "
                      "role/domain matching functions are not modelled (never set)",
        "explanation": "theorems c03_* over Model/RoleGraph.v; correspondence against casbin::DefaultRoleManager",
        "assumptions": [
            "no role_matching_fn / domain_matching_fn is installed (matching functions are not modelled)",
            "feature `cached` is on in the harness build: the role manager's own has_link cache is exercised by the differential run",
        ],
    },
}

NOT_CLAIMED = {}
