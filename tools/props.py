"""Per-property registry used by tools/check."""

TRUSTED_BASE = [
    "Coq 8.16.1 kernel (coqc; coqchk in the thorough tier); vm_compute for witnesses/examples; no native_compute",
    "axioms: none (Print Assumptions of every property theorem is re-run and must be 'Closed under the global context')",
    "extraction to OCaml: ExtrOcamlBasic, ExtrOcamlChar, ExtrOcamlString directives only; nat/N/Z stay inductive; OCaml 4.13.1",
    "extracted/modelrun.ml (hand-written line-protocol driver), harness/ (Rust driver of the real crate), gen/*.py, tools/check, tools/pins.py",
    "the hand-written Gallina model is tied to the code by the differential run and the source pins of this run; for the functions listed in "
    "coq/Gen/*.v the model is additionally PROVED equal to a Gallina translation of the current source text (tools/rs2coq.py, a small Rust-subset "
    "translator: trusted for 'this term is what that Rust text means' on the subset it accepts)",
]

PROPS = {
    "C02": {
        "coq": "Properties/C02.v",
        "coq_extra": ["Properties/C02src.v"],
        "pinchecks": ["PinChecks/PcEffector.v", "PinChecks/PcEffectorGen.v"] + ["PinChecks/PcEnforcer2Gen.v", "PinChecks/PcEnforceGen.v", "PinChecks/PcEnforcerGen.v", "PinChecks/PcModel2Gen.v"],
        "gen": "c02",
        "level_text": "Coq theorems (c02_result, c02_early_final, c02_cap_complete, c02_next_readable, c02_forced_*) prove for every "
                      "effect rule and every finite sequence (unbounded length) that the streaming combiner equals the declarative "
                      "definition, that early completion is final and that it is complete at capacity; the model is tied to "
                      "src/effector.rs by an exhaustive differential run (all sequences up to N) and literal pins",
        "level_note": "trusted: Coq kernel, extraction, the differential harness; the model of effector.rs is hand-written and validated, not derived",
        "explanation": "theorems c02_* over Model/Effector.v for all rules and all sequences; "
                       "correspondence: exhaustive sequences up to N against casbin::DefaultEffector",
        "assumptions": [
            "DefaultEffector is the effector in use (Enforcer::new_raw installs it); user effectors are out of scope",
            "usize arithmetic on idx/cap does not overflow (cap = number of stored rules)",
        ],
    },
    "C03": {
        "coq": "Properties/C03.v",
        "coq_extra": ["Properties/C03M.v", "Properties/RoleManagerGen.v", "Properties/C03src.v", "Properties/RmCacheGen.v", "Properties/RmCacheFindings.v"],
        "pinchecks": ["PinChecks/PcRoleGraph.v", "PinChecks/PcRoleManagerGen.v", "PinChecks/PcRmCacheGen.v"] + ["PinChecks/PcBody_frolemanager.v"],
        "gen": "c03",
        "level_text": "Coq theorems over Model/RoleGraph.v, for every history of add_link/delete_link/clear and every query: the per-domain "
                      "edge set refines the set-semantics spec (c03_links_refine), has_link is sound at every depth (c03_sound) and complete "
                      "for chains shorter than the limit (c03_complete; the queue-drain depth counter is proved <= the BFS level), listings are "
                      "exactly the neighbours, other domains are untouched. EXTENSION (Properties/C03M.v over Model/RoleGraphM.v): the role manager WITH role / "
                      "domain matching functions (Link and Match edges, pattern lookup of the start node, three-part successor iterator, matched domains) is "
                      "modelled too; it is proved to coincide with the plain model on every history when no function is installed (c03m_conservative_*), its "
                      "Match edges are characterised (c03m_match_edges_sound/complete, c03m_graph_refines), and has_link is sound at every depth and complete "
                      "below the limit against a declarative pattern-reachability specification (c03m_sound, c03m_complete, c03m_pred_model). Both models are "
                      "tied to DefaultRoleManager by a differential run (exhaustive short histories with small limits, random long ones around the limit 10; "
                      "histories with key_match/key_match2/key_match3/a symmetric function installed as role and domain patterns)",
        "level_note": "trusted: Coq kernel, extraction, harness; modelled not verified: petgraph adjacency order (newest edge first), HashMap/HashSet; "
                      "role/domain matching functions are modelled for fn pointers (the crate's key_match* and one harness-defined function are exercised); "
                      "HashMap iteration order of matched_domains is abstracted (all users are order-insensitive)",
        "explanation": "theorems c03_* over Model/RoleGraph.v; correspondence against casbin::DefaultRoleManager",
        "assumptions": [
            "the plain C03 theorems are for a manager without matching functions (the enforcer's default); with matching functions the C03M theorems apply: "
            "completeness is stated for add/clear histories with the function installed first (a delete_link may drop a Match edge: c03m_delete_can_drop_match_refuted); "
            "add_link is not monotone for a non-transitive pattern function when it creates the start node (c03m_add_link_start_change_refuted)",
            "feature `cached` is on in the harness build: the role manager's own has_link cache is exercised by the differential run",
        ],
    },
    "C01": {
        "coq": "Properties/C01.v",
        "coq_extra": ["Properties/C16e.v", "Properties/C01src.v", "Properties/ExprVal.v"],
        "pinchecks": ["PinChecks/PcBody_fenforcer.v", "PinChecks/PcEnforcer2Gen.v", "PinChecks/PcEnforceGen.v", "PinChecks/PcEnforcerGen.v", "PinChecks/PcLiterals.v", "PinChecks/PcModel2Gen.v", "PinChecks/PcEffector.v", "PinChecks/PcEffectorGen.v",
                      "PinChecks/PcIniGen.v", "PinChecks/PcBody_fconfig.v", "PinChecks/PcBody_fdefaultmodel.v", "PinChecks/PcRegexGen.v", "Gen/RegexExamples.v", "PinChecks/PcRegexFmGen.v", "PinChecks/PcStrFnGen.v"] + ["PinChecks/PcStoreGen.v", "PinChecks/PcLinksGen.v", "PinChecks/PcRoleGraph.v", "PinChecks/PcRoleManagerGen.v", "PinChecks/PcRmCacheGen.v"],
        "gen": "c01",
        "level_text": "Coq theorem c01_enforce_is_perm: for EVERY model store, matcher AST, function table, request (any arity/types), "
                      "effect rule and flag the enforcement loop of the model equals the PERM reference (per-rule outcomes in stored order, "
                      "effect-column mapping, declarative combination, an error counting only if reached; empty store = one evaluation with "
                      "empty fields); corollaries no-false-grant/no-false-deny/grant-prefix. The model of the rhai fragment, of tokenisation "
                      "and of the loop is tied to the real crate by a differential run over the documented model family + random matchers, "
                      "with the matcher text produced by the Gallina printer, and by body-hash/literal pins. Properties/C16e.v (c16e_escape_print) proves that "
                      "for every well-formed matcher AST the text the crate evaluates after escape_assertion is exactly the printed AST with its variables turned "
                      "into the tokens the evaluator looks up",
        "level_note": "trusted: Coq kernel, extraction, harness; modelled not verified: rhai's parser and evaluator on the expression fragment "
                      "(operator precedence, cross-type comparison, lazy errors), serde->Dynamic conversion; string literals containing r./p. "
                      "(escape_assertion rewrites them, D23) and non-ASCII text adjacent to r./p. are outside the generated family",
        "explanation": "theorems c01_* (enforce = PERM reference); correspondence + predicate (implementation decision = extracted perm_ref) "
                       "over model kinds x policies x links x requests",
        "assumptions": [
            "rhai evaluates the printed matcher text as the model's eval evaluates the AST (validated by the differential run only)",
            "the role manager shared by all role definitions is part of the faithful model (cross-talk between g and g2 is property C19's finding)",
        ],
    },
    "C17": {
        "coq": "Properties/C17.v",
        "coq_extra": ["Properties/C17src.v"],
        "pinchecks": ["PinChecks/PcBody_fenforcer.v", "PinChecks/PcEnforcer2Gen.v", "PinChecks/PcEnforceGen.v", "PinChecks/PcEnforcerGen.v", "PinChecks/PcLiterals.v"],
        "gen": "c17",
        "level_text": "Coq theorem c17_ctx_eq_plain: for every suffix, every model whose suffixed r/p/e/m definitions are renamed copies "
                      "(same rules under the suffixed policy type), every function state and every request, the context-qualified loop equals "
                      "the plain loop (effect columns, both arity errors, empty-policy path, evaluation errors); proof by invariance of eval under "
                      "consistent renaming of scope variables. The two loops are separately pinned to the source (body hashes, effect-token literal) "
                      "and exercised differentially on duplicated models",
        "level_note": "trusted: Coq kernel, extraction, harness; the model expresses the second loop as the first one parameterised by section keys and "
                      "effect token, drift between the two Rust copies is caught by the body-hash pins and the differential run, not by the theorem",
        "explanation": "theorem c17_ctx_eq_plain; predicate: enforce_with_context(k, rv) = enforce(rv) on duplicated models",
        "assumptions": ["eval() rule-in-policy strings are outside the renamed-copy relation (they would need renaming too)"],
    },
}


ENGINE_PINS = ["Gen/RhaiExamples.v", "PinChecks/PcBody_fenforcer.v", "PinChecks/PcBody_fdefaultmodel.v", "PinChecks/PcBody_fassertion.v", "PinChecks/PcBody_finternalapi.v", "PinChecks/PcBody_ffileadapter.v", "PinChecks/PcBody_fstringadapter.v", "PinChecks/PcMiscGen.v", "PinChecks/PcEnforcer2Gen.v", "PinChecks/PcEnforceGen.v", "PinChecks/PcEnforcerGen.v", "PinChecks/PcModel2Gen.v", "PinChecks/PcStoreGen.v", "PinChecks/PcLinksGen.v", "PinChecks/PcInternalGen.v", "PinChecks/PcFsaveGen.v", "PinChecks/PcAdaptersGen.v", "PinChecks/PcBody_fmgmtapi.v", "PinChecks/PcApiGen.v", "PinChecks/PcQueryGen.v", "PinChecks/PcBody_frbacapi.v", "PinChecks/PcRoleGraph.v", "PinChecks/PcRoleManagerGen.v", "PinChecks/PcRmCacheGen.v", "PinChecks/PcLiterals.v"]
ENGINE_NOTE = ("trusted: Coq kernel, extraction, harness; modelled not verified: hashlink LinkedHashSet/LinkedHashMap order (insert moves an existing entry "
               "to the back), petgraph adjacency order, rhai on the matcher fragment; adapters are modelled at the level of parsed lines (the CSV text level is "
               "C16/C09-text); every modelled function body is pinned by hash to the source it was aligned with")

PROPS.update({
    "C06": {
        "coq": "Properties/C06.v",
        "coq_extra": ["Properties/C06src.v"],
        "pinchecks": ["PinChecks/PcCachedGen.v", "PinChecks/PcBody_fcachedenforcer.v", "PinChecks/PcBody_fenforcer.v", "PinChecks/PcEnforcer2Gen.v", "PinChecks/PcEnforceGen.v", "PinChecks/PcEnforcerGen.v", "PinChecks/PcFmapGen.v", "PinChecks/PcBody_ffunctionmap.v", "Gen/RegexSyntaxExamples.v", "PinChecks/PcStrFnGen.v", "PinChecks/PcLiterals.v", "PinChecks/PcEffector.v", "PinChecks/PcEffectorGen.v", "PinChecks/PcModel2Gen.v",
                      "PinChecks/PcRoleGraph.v", "PinChecks/PcRoleManagerGen.v", "PinChecks/PcRmCacheGen.v"] + ["PinChecks/PcBody_ferror.v"],
        "gen": "c06",
        "partial": "never-hang / never-panic of the regex crate and of rhai is NOT a theorem: it is watchdog + catch_unwind evidence from the differential run; "
                   "the theorems cover the model's enforcement loop and built-ins",
        "level_text": "Coq theorems over the enforcement model: c06_no_panic (for ANY request list - arity, value types, contents - enforce never yields Panic unless "
                      "the model's effect text is unsupported), c06_arity (wrong arity = request error when enabled), c06_error_never_grants / "
                      "c06_decision_has_clean_prefix (a reached malformed rule or failing matcher gives Err, never a grant), c06_matchers_defined; PARTIAL: "
                      "termination and panic-freedom of the real regex/rhai engines are exercised by the string-corpus run under catch_unwind and a watchdog, "
                      "and every function on the request path is pinned by body hash (a new unwrap/index changes the hash)",
        "level_note": "trusted: Coq kernel, extraction, harness; partial by nature: run-time totality of third-party engines is not modelled",
        "explanation": "theorems c06_*; corpus of all strings of length <= 3 over a 13-symbol alphabet with 1-4 byte characters as matcher keys and request values",
        "assumptions": ["policy-side patterns come from the documented grammar (a pattern that rewrites to an invalid regex panics in regex_match: policy side)",
                        "a disabled enforcer grants everything before any check (by design): arity theorem is for enabled enforcers"],
    },
    "C15": {
        "coq": "Properties/C15.v",
        "coq_extra": ["Properties/RegexFmGen.v", "Properties/FmapGen.v", "Properties/C15src.v"],
        "pinchecks": ["PinChecks/PcFmapGen.v", "PinChecks/PcBody_ffunctionmap.v", "Gen/RegexSyntaxExamples.v", "PinChecks/PcStrFnGen.v", "PinChecks/PcLiterals.v"],
        "gen": "c15",
        "level_text": "Coq theorems: c15_key_match / c15_key_get* characterise keyMatch/keyGet for ALL byte strings; for every pattern of the documented grammar "
                      "(unbounded length) and EVERY key, the text-rewriting pipeline of keyMatch2/3/4/5, keyGet2/3 reads back as the compiled atom list "
                      "(c15_rewrite_*), the anchored matcher on it decides exactly the segment-wise specification and captures exactly the named "
                      "segments (c15_amatch_decides/_captures), hence c15_km2..km5, c15_kg2, c15_kg3; the spec itself is tied to an inductive "
                      "segs_match relation. The model of the regex class is tied to the regex crate by the differential run through the real functions",
        "level_note": "trusted: Coq kernel, extraction, harness; modelled not verified: the regex crate on the class {literal bytes, [^/]+ with/without (lazy) capture, "
                      ".*} (anchored, leftmost-first); patterns outside the grammar (regex metacharacters in literals) are outside the theorems",
        "explanation": "theorems c15_*; all grammar patterns <= 3(4) segments x all keys <= 4(5) segments + random; predicate: implementation = segment-wise spec",
        "assumptions": ["literal segments and names over [A-Za-z0-9_-]; '*' only as last segment"],
    },
    "C10": {
        "coq": "Properties/C10.v",
        "coq_extra": ["Properties/C10src.v", "Properties/FsaveGen.v"],
        "pinchecks": ENGINE_PINS + ["PinChecks/PcBody_fadaptermod.v"],
        "gen": "c10",
        "partial": "durability below the system-call layer (fsync, page cache, power loss) is outside any executable model: c10_save_atomic is about the sequence "
                   "of file-system calls the adapter issues, assuming rename is atomic",
        "level_text": "Coq theorems over the engine: c10_rejected_is_identity/_any_history (a refused or failed adapter call leaves model, role graph, log and every "
                      "query unchanged, at any point of any history), c10_failed_load_keeps_policy (all failure points of load/load_filtered), c10_clear_failed, "
                      "c10_save_failed, c10_late_error (what a late role-link error leaves), c10_save_atomic (every cut point of create-tmp/append/rename leaves "
                      "old or new content) with c10_old_save_refuted for the pre-repair protocol; known finding: two-call helpers (c10_two_call_second_fails). "
                      "Correspondence: scripted adapter at every position x 4 failure kinds; for the save clause a child process with a file-size limit at every "
                      "byte count, and faults / crashes injected at SYSTEM-CALL boundaries with strace (the n-th openat / write / close / rename / unlink / fsync / "
                      "ftruncate / fcntl touching the policy file or its temporary sibling fails with EIO, or the process is killed entering it): the file read "
                      "back must be the complete old or the complete new policy, and a save that reported success must have left the new one",
        "level_note": ENGINE_NOTE + "; rename atomicity is assumed (named in Model/FileSave.v)",
        "explanation": "theorems c10_*; fault enumeration through a scripted adapter; RLIMIT_FSIZE and strace-injected system-call faults / kills for FileAdapter::save_policy",
        "assumptions": ["rename(2) replaces the destination atomically", "the scripted adapter is a user-side Adapter implementation wrapping MemoryAdapter"],
    },
    "C14": {
        "coq": "Properties/C14.v",
        "coq_extra": ["Properties/C14src.v"],
        "pinchecks": ENGINE_PINS + ["PinChecks/PcBody_fwatcher.v"] + ["PinChecks/PcBody_femitter.v"],
        "gen": "c14",
        "level_text": "Coq theorems over the engine with a watcher: NotifyInv (exactly one callback while enabled) for every reachable state, c14_delivery_single "
                      "(Ok true = exactly one event with the exact payload; Ok false / adapter error = none; late error = delivered), c14_filtered_payload, "
                      "c14_delivery_clear/_save, c14_replica_eq (folding the log into an ideal ordered-set replica equals the primary's p and g lists, in order, "
                      "at every prefix of every history whose mutating calls run with notifications on, any toggles in between). The EXTRACTED predicate c14_pred "
                      "is evaluated on the implementation's recorded event stream",
        "level_note": ENGINE_NOTE,
        "explanation": "theorems c14_*; recording watcher; extracted c14_pred on implementation traces",
        "assumptions": ["loads / set_model / set_adapter are not notified (by design, stated as c14_replica_excludes_load)",
                        "every role definition has >= 2 placeholders (guaranteed when construction succeeded)"],
    },
    "C09": {
        "coq": "Properties/C09.v",
        "coq_extra": ["Properties/C09text.v", "Properties/C16q.v", "Properties/C09src.v"],
        "pinchecks": ENGINE_PINS + ["PinChecks/PcIniGen.v", "PinChecks/PcBody_fconfig.v", "PinChecks/PcBody_fdefaultmodel.v", "PinChecks/PcRegexGen.v", "Gen/RegexExamples.v", "PinChecks/PcRegexFmGen.v", "PinChecks/PcStrFnGen.v"],
        "gen": "c09",
        "level_text": "Coq theorems: AdapterSync (MemoryAdapter lines = in-memory policy, rule for rule, same order) holds after construction and is preserved by "
                      "EVERY management call with auto-save on - accepted, duplicate, refused, failed, late role-link error, panic (c09_step, c09_history, "
                      "c09_every_prefix); c09_reload_identity; c09_roundtrip for Memory/File/String at the parsed-line level; the text level (save then load "
                      "= identity for csv-safe values) is Properties/C09text.v when present / C16. Correspondence: reload of the adapter into a scratch model "
                      "after every call; save/load round trips with csv-safe values incl. commas",
        "level_note": ENGINE_NOTE,
        "explanation": "theorems c09_*; reload-equals-current after every call; save/load round trips over the three bundled adapters",
        "assumptions": ["policy-type keys start with their section letter (p, p2, g, g2): save derives the section from the key's first character",
                        "values are csv-safe for the text adapters (commas allowed via quoting)"],
    },
    "C08": {
        "coq": "Properties/C08.v",
        "coq_extra": ["Properties/C08src.v"],
        "pinchecks": ENGINE_PINS + ["PinChecks/PcEffector.v", "PinChecks/PcEffectorGen.v"],
        "gen": "c08",
        "level_text": "Coq theorems: c08_eval_mono (negation-free matchers are monotone in the role relation), c08_has_link_mono (edge inclusion preserves "
                      "has_link below the depth limit), c08_add_rule_keeps_grants / c08_remove_rule_keeps_denials, c08_add_link_keeps_grants / "
                      "c08_remove_link_keeps_denials (allow-override), c08_add_deny_never_grants / c08_remove_deny_never_denies (every effect rule), "
                      "for every request; each added hypothesis (shallow hierarchy, non-empty policy, graph-independent == operands) has a refutation witness",
        "level_note": ENGINE_NOTE,
        "explanation": "theorems c08_*; single additions/removals x request cross product; containment predicate on the implementation's decisions",
        "assumptions": ["hierarchies below the depth limit (the property's own clause; c08_add_link_needs_shallow shows why)",
                        "the policy is non-empty before/after (the empty-policy pseudo-rule is not monotone: c08_add_rule_needs_nonempty)"],
    },
    "C19": {
        "coq": "Properties/C19.v",
        "coq_extra": ["Properties/C19src.v"],
        "pinchecks": ENGINE_PINS,
        "gen": "c19",
        "level_text": "The full statement is REFUTED on reachable states of the faithful model (c19_full_statement_refuted; known finding D7: one role manager "
                      "shared by all definitions). Proved: c19_independent_partial / _classified (outside the decidable class known_shared_rm_case - graph out of "
                      "sync or a cross-talk role call during this evaluation - enforce equals the per-definition semantics enforce_indep), c19_store_independent "
                      "(stored rules of one definition are never touched by calls on another). The check evaluates the extracted c19_pred and classifier: a "
                      "deviation inside the class is the KNOWN-FINDING, any other is a violation",
        "level_note": ENGINE_NOTE,
        "explanation": "theorems c19_*; two-definition models over a shared name universe; extracted enforce_indep and classifier on implementation decisions",
        "assumptions": ["hierarchies below the depth limit"],
    },
})

PROPS.update({
    "C04": {
        "coq": "Properties/C04.v",
        "coq_extra": ["Properties/SrcStep.v", "Properties/C04src.v", "Properties/Model2Gen.v", "Properties/Linking.v", "Properties/MiscGen.v", "Properties/Linking2.v"],
        "pinchecks": ENGINE_PINS,
        "gen": "c04",
        "level_text": "Coq theorems over the engine: StoreInv (duplicate-free lists) for every reachable state of every history (c04_inv_run); each model-level "
                      "operation equals a declarative ideal ordered set on the addressed list and touches nothing else (c04_model_ops); lifted to the management "
                      "and RBAC API for every adapter response (c04_accept, c04_refuse, c04_rbac_*, c04_clear_*), with the exact characterisation of the late role-link "
                      "error (c04_answer_ok_iff); flag = change (c04_flag_is_change), no-change = identity incl. all decisions (c04_false_is_identity, "
                      "c04_false_keeps_decisions); every read view is the obvious function of the list (c04_view_*). The EXTRACTED ideal replay c04_check is "
                      "evaluated on the implementation's results and store dumps after every call",
        "level_note": ENGINE_NOTE,
        "explanation": "theorems c04_*; exhaustive histories of length <= 2 + random up to 200 over Memory/Null/File adapters; extracted c04_check on implementation traces",
        "assumptions": ["for section g with auto-build on, an Ok answer needs well-formed grouping rules / a graph in sync (c04_answer_fine, GSync); otherwise the call "
                        "answers Err after the store changed (stated exactly, c04_answer_ok_iff)"],
    },
    "C05": {
        "coq": "Properties/C05.v",
        "coq_extra": ["Properties/C05src.v"],
        "pinchecks": ENGINE_PINS,
        "gen": "c05",
        "level_text": "Coq theorems: the invariant RoleSync (edge set of every domain = links of the stored grouping rules, handles and g-functions on the current "
                      "manager) holds after construction and is preserved by EVERY operation with auto-build on - accepted, refused, failed, no-change, batch, "
                      "filtered, RBAC helpers, clear, loads, set_role_manager, set_model, set_adapter (c05_step, c05_run_ops, c05_history_sync); under it no "
                      "role-link error can occur (c05_no_link_error) and an explicit rebuild changes no role query and, below the depth limit, no decision "
                      "(c05_rebuild_noop, c05_rebuild_ask, c05_history). Side conditions g_exact (D25) and defs_disjoint (D7) each have a refutation witness",
        "level_note": ENGINE_NOTE,
        "explanation": "theorems c05_*; grouping histories incl. reloads/clear/set_role_manager; all decisions and role queries before and after build_role_links at every step",
        "assumptions": ["g_exact: grouping rules have exactly as many fields as their definition has placeholders (otherwise finding D25, witness c05_g_exact_refuted)",
                        "defs_disjoint: two role definitions do not assert the same link (otherwise finding D7)",
                        "hierarchies below the depth limit for the decision clause (c05_deep_rebuild_refuted)"],
    },
    "C07": {
        "coq": "Properties/C07.v",
        "coq_extra": ["Properties/C07src.v"],
        "pinchecks": ENGINE_PINS,
        "gen": "c07",
        "level_text": "Coq theorems: c07_view_preserved (a call confined to another domain leaves the observed domain's rules, grouping rules and graph untouched, "
                      "whatever its outcome), c07_decided_by_view (two states agreeing on the view of d decide every request of d equally, all four effect rules, "
                      "rules of other domains evaluate to indeterminate without error), role queries by view, c07_isolation over any history of confined calls",
        "level_note": ENGINE_NOTE,
        "explanation": "theorems c07_*; three domains sharing names; every confined call and random confined histories; observed-domain block before/after",
        "assumptions": ["the observed domain is not the empty string (c07_empty_domain_not_isolated: the empty-policy path)", "stored policy rules have the definition's arity "
                        "(c07_malformed_foreign_rule_breaks_tenant: a short foreign rule turns decisions into errors)"],
    },
    "C12": {
        "coq": "Properties/C12.v",
        "coq_extra": ["Properties/C12src.v"],
        "pinchecks": ENGINE_PINS + ["PinChecks/PcBody_fadaptermod.v"],
        "gen": "c12",
        "level_text": "Coq theorems for File, Memory and String adapters: the filtered load equals filter_spec applied to the full load, for any lines and filters "
                      "(c12_load_filtered_general), never panics (c12_load_filtered_total), the flag is exactly 'some line was left out' (c12_flag_meaning, "
                      "c12_flag_iff_rule_missing), a full load resets it, a filtered enforcer's save_policy is refused with the store untouched (c12_save_guard), "
                      "the constructor skips the load for a filtered adapter. The EXTRACTED c12_pred is evaluated on the implementation's dumps",
        "level_note": ENGINE_NOTE,
        "explanation": "theorems c12_*; 4 stores x all filters x 3 adapters; extracted c12_pred",
        "assumptions": ["the flag also counts left-out lines of policy types the model does not know (c12_flag_needs_all_known)"],
    },
    "C13": {
        "coq": "Properties/C13.v",
        "coq_extra": ["Properties/QueryGen.v", "Properties/SrcAsk.v", "Properties/C13src.v"],
        "pinchecks": ENGINE_PINS,
        "gen": "c13",
        "level_text": "Coq theorems in RBAC scope (plain and domain variant): implicit roles = transitive closure (fuel adequacy proved), implicit permissions = rules "
                      "of the user or its implicit roles (exact list), enforce = Ok(membership among implicit permissions) (c13_enforce_iff_perm), roles/users "
                      "inverse views, delete_user/delete_role/delete_permission remove exactly the matching rules and the deleted entity is powerless afterwards, "
                      "implicit users; stable over any management history (c13_after_any_history)",
        "level_note": ENGINE_NOTE,
        "explanation": "theorems c13_*; random RBAC graphs with cycles/diamonds reached by histories; predicate computed from the implementation's own rule dumps",
        "assumptions": ["hierarchies below the depth limit (c13_needs_shallow)", "names are non-empty (the empty string is a wildcard in the filtered APIs)"],
    },
})

PROPS.update({
    "C11": {
        "coq": "Properties/C11.v",
        "coq_extra": ["Properties/C11src.v", "Properties/Model2Gen.v"],
        "pinchecks": ENGINE_PINS + ["PinChecks/PcBody_fcachedenforcer.v", "PinChecks/PcCachedGen.v", "PinChecks/PcBody_femitter.v", "PinChecks/PcCached.v"],
        "gen": "c11",
        "level_text": "Coq theorems over Model/Cached.v: cache coherence is an invariant of every history over the complete mutating surface and every request "
                      "(c11_coherent_reachable), a call that keeps the cache changes no decision (c11_noclear_no_change), the cached step refines the plain step "
                      "(c11_call_refines), hence c11_same_decisions: for ALL histories of calls and plain/context-qualified requests the cached outputs equal the "
                      "uncached ones - for every eviction behaviour (c11_same_decisions_any); the role manager's own has_link cache likewise (c11_rm_same_answers). "
                      "The table of which CachedEnforcer method clears is pinned to the source (inventory pin); necessity witnesses for each clear",
        "level_note": ENGINE_NOTE + "; assumed: the 64-bit SipHash of request values is injective on the keys in play; mini-moka is modelled as a map that may forget",
        "explanation": "theorems c11_*; Enforcer and CachedEnforcer in lock-step over the complete mutating surface, every request issued twice",
        "assumptions": ["hash injectivity on explored keys", "state changes made through handles obtained from get_role_manager()/get_mut_model() bypass the API (out of scope)"],
    },
    "C18": {
        "coq": "Properties/C18.v",
        "coq_extra": ["Properties/C18obs.v", "Properties/C18src.v", "Properties/C18obssrc.v"],
        "pinchecks": ENGINE_PINS,
        "gen": "c18",
        "level_text": "Coq theorems: after a successful set_model / set_adapter the state is st_equiv (identical answers to EVERY query, c18_ask_equiv) - indeed model "
                      "store, adapter and role manager are equal - to the enforcer freshly built from the same definition, adapter and components (c18_set_model, "
                      "c18_set_adapter and the _now/_leftovers forms); set_role_manager / set_effector / add_function under the decidable Synced hypothesis; the "
                      "invariant Settled is kept by every sequence of reconfiguration calls (c18_sequences). Each hypothesis (auto-build on, adapter not marked "
                      "filtered, no leftover role functions, Synced, ...) has a refutation witness; c18_set_model_needs_registration documents repaired D14. "
                      "Properties/C18obs.v closes the former gap: under the observational ObsSynced (store reloads exactly, role graph agrees with the stored "
                      "grouping rules as SETS, shallow) - proved to hold after EVERY history of incremental management calls over a memory adapter "
                      "(c18obs_reachable) - set_role_manager / set_effector / add_function answer every query like the freshly built enforcer "
                      "(c18obs_set_role_manager / _set_effector / _add_function, c18obs_after_history); shallow and reparse_ok have necessity witnesses",
        "partial": "",
        "level_note": ENGINE_NOTE,
        "explanation": "theorems c18_*; reconfigured enforcer vs freshly built twin on every query",
        "assumptions": ["the new model calls only role definitions it defines (registered role functions are never unregistered)",
                        "the adapter is not pre-marked filtered (the constructor then skips the load while set_adapter does not)"],
    },
})

PROPS.update({
    "C20": {
        "coq": "Properties/C20.v",
        "coq_extra": ["Properties/LocksGen.v"],
        "pinchecks": ["PinChecks/PcLocks.v", "PinChecks/PcLocksGen.v", "PinChecks/PcFmapGen.v", "PinChecks/PcBody_ffunctionmap.v", "Gen/RegexSyntaxExamples.v", "PinChecks/PcStrFnGen.v", "PinChecks/PcRegexFmGen.v", "PinChecks/PcModel2Gen.v", "PinChecks/PcBody_frbacapi.v", "PinChecks/PcEnforcer2Gen.v", "PinChecks/PcEnforceGen.v", "PinChecks/PcEnforcerGen.v", "PinChecks/PcBody_fcachedenforcer.v", "PinChecks/PcCachedGen.v"] + ["PinChecks/PcCached.v", "PinChecks/PcRoleGraph.v", "PinChecks/PcRoleManagerGen.v", "PinChecks/PcRmCacheGen.v"],
        "gen": "c20",
        "partial": "PARTIAL by nature: the theorems are about an abstract small-step semantics of two writer-preferring, non-re-entrant read-write locks and the "
                   "thread programs the code follows; that rustc / parking_lot / mini-moka / rhai implement those semantics (memory model, fairness, Send/Sync "
                   "soundness) and the actual absence of hangs at run time are exercised by the stress run under a watchdog, not proved",
        "level_text": "Coq theorems over Model/Locks.v for ANY number of threads, any call lists and any interleaving: the protocol invariant (c20_inv_reachable: lock "
                      "bookkeeping, no re-acquisition, no acquisition while holding the role-manager lock), deadlock freedom (c20_progress, c20_stuck_is_done), "
                      "termination (c20_no_infinite_run, c20_fair_completes), and linearisability of enforce under the outer read lock: all reads of one enforce call "
                      "see one version with no management call in progress, versions are prefixes of the serial write order (c20_seen_structure, "
                      "c20_reads_are_snapshots, c20_no_writer_single_thread); the shape 'every guard is a statement temporary' is pinned to the source; "
                      "c20_nested_read_deadlocks shows what the pin protects. Stress: 2-16 threads against a serial oracle under a watchdog",
        "level_note": "trusted: Coq kernel, harness; NOT verified: the real lock/cache/engine implementations and scheduler (stress-tested only)",
        "explanation": "theorems c20_* over an abstract lock semantics; stress run with serial oracle",
        "assumptions": ["handle threads only READ the role manager (a handle thread that writes links concurrently breaks per-decision linearisability by design)",
                        "handle reads are atomic per read only (c20_handle_sees_in_call)"],
    },
})

PROPS.update({
    "C16": {
        "coq": "Properties/C16.v",
        "coq_extra": ["Properties/C16q.v", "Properties/C09text.v", "Properties/C16e.v", "Properties/RegexGen.v", "Properties/IniGen.v", "Properties/C16src.v"],
        "pinchecks": ["PinChecks/PcIniGen.v", "PinChecks/PcBody_fconfig.v", "PinChecks/PcBody_fdefaultmodel.v", "PinChecks/PcRegexGen.v", "Gen/RegexExamples.v", "PinChecks/PcRegexFmGen.v", "PinChecks/PcStrFnGen.v", "PinChecks/PcModel2Gen.v", "PinChecks/PcStoreGen.v", "PinChecks/PcLinksGen.v", "PinChecks/PcFsaveGen.v", "PinChecks/PcAdaptersGen.v", "PinChecks/PcLiterals.v"] + ["PinChecks/PcBody_ffrontend.v"],
        "gen": "c16",
        "level_text": "Coq theorems at BYTE level over Model/Csv.v and Model/Ini.v (validated against the real functions through the cfg(casbin_verif) hooks): "
                      "c16_parse_render_row (every csv-safe row under every spacing/quoting layout parses back, scanner fuel proved adequate), file level with "
                      "comment/blank lines and CRLF (c16_parsed_lines_file), the adapters' save text parses to the stored lines (C09text.v: save then load = "
                      "identity for csv-safe values); c16_parse_layout / c16_layout_independence (blank/comment lines, spacing, CRLF, continuation breaks: same "
                      "definitions, matcher values modulo white space), escape_assertion lemmas, c16_to_text_roundtrip_structural (model_of_text (to_text m) = "
                      "Some m under decidable well-formedness, any replacement order); witnesses for every restriction (D17, D18, D21, token inside a longer "
                      "word). The extracted c16_csv_pred / c16_model_equiv are evaluated on the implementation's outputs",
        "partial": "totality on arbitrary text is a Gallina fact for the model; for the real code it is the noise stream under catch_unwind plus body-hash pins; "
                   "the whole-model lift of field-list spacing is shown by examples only (escape_assertion (print_expr e) = print_expr_tok e is now a theorem, C16e.v)",
        "level_note": "trusted: Coq kernel, extraction, harness, the guarded hook re-exports; modelled not verified: the regex crate's find_iter on ESC_C / ESC_A "
                      "(restated as deterministic scanners), Unicode white space beyond ASCII is outside the byte-level model",
        "explanation": "theorems c16_* and c09_* (text); policy lines x layouts, model texts x layouts, to_text round trip, noise / mutated texts",
        "assumptions": ["values are csv-safe (non-empty, no double quote, no line break; leading/trailing white space only for values written in quotes, "
                        "i.e. containing a comma or quoted by the layout: classes csv_safe / csv_safe_r / col_ok, Properties/C16q.v)",
                        "layout grammar excludes a comment or blank line inside a continuation (D21) and breaks inside lexemes / string literals"],
    },
})

NOT_CLAIMED = {}
