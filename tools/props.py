"""Per-property registry used by tools/check."""

TRUSTED_BASE = [
    "Coq 8.16.1 kernel (coqc; coqchk in the thorough tier); vm_compute for witnesses/examples; no native_compute",
    "axioms: none (Print Assumptions of every property theorem is re-run and must be 'Closed under the global context')",
    "extraction to OCaml: ExtrOcamlBasic, ExtrOcamlChar, ExtrOcamlString directives only; nat/N/Z stay inductive; OCaml 4.13.1",
    "extracted/modelrun.ml (hand-written line-protocol driver), harness/ (Rust driver of the real crate), gen/*.py, tools/check, tools/pins.py",
    "the hand-written Gallina model is tied to the code only by the differential run and the source pins of this run",
]

PROPS = {
    "C02": {
        "coq": "Properties/C02.v",
        "pinchecks": ["PinChecks/PcEffector.v"],
        "gen": "c02",
        "level_text": "Coq theorems (c02_result, c02_early_final, c02_cap_complete, c02_next_readable, c02_forced_*) prove for every "
                      "effect rule and every finite sequence (unbounded length) that the streaming combiner equals the declarative "
                      "definition, that early completion is final and that it is complete at capacity; the model is tied to "
                      "src/effector.rs by an exhaustive differential run (all sequences up to N) and literal pins",
        "level_note": "trusted: Coq kernel, extraction, the differential harness; the model of effector.rs is hand-written and validated, not derived",
        "explanation": "theorems c02_* over Model/Effector.v for all rules and all sequences; "
                       "correspondence: exhaustive sequences up to N against casbin::DefaultEffector",
        "assumptions": [
            "DefaultEffector is the effector in use (Enforcer::new_raw installs it); user effectors are out of scope",
            "usize arithmetic on idx/cap does not overflow (cap = number of stored rules)",
        ],
    },
    "C03": {
        "coq": "Properties/C03.v",
        "pinchecks": ["PinChecks/PcRoleGraph.v"],
        "gen": "c03",
        "level_text": "Coq theorems over Model/RoleGraph.v, for every history of add_link/delete_link/clear and every query: the per-domain "
                      "edge set refines the set-semantics spec (c03_links_refine), has_link is sound at every depth (c03_sound) and complete "
                      "for chains shorter than the limit (c03_complete; the queue-drain depth counter is proved <= the BFS level), listings are "
                      "exactly the neighbours, other domains are untouched; the model is tied to DefaultRoleManager by a differential run "
                      "(exhaustive short histories with small limits, random long ones around the limit 10)",
        "level_note": "trusted: Coq kernel, extraction, harness; modelled not verified: petgraph adjacency order (newest edge first), HashMap/HashSet; "
                      "role/domain matching functions are not modelled (never set)",
        "explanation": "theorems c03_* over Model/RoleGraph.v; correspondence against casbin::DefaultRoleManager",
        "assumptions": [
            "no role_matching_fn / domain_matching_fn is installed (matching functions are not modelled)",
            "feature `cached` is on in the harness build: the role manager's own has_link cache is exercised by the differential run",
        ],
    },
    "C01": {
        "coq": "Properties/C01.v",
        "pinchecks": ["PinChecks/PcBody_enf.v", "PinChecks/PcLiterals.v", "PinChecks/PcBody_fmacros.v", "PinChecks/PcEffector.v",
                      "PinChecks/PcBody_fconvert.v", "PinChecks/PcBody_util.v"],
        "gen": "c01",
        "level_text": "Coq theorem c01_enforce_is_perm: for EVERY model store, matcher AST, function table, request (any arity/types), "
                      "effect rule and flag the enforcement loop of the model equals the PERM reference (per-rule outcomes in stored order, "
                      "effect-column mapping, declarative combination, an error counting only if reached; empty store = one evaluation with "
                      "empty fields); corollaries no-false-grant/no-false-deny/grant-prefix. The model of the rhai fragment, of tokenisation "
                      "and of the loop is tied to the real crate by a differential run over the documented model family + random matchers, "
                      "with the matcher text produced by the Gallina printer, and by body-hash/literal pins",
        "level_note": "trusted: Coq kernel, extraction, harness; modelled not verified: rhai's parser and evaluator on the expression fragment "
                      "(operator precedence, cross-type comparison, lazy errors), serde->Dynamic conversion; string literals containing r./p. "
                      "(escape_assertion rewrites them, D23) and non-ASCII text adjacent to r./p. are outside the generated family",
        "explanation": "theorems c01_* (enforce = PERM reference); correspondence + predicate (implementation decision = extracted perm_ref) "
                       "over model kinds x policies x links x requests",
        "assumptions": [
            "rhai evaluates the printed matcher text as the model's eval evaluates the AST (validated by the differential run only)",
            "the role manager shared by all role definitions is part of the faithful model (cross-talk between g and g2 is property C19's finding)",
        ],
    },
    "C17": {
        "coq": "Properties/C17.v",
        "pinchecks": ["PinChecks/PcBody_enf.v", "PinChecks/PcLiterals.v"],
        "gen": "c17",
        "level_text": "Coq theorem c17_ctx_eq_plain: for every suffix, every model whose suffixed r/p/e/m definitions are renamed copies "
                      "(same rules under the suffixed policy type), every function state and every request, the context-qualified loop equals "
                      "the plain loop (effect columns, both arity errors, empty-policy path, evaluation errors); proof by invariance of eval under "
                      "consistent renaming of scope variables. The two loops are separately pinned to the source (body hashes, effect-token literal) "
                      "and exercised differentially on duplicated models",
        "level_note": "trusted: Coq kernel, extraction, harness; the model expresses the second loop as the first one parameterised by section keys and "
                      "effect token, drift between the two Rust copies is caught by the body-hash pins and the differential run, not by the theorem",
        "explanation": "theorem c17_ctx_eq_plain; predicate: enforce_with_context(k, rv) = enforce(rv) on duplicated models",
        "assumptions": ["eval() rule-in-policy strings are outside the renamed-copy relation (they would need renaming too)"],
    },
}

NOT_CLAIMED = {}
