#!/usr/bin/env python3
"""Robustness / sensitivity demonstration for part 9 of rs2coq (the bundled adapters: tools/rs2coq_adapters.py,
coq/Gen/AdaptersGen.v, coq/PinChecks/PcAdaptersGen.v).

For every variant: copy /repo/src to a scratch repo (tempfile.mkdtemp()), replace the body of one function of
memory_adapter.rs / file_adapter.rs / string_adapter.rs, run the translator on the scratch repo, rebuild
PinChecks/PcAdaptersGen.vo and compare the outcome with the expectation (meaning-preserving rewrite -> the proofs
pass unchanged; change of meaning / outside the subset -> a proof or the translation fails).  For a failing variant
that WAS translated, a concrete input on which the translated function and the model differ is looked for by
vm_compute on a few fixed inputs, so that a failed proof is seen to be a change of meaning and not a weakness of
the tactic.  The pristine generated file is restored at the end.

usage: python3 tools/rs2coq_demo_adapters.py [label-prefix ..]      e.g. `rs2coq_demo_adapters.py AP` for the rewrites only
"""
import os
import re
import shutil
import subprocess
import sys
import tempfile

HERE = os.path.dirname(os.path.abspath(__file__))
ROOT = os.path.dirname(HERE)
COQ = os.path.join(ROOT, "coq")
SCRATCH = tempfile.mkdtemp(prefix="rs2coq_demo_adapters_")     # outside /repo and /verif; removed at the end
sys.path.insert(0, HERE)
import pins  # noqa: E402

MA = "src/adapter/memory_adapter.rs"
FA = "src/adapter/file_adapter.rs"
SA = "src/adapter/string_adapter.rs"
MEM_IMPL = r"impl\s+Adapter\s+for\s+MemoryAdapter"
STR_IMPL = r"impl\s+Adapter\s+for\s+StringAdapter"

LOOKUP_INSERT = """if let Some(ast_map) = m.get_mut_model().get_mut(sec) {
                    if let Some(ast) = ast_map.get_mut(ptype) {
                        ast.get_mut_policy().insert(rule);
                    }
                }"""

# (label, expectation, file, impl regex | None, function, new body)
VARIANTS = [
    ("AP0 unmodified sources", "pass", None, None, None, None),
    ("AP1 add_policy: insert-if-absent with an early `return Ok(true)`, refusal in the tail", "pass", MA, MEM_IMPL, "add_policy", """{
        rule.insert(0, ptype.to_owned());
        rule.insert(0, sec.to_owned());
        if !self.policy.contains(&rule) {
            self.policy.insert(rule);
            return Ok(true);
        }
        Ok(false)
    }"""),
    ("AP2 remove_filtered_policy: renamed locals, opposite polarity (`keep`), nested ifs instead of &&, "
     "`if v.is_empty() {} else if ..`, index written 2 + field_index + k, operands of != swapped", "pass",
     MA, MEM_IMPL, "remove_filtered_policy", """{
        if field_values.is_empty() {
            return Ok(false);
        }
        let mut survivors = LinkedHashSet::new();
        let mut removed_any = false;
        for line in self.policy.iter() {
            let mut keep = true;
            if sec == line[0] {
                if ptype == line[1] {
                    keep = false;
                    for (k, wanted) in field_values.iter().enumerate() {
                        if wanted.is_empty() {
                            // wildcard
                        } else if wanted != &line[2 + field_index + k] {
                            keep = true;
                            break;
                        }
                    }
                }
            }
            if keep {
                survivors.insert(line.clone());
            } else {
                removed_any = true;
            }
        }
        self.policy = survivors;
        Ok(removed_any)
    }"""),
    ("AP3 MemoryAdapter::load_filtered_policy: `else if sec == \"g\"`, flag renamed, comparison operands swapped, "
     "`if skip { .. } else if let ..`", "pass", MA, MEM_IMPL, "load_filtered_policy", """{
        self.is_filtered = false;
        for line in self.policy.iter() {
            let sec = &line[0];
            let ptype = &line[1];
            let rule = line[2..].to_vec();
            let mut skip = false;
            if sec == "p" {
                for (i, r) in f.p.iter().enumerate() {
                    if r.is_empty() {
                    } else if rule.get(i) != Some(&r.to_string()) {
                        skip = true;
                    }
                }
            } else if sec == "g" {
                for (i, r) in f.g.iter().enumerate() {
                    if !r.is_empty() && rule.get(i) != Some(&r.to_string()) {
                        skip = true;
                    }
                }
            }
            if skip {
                self.is_filtered = true;
            } else if let Some(ast_map) = m.get_mut_model().get_mut(sec) {
                if let Some(ast) = ast_map.get_mut(ptype) {
                    ast.get_mut_policy().insert(rule);
                }
            }
        }
        Ok(())
    }"""),
    ("AP4 file_adapter load_filtered_policy_line written as string_adapter.rs has it (`let rule = tokens[1..]`, "
     "`rule.get(i)`), with `return is_filtered;` and a `false` tail", "pass", FA, None, "load_filtered_policy_line", """{
    if line.is_empty() || line.starts_with('#') {
        return false;
    }
    if let Some(tokens) = parse_csv_line(line) {
        let key = &tokens[0];
        let rule = tokens[1..].to_vec();
        let mut is_filtered = false;
        if let Some(ref sec) = key.chars().next().map(|x| x.to_string()) {
            if sec == "p" {
                for (i, r) in f.p.iter().enumerate() {
                    if !r.is_empty() && Some(&r.to_string()) != rule.get(i) {
                        is_filtered = true;
                    }
                }
            }
            if sec == "g" {
                for (i, r) in f.g.iter().enumerate() {
                    if !r.is_empty() && Some(&r.to_string()) != rule.get(i) {
                        is_filtered = true;
                    }
                }
            }
            if !is_filtered {
                if let Some(ast_map) = m.get_mut_model().get_mut(sec) {
                    if let Some(ast) = ast_map.get_mut(key) {
                        ast.policy.insert(rule);
                    }
                }
            }
        }
        return is_filtered;
    }
    false
}"""),
    ("AP5 save_policy: the stored line built by vec![sec, ptype] + extend instead of two insert(0, ..)", "pass",
     MA, MEM_IMPL, "save_policy", """{
        self.policy.clear();

        if let Some(ast_map) = m.get_model().get("p") {
            for (ptype, ast) in ast_map {
                if let Some(sec) = ptype.chars().next().map(|x| x.to_string()) {
                    for policy in ast.get_policy() {
                        let mut line = vec![sec.clone(), ptype.clone()];
                        line.extend(policy.clone());
                        self.policy.insert(line);
                    }
                }
            }
        }

        if let Some(ast_map) = m.get_model().get("g") {
            for (ptype, ast) in ast_map {
                if let Some(sec) = ptype.chars().next().map(|x| x.to_string()) {
                    for policy in ast.get_policy() {
                        let mut line = vec![sec.clone(), ptype.clone()];
                        line.extend(policy.clone());
                        self.policy.insert(line);
                    }
                }
            }
        }

        Ok(())
    }"""),
    ("AP6 remove_policy: contains + remove + early return instead of the value of remove", "pass",
     MA, MEM_IMPL, "remove_policy", """{
        rule.insert(0, ptype.to_owned());
        rule.insert(0, sec.to_owned());
        if self.policy.contains(&rule) {
            self.policy.remove(&rule);
            return Ok(true);
        }
        Ok(false)
    }"""),
    ("AN1 (i) remove_filtered_policy selects with `sec == rule[0] || ptype == rule[1]`", "fail", MA, MEM_IMPL,
     "remove_filtered_policy", """{
        if field_values.is_empty() {
            return Ok(false);
        }

        let mut tmp = LinkedHashSet::new();
        let mut res = false;
        for rule in &self.policy {
            if sec == rule[0] || ptype == rule[1] {
                let mut matched = true;
                for (i, field_value) in field_values.iter().enumerate() {
                    if !field_value.is_empty()
                        && &rule[field_index + i + 2] != field_value
                    {
                        matched = false;
                        break;
                    }
                }

                if matched {
                    res = true;
                } else {
                    tmp.insert(rule.clone());
                }
            } else {
                tmp.insert(rule.clone());
            }
        }
        self.policy = tmp;

        Ok(res)
    }"""),
    ("AN2 (ii) remove_filtered_policy enumerates the filter values after dropping the empty ones "
     "(`filter(|v| !v.is_empty()).enumerate()`: the compared columns shift)", "fail", MA, MEM_IMPL,
     "remove_filtered_policy", """{
        if field_values.is_empty() {
            return Ok(false);
        }

        let mut tmp = LinkedHashSet::new();
        let mut res = false;
        for rule in &self.policy {
            if sec == rule[0] && ptype == rule[1] {
                let mut matched = true;
                for (i, field_value) in field_values.iter().filter(|v| !v.is_empty()).enumerate() {
                    if &rule[field_index + i + 2] != field_value {
                        matched = false;
                        break;
                    }
                }

                if matched {
                    res = true;
                } else {
                    tmp.insert(rule.clone());
                }
            } else {
                tmp.insert(rule.clone());
            }
        }
        self.policy = tmp;

        Ok(res)
    }"""),
    ("AN2b (ii, inside the subset) the same shift written with a counter of the non-empty values", "fail", MA, MEM_IMPL,
     "remove_filtered_policy", """{
        if field_values.is_empty() {
            return Ok(false);
        }

        let mut tmp = LinkedHashSet::new();
        let mut res = false;
        for rule in &self.policy {
            if sec == rule[0] && ptype == rule[1] {
                let mut matched = true;
                let mut col = 0;
                for field_value in field_values.iter() {
                    if !field_value.is_empty() {
                        if &rule[field_index + col + 2] != field_value {
                            matched = false;
                            break;
                        }
                        col = col + 1;
                    }
                }

                if matched {
                    res = true;
                } else {
                    tmp.insert(rule.clone());
                }
            } else {
                tmp.insert(rule.clone());
            }
        }
        self.policy = tmp;

        Ok(res)
    }"""),
    ("AN3 (iii) MemoryAdapter::load_filtered_policy applies the grouping filter only when `ptype == \"g\"`", "fail",
     MA, MEM_IMPL, "load_filtered_policy", """{
        self.is_filtered = false;
        for line in self.policy.iter() {
            let sec = &line[0];
            let ptype = &line[1];
            let rule = line[2..].to_vec();
            let mut is_filtered = false;

            if sec == "p" {
                for (i, r) in f.p.iter().enumerate() {
                    if !r.is_empty() && Some(&r.to_string()) != rule.get(i) {
                        is_filtered = true;
                    }
                }
            }
            if ptype == "g" {
                for (i, r) in f.g.iter().enumerate() {
                    if !r.is_empty() && Some(&r.to_string()) != rule.get(i) {
                        is_filtered = true;
                    }
                }
            }

            if !is_filtered {
                if let Some(ast_map) = m.get_mut_model().get_mut(sec) {
                    if let Some(ast) = ast_map.get_mut(ptype) {
                        ast.get_mut_policy().insert(rule);
                    }
                }
            } else {
                self.is_filtered = true;
            }
        }
        Ok(())
    }"""),
    ("AN4 (iv) add_policy moves an existing line to the back (`Ok(self.policy.insert(rule))` without the test)", "fail",
     MA, MEM_IMPL, "add_policy", """{
        rule.insert(0, ptype.to_owned());
        rule.insert(0, sec.to_owned());

        Ok(self.policy.insert(rule))
    }"""),
    ("AN5 (v) StringAdapter::load_filtered_policy treats a too-short rule as matching "
     "(`rule.get(i).map_or(false, |v| v != r)`; outside the subset)", "fail", SA, STR_IMPL, "load_filtered_policy", None),
    ("AN5b (v, inside the subset) the same with `if let Some(v) = rule.get(i) { if v != r { .. } }`", "fail",
     SA, STR_IMPL, "load_filtered_policy", None),
    ("AN6 (vi) MemoryAdapter::load_filtered_policy stores line[1..] (the policy type as first field)", "fail",
     MA, MEM_IMPL, "load_filtered_policy", """{
        self.is_filtered = false;
        for line in self.policy.iter() {
            let sec = &line[0];
            let ptype = &line[1];
            let rule = line[2..].to_vec();
            let mut is_filtered = false;

            if sec == "p" {
                for (i, r) in f.p.iter().enumerate() {
                    if !r.is_empty() && Some(&r.to_string()) != rule.get(i) {
                        is_filtered = true;
                    }
                }
            }
            if sec == "g" {
                for (i, r) in f.g.iter().enumerate() {
                    if !r.is_empty() && Some(&r.to_string()) != rule.get(i) {
                        is_filtered = true;
                    }
                }
            }

            if !is_filtered {
                if let Some(ast_map) = m.get_mut_model().get_mut(sec) {
                    if let Some(ast) = ast_map.get_mut(ptype) {
                        ast.get_mut_policy().insert(line[1..].to_vec());
                    }
                }
            } else {
                self.is_filtered = true;
            }
        }
        Ok(())
    }"""),
    ("AN6b (vi) file_adapter load_filtered_policy_line stores the whole token list (tokens[0..])", "fail",
     FA, None, "load_filtered_policy_line", None),
    ("AN7 (vii) MemoryAdapter::load_policy never resets is_filtered", "fail", MA, MEM_IMPL, "load_policy", """{
        for line in self.policy.iter() {
            let sec = &line[0];
            let ptype = &line[1];
            let rule = line[2..].to_vec().clone();

            if let Some(t1) = m.get_mut_model().get_mut(sec) {
                if let Some(t2) = t1.get_mut(ptype) {
                    t2.get_mut_policy().insert(rule);
                }
            }
        }

        Ok(())
    }"""),
    ("AN7b (vii) StringAdapter::load_policy never resets is_filtered", "fail", SA, STR_IMPL, "load_policy", """{
        let policies = self.policy.split("\\n");
        for line in policies {
            load_policy_line(line, m);
        }
        Ok(())
    }"""),
    ("AN8 add_policies: not all-or-nothing (the lines before a stored one are inserted)", "fail", MA, MEM_IMPL,
     "add_policies", """{
        let mut all_added = true;
        let rules: Vec<Vec<String>> = rules
            .into_iter()
            .map(|mut rule| {
                rule.insert(0, ptype.to_owned());
                rule.insert(0, sec.to_owned());
                rule
            })
            .collect();

        for rule in rules {
            if self.policy.contains(&rule) {
                all_added = false;
                return Ok(all_added);
            }
            self.policy.insert(rule);
        }

        Ok(all_added)
    }"""),
    ("AN9 load_policy_line (string_adapter.rs): the section is looked up under the whole key, not its first character", "fail",
     SA, None, "load_policy_line", """{
    if line.is_empty() || line.starts_with('#') {
        return;
    }

    if let Some(tokens) = parse_csv_line(line) {
        let key = &tokens[0];

        if let Some(ast_map) = m.get_mut_model().get_mut(key) {
            if let Some(ast) = ast_map.get_mut(key) {
                ast.policy.insert(tokens[1..].to_vec());
            }
        }
    }
}"""),
]

# bodies derived from the pristine source by one textual replacement: label prefix -> (old, new)
DERIVED = {
    "AN5 ": ("Some(&r.to_string()) != rule.get(i)", "rule.get(i).map_or(false, |v| v != r)"),
    "AN5b": None,     # built below
    "AN6b": ("ast.policy.insert(tokens[1..].to_vec());", "ast.policy.insert(tokens[0..].to_vec());"),
}
AN5B_BODY = """{
        self.is_filtered = false;
        let policies = self.policy.split("\\n");
        for line in policies {
            if line.is_empty() || line.starts_with('#') {
                continue;
            }
            if let Some(tokens) = parse_csv_line(line) {
                let key = &tokens[0];
                let rule = tokens[1..].to_vec();
                let mut is_filtered = false;

                if let Some(ref sec) = key.chars().next().map(|x| x.to_string())
                {
                    if sec == "p" {
                        for (i, r) in f.p.iter().enumerate() {
                            if !r.is_empty() {
                                if let Some(v) = rule.get(i) {
                                    if v != r {
                                        is_filtered = true;
                                    }
                                }
                            }
                        }
                    }
                    if sec == "g" {
                        for (i, r) in f.g.iter().enumerate() {
                            if !r.is_empty() {
                                if let Some(v) = rule.get(i) {
                                    if v != r {
                                        is_filtered = true;
                                    }
                                }
                            }
                        }
                    }
                    if !is_filtered {
                        if let Some(ast_map) = m.get_mut_model().get_mut(sec) {
                            if let Some(ast) = ast_map.get_mut(key) {
                                ast.get_mut_policy().insert(rule);
                            }
                        }
                    } else {
                        self.is_filtered = true;
                    }
                }
            }
        }
        Ok(())
    }"""


def run(cmd, **kw):
    return subprocess.run(cmd, stdout=subprocess.PIPE, stderr=subprocess.STDOUT, text=True, **kw)


# ---- concrete inputs on which a translated (but no longer proved) function is compared with the model
WITNESS_V = r"""
From CV Require Import Model.Base Model.Csv Model.Enforce Model.Engine.
From CV Require Import Gen.RustStr Gen.RustVec Gen.AdaptersPrims Gen.AdaptersGen Proofs.RustVecP Proofs.AdaptersP.
Definition ast0 (v : string) : assertion := {| a_value := T v; a_tokens := []; a_policy := []; a_handle := HOwn |}.
Definition M : model := [(T "p", [(T "p", ast0 "sub, obj, act"); (T "p2", ast0 "sub, obj")]); (T "g", [(T "g", ast0 "_, _")])].
Definition L : list rule :=
  [[T "p"; T "p"; T "alice"; T "data1"; T "read"]; [T "p"; T "p"; T "bob"; T "data2"; T "write"];
   [T "g"; T "g"; T "alice"; T "admin"]; [T "p"; T "p2"; T "carol"; T "data1"]; [T "g"; T "p"; T "x"; T "y"; T "z"]].
Definition lreqb := list_eqb reqb.
Definition oeqb {A} (e : A -> A -> bool) (a b : option A) : bool :=
  match a, b with Some x, Some y => e x y | None, None => true | _, _ => false end.
Definition st_eqb (a b : list rule * bool) := lreqb (fst a) (fst b) && Bool.eqb (snd a) (snd b).
Definition res_eqb (a b : (list rule * bool) * bool) := st_eqb (fst a) (fst b) && Bool.eqb (snd a) (snd b).
Definition mview (x : adapter * outcome bool) : option ((list rule * bool) * bool) :=
  match x with (AMemory l f, Ok b) => Some ((l, f), b) | _ => None end.
Definition md_eqb (a b : model) :=
  lreqb (m_get_all a (T "p")) (m_get_all b (T "p")) && lreqb (m_get_all a (T "g")) (m_get_all b (T "g")).
Definition lview (x : adapter * model * lres) : option ((list rule * bool * model) * unit) :=
  match x with (AMemory l f, md, LROk) => Some ((l, f, md), tt) | _ => None end.
Definition lres_eqb (a b : (list rule * bool * model) * unit) :=
  lreqb (fst (fst (fst a))) (fst (fst (fst b))) && Bool.eqb (snd (fst (fst a))) (snd (fst (fst b))) && md_eqb (snd (fst a)) (snd (fst b)).
Definition ML : model := match gen_mem_load_policy L false M with Some ((_, _, md), _) => md | None => M end.
Definition R1 := [T "alice"; T "data1"; T "read"].
Eval vm_compute in (map (fun x => let '(l, r) := x in oeqb res_eqb (gen_mem_add_policy l true (T "p") (T "p") r) (mview (ad0_add (AMemory l true) (T "p") (T "p") r)))
  [(L, R1); (L, [T "new"]); ([], R1)]).
Eval vm_compute in (map (fun x => let '(l, rs) := x in oeqb res_eqb (gen_mem_add_policies l false (T "p") (T "p") rs) (mview (ad0_add_many (AMemory l false) (T "p") (T "p") rs)))
  [(L, [[T "n1"]; R1; [T "n2"]]); (L, [[T "n1"]; [T "n2"]; [T "n1"]]); (L, [])]).
Eval vm_compute in (map (fun x => let '(l, r) := x in oeqb res_eqb (gen_mem_remove_policy l true (T "p") (T "p") r) (mview (ad0_remove (AMemory l true) (T "p") (T "p") r)))
  [(L, R1); (L, [T "zed"])]).
Eval vm_compute in (map (fun x => let '(l, rs) := x in oeqb res_eqb (gen_mem_remove_policies l false (T "p") (T "p") rs) (mview (ad0_remove_many (AMemory l false) (T "p") (T "p") rs)))
  [(L, [R1; [T "bob"; T "data2"; T "write"]]); (L, [R1; [T "zed"]])]).
Eval vm_compute in (map (fun x => let '(sec, pt, idx, vals) := x in
    oeqb res_eqb (gen_mem_remove_filtered_policy L false sec pt idx vals) (mview (ad0_remove_filtered (AMemory L false) sec pt idx vals)))
  [(T "p", T "p", 0, [T "alice"]); (T "p", T "p", 0, [T ""; T "data2"]); (T "p", T "p2", 1, [T "data1"]); (T "g", T "g", 0, [T "alice"; T ""; T ""]);
   (T "p", T "p", 5, []); (T "p", T "p", 0, [T ""; T ""; T "read"])]).
Eval vm_compute in (map (fun f => oeqb lres_eqb (gen_mem_load_policy L f M) (lview (ad0_load (AMemory L f) M))) [true; false]).
Eval vm_compute in (map (fun x => let '(fp, fg) := x in oeqb lres_eqb (gen_mem_load_filtered_policy L true M fp fg) (lview (ad0_load_filtered (AMemory L true) fp fg M)))
  [([T "alice"], []); ([], [T "bob"]); ([T ""; T "data1"], [T "alice"]); ([T ""; T ""; T "read"], []); ([], [T "alice"])]).
Eval vm_compute in (map (fun md => oeqb lreqb (option_map (fun x => fst (fst (fst x))) (gen_mem_save_policy L false md))
                                        (match ad0_save (AMemory L false) md with (AMemory l _, _) => Some l | _ => None end)) [ML; M]).
Definition lines : list text := [T "p, alice, data1, read"; T "# p, bob"; T ""; T "g, alice, admin"; T "p2, carol"; T "q, x"].
Eval vm_compute in (map (fun ln => oeqb md_eqb (option_map fst (gen_file_load_policy_line M ln)) (Some (raw_step load_line M ln))) lines).
Eval vm_compute in (map (fun ln => oeqb md_eqb (option_map fst (gen_str_load_policy_line M ln)) (Some (raw_step load_line M ln))) lines).
Definition hres_eqb (a b : model * bool) := md_eqb (fst a) (fst b) && Bool.eqb (snd a) (snd b).
Definition filters : list (list text * list text) := [([T "alice"], []); ([T ""; T "data1"], [T "bob"]); ([T ""; T ""; T "read"; T "x"], [T "alice"; T "admin"; T "more"])].
Eval vm_compute in (flat_map (fun ln => map (fun x => let '(fp, fg) := x in
    oeqb hres_eqb (gen_file_load_filtered_policy_line M ln fp fg)
                  (Some (snd (raw_step (str_step fp fg) (false, M) ln), fst (raw_step (str_step fp fg) (false, M) ln)))) filters) lines).
Definition sres_eqb (a b : (text * bool * model) * unit) :=
  teqb (fst (fst (fst a))) (fst (fst (fst b))) && Bool.eqb (snd (fst (fst a))) (snd (fst (fst b))) && md_eqb (snd (fst a)) (snd (fst b)).
Definition content : text := T "p, alice, data1, read
# note
p, bob, data2, write
p2, carol
g, alice, admin".
Eval vm_compute in (map (fun x => let '(fp, fg) := x in
    oeqb sres_eqb (gen_str_load_filtered_policy content true M fp fg)
      (let r := str_load_filtered fp fg M (parsed_lines content) in Some ((content, snd r, fst r), tt))) filters).
Eval vm_compute in (map (fun f => oeqb sres_eqb (gen_str_load_policy content f M)
                                       (Some ((content, false, fold_left load_line (parsed_lines content) M), tt))) [true; false]).
"""
WITNESS_IN = [
    ("add_policy", ["(L, [alice, data1, read]) with is_filtered = true", "(L, [new])", "([], [alice, data1, read])"]),
    ("add_policies", ["(L, [[n1], [alice, data1, read], [n2]])", "(L, [[n1], [n2], [n1]])", "(L, [])"]),
    ("remove_policy", ["(L, [alice, data1, read])", "(L, [zed])"]),
    ("remove_policies", ["(L, [[alice, data1, read], [bob, data2, write]])", "(L, [[alice, data1, read], [zed]])"]),
    ("remove_filtered_policy", ["(p, p, 0, [alice])", "(p, p, 0, [\"\", data2])", "(p, p2, 1, [data1])", "(g, g, 0, [alice, \"\", \"\"])",
                                "(p, p, 5, [])", "(p, p, 0, [\"\", \"\", read])"]),
    ("MemoryAdapter::load_policy", ["is_filtered = true", "is_filtered = false"]),
    ("MemoryAdapter::load_filtered_policy", ["(p: [alice], g: [])", "(p: [], g: [bob])", "(p: [\"\", data1], g: [alice])",
                                             "(p: [\"\", \"\", read], g: [])", "(p: [], g: [alice])"]),
    ("save_policy", ["the loaded store", "the empty store"]),
    ("file load_policy_line", ["'p, alice, data1, read'", "'# p, bob'", "''", "'g, alice, admin'", "'p2, carol'", "'q, x'"]),
    ("string load_policy_line", ["'p, alice, data1, read'", "'# p, bob'", "''", "'g, alice, admin'", "'p2, carol'", "'q, x'"]),
    ("file load_filtered_policy_line", ["line %d filter %d" % (i, j) for i in range(6) for j in range(3)]),
    ("StringAdapter::load_filtered_policy", ["filter 0", "filter 1", "filter 2"]),
    ("StringAdapter::load_policy", ["is_filtered = true", "is_filtered = false"]),
]


def witness():
    path = os.path.join(SCRATCH, "Witness.v")
    open(path, "w").write(WITNESS_V)
    r = run(["timeout", "300", "coqc", "-Q", ".", "CV", path], cwd=COQ)
    rows = re.findall(r"=\s*\[([^\]]*)\]\s*:\s*list bool", r.stdout)
    if r.returncode != 0 or len(rows) != len(WITNESS_IN):
        return "the witness file did not run: " + " ".join(r.stdout.split())[:200]
    out = []
    for (fn, descr), row in zip(WITNESS_IN, rows):
        vals = [x.strip() for x in row.split(";")]
        bad = [d for d, v in zip(descr, vals) if v == "false"]
        if bad:
            out.append("%s differs from the model on %s" % (fn, bad[0]))
    return "; ".join(out) if out else "no difference on the fixed inputs"


def fn_span(src, impl, fn):
    start = 0
    if impl is not None:
        start = re.search(impl, src).start()
        hdr = r"fn\s+%s\s*(?:<[^>]*>)?\s*\(" % fn
    else:
        start = re.search(r"^(?:pub\s+)?fn\s+%s\b" % fn, src, re.M).start()
        hdr = r"fn\s+%s\s*\(" % fn
    old = pins.fn_body(src, hdr, start)
    assert old is not None and src.count(old) == 1, fn
    return old


def replace_body(label, rel, impl, fn, body):
    path = os.path.join(SCRATCH, rel)
    src = open(path, encoding="utf-8").read()
    old = fn_span(src, impl, fn)
    if body is None:
        key = [k for k in DERIVED if label.startswith(k)][0]
        if DERIVED[key] is None:
            body = AN5B_BODY
        else:
            a, b = DERIVED[key]
            assert a in old, (label, a)
            body = old.replace(a, b)
    open(path, "w", encoding="utf-8").write(src.replace(old, body))


def regenerate(repo):
    env = dict(os.environ, VERIF_REPO=repo)
    return run([sys.executable, os.path.join(HERE, "rs2coq_adapters.py"), os.path.join(COQ, "Gen")], env=env)


def main():
    only = sys.argv[1:]
    results = []
    for label, expect, rel, impl, fn, body in VARIANTS:
        if only and not any(label.startswith(o) for o in only):
            continue
        shutil.rmtree(SCRATCH, ignore_errors=True)
        shutil.copytree("/repo/src", os.path.join(SCRATCH, "src"))
        if fn is not None:
            replace_body(label, rel, impl, fn, body)
        regenerate(SCRATCH)
        mk = run(["timeout", "1500", "make", "PinChecks/PcAdaptersGen.vo"], cwd=COQ)
        ok = mk.returncode == 0
        why = ""
        if not ok:
            m = re.search(r'File "\./PinChecks/PcAdaptersGen\.v", line (\d+).*?\n(Error:.*?)(?:\n\n|\nmake)', mk.stdout, re.S)
            if m:
                thm = ""
                lines = open(os.path.join(COQ, "PinChecks", "PcAdaptersGen.v")).read().split("\n")
                for k in range(int(m.group(1)) - 1, -1, -1):
                    mm = re.match(r"(?:Theorem|Lemma|Example)\s+(\w+)", lines[k])
                    if mm:
                        thm = mm.group(1)
                        break
                why = "%s: %s" % (thm, " ".join(m.group(2).split())[:90])
            else:
                why = " ".join(mk.stdout.strip().split("\n")[-3:])[:200]
        gen = open(os.path.join(COQ, "Gen", "AdaptersGen.v")).read()
        note = ""
        fm = re.search(r"\(\* translation of (\w+) \((\w+)\) failed: (.*?) \*\)", gen, re.S)
        if fm:
            note = " [untranslatable %s: %s]" % (fm.group(1), fm.group(3))
        if not ok and not fm:
            note += " [witness: %s]" % witness()
        verdict = "pass" if ok else "fail"
        flag = "as expected" if verdict == expect else "UNEXPECTED"
        print("%-4s (%s) %s%s%s" % (verdict.upper(), flag, label, (" -> " + str(why)) if why else "", note))
        sys.stdout.flush()
        results.append(verdict == expect)
    # restore the pristine generated file
    regenerate("/repo")
    mk = run(["timeout", "1500", "make", "PinChecks/PcAdaptersGen.vo"], cwd=COQ)
    print("restored from /repo:", "build ok" if mk.returncode == 0 else "BUILD FAILED")
    shutil.rmtree(SCRATCH, ignore_errors=True)
    print("%d/%d variants behaved as expected" % (sum(results), len(results)))
    return 0 if all(results) and mk.returncode == 0 else 1


if __name__ == "__main__":
    sys.exit(main())
