#!/usr/bin/env python3
"""Robustness / sensitivity demonstration for part 23 of rs2coq (tools/rs2coq_rmcache.py:
src/rbac/default_role_manager.rs with `feature = "cached"` ON -> coq/Gen/RmCacheGen.v, obligations in
coq/PinChecks/PcRmCacheGen.v, statements in coq/Properties/RmCacheGen.v).

For every variant: copy /repo/src to a scratch directory (tempfile.mkdtemp(), outside /repo and /verif), edit
default_role_manager.rs there (exact text replacements, each checked to apply once), regenerate
Gen/RoleManagerGen.v (part 11, feature OFF) and Gen/RmCacheGen.v (part 23, feature ON) from the scratch copy,
rebuild Properties/RmCacheGen.vo and compare the outcome with the expectation:
  pass   a rewrite that keeps the meaning, or changes it harmlessly (the cache holds less / is cleared more
         often): all proofs go through unchanged
  fail   a change of the cache discipline: a proof fails (the theorem is named) or the function leaves the
         translated subset
For a passing variant the findings (Properties/RmCacheFindings.vo: concrete stale-answer runs with matching
functions) are rebuilt as well and it is reported whether they still reproduce.
The pristine generated files are restored (and rebuilt) at the end; the scratch directory is removed.

usage: python3 tools/rs2coq_demo_rmcache.py [label-prefix ..]
"""
import os
import re
import shutil
import subprocess
import sys
import tempfile

HERE = os.path.dirname(os.path.abspath(__file__))
ROOT = os.path.dirname(HERE)
COQ = os.path.join(ROOT, "coq")
SCRATCH = tempfile.mkdtemp(prefix="rs2coq_demo_rmcache_")
RM = "src/rbac/default_role_manager.rs"
TARGET = "Properties/RmCacheGen.vo"
FINDINGS = "Properties/RmCacheFindings.vo"

KEY = """            domain.unwrap_or(DEFAULT_DOMAIN).hash(&mut hasher);
"""
KEY_BLOCK = """            name1.hash(&mut hasher);
            name2.hash(&mut hasher);
            domain.unwrap_or(DEFAULT_DOMAIN).hash(&mut hasher);
"""
GET = """        #[cfg(feature = "cached")]
        if let Some(res) = self.cache.get(&cache_key) {
            return res;
        }
"""
KEY_AND_GET = """        #[cfg(feature = "cached")]
        let cache_key = {
            let mut hasher = DefaultHasher::new();
            name1.hash(&mut hasher);
            name2.hash(&mut hasher);
            domain.unwrap_or(DEFAULT_DOMAIN).hash(&mut hasher);
            hasher.finish()
        };

""" + GET
SHORTCUT = """        if name1 == name2 {
            return true;
        }

"""
SET = """        #[cfg(feature = "cached")]
        self.cache.set(cache_key, res);
"""
CLEAR_FN = """        self.all_domains_indices.clear();
        self.all_domains.clear();
        #[cfg(feature = "cached")]
        self.cache.clear();
"""
ADD_TAIL = """        if add_link {
            graph.add_edge(role1, role2, EdgeVariant::Link);

            #[cfg(feature = "cached")]
            self.cache.clear()
        }
"""
DEL_TAIL = """        if let Some(edge_index) = graph.find_edge(role1, role2) {
            graph.remove_edge(edge_index).unwrap();

            #[cfg(feature = "cached")]
            self.cache.clear();
        }
"""
GOC_TAIL = """            if added {
                #[cfg(feature = "cached")]
                self.cache.clear();
            }
"""
MFN = """        self.domain_matching_fn = domain_matching_fn;
        self.role_matching_fn = role_matching_fn;
"""

# (label, expectation, [(old, new)])
VARIANTS = [
    ("P0 the source as it is", "pass", []),
    ("P1 has_link: the domain is bound first (let dom = domain.unwrap_or(DEFAULT_DOMAIN); dom.hash(..))", "pass",
     [(KEY, "            let dom = domain.unwrap_or(DEFAULT_DOMAIN);\n            dom.hash(&mut hasher);\n")]),
    ("P2 has_link: DefaultHasher::default(), the hasher called h, the digest bound before it is returned", "pass",
     [("""            let mut hasher = DefaultHasher::new();
            name1.hash(&mut hasher);
            name2.hash(&mut hasher);
            domain.unwrap_or(DEFAULT_DOMAIN).hash(&mut hasher);
            hasher.finish()
""", """            let mut h = DefaultHasher::default();
            name1.hash(&mut h);
            name2.hash(&mut h);
            domain.unwrap_or(DEFAULT_DOMAIN).hash(&mut h);
            let digest = h.finish();
            digest
""")]),
    ("P3 clear(): the cache is cleared first", "pass",
     [(CLEAR_FN, """        #[cfg(feature = "cached")]
        self.cache.clear();
        self.all_domains_indices.clear();
        self.all_domains.clear();
""")]),
    ("P4 add_link: early return when nothing is added (if !add_link { return; } add_edge; clear)", "pass",
     [(ADD_TAIL, """        if !add_link {
            return;
        }
        graph.add_edge(role1, role2, EdgeVariant::Link);
        #[cfg(feature = "cached")]
        self.cache.clear();
""")]),
    ("P5 new: DefaultCache::new(200) (another capacity: the cache may forget anyway)", "pass",
     [("cache: DefaultCache::new(50),", "cache: DefaultCache::new(200),")]),
    ("H1 (ii) delete_link clears on every call that passes the checks (also when no edge was there): harmless", "pass",
     [(DEL_TAIL, """        if let Some(edge_index) = graph.find_edge(role1, role2) {
            graph.remove_edge(edge_index).unwrap();
        }
        #[cfg(feature = "cached")]
        self.cache.clear();
""")]),
    ("H2 (vi) add_link clears also when the Link edge already existed: harmless", "pass",
     [(ADD_TAIL, """        if add_link {
            graph.add_edge(role1, role2, EdgeVariant::Link);
        }
        #[cfg(feature = "cached")]
        self.cache.clear();
""")]),
    ("H3 (v) has_link looks the key up BEFORE the name1 == name2 shortcut: harmless", "pass",
     [(SHORTCUT + KEY_AND_GET, KEY_AND_GET + "\n" + SHORTCUT)]),
    ("H4 (v) has_link caches only `true` answers: harmless", "pass",
     [(SET, """        if res {
            #[cfg(feature = "cached")]
            self.cache.set(cache_key, res);
        }
""")]),
    ("N1 (i) clear() without self.cache.clear()", "fail",
     [(CLEAR_FN, "        self.all_domains_indices.clear();\n        self.all_domains.clear();\n")]),
    ("N2 (ii) delete_link never clears", "fail",
     [(DEL_TAIL, """        if let Some(edge_index) = graph.find_edge(role1, role2) {
            graph.remove_edge(edge_index).unwrap();
        }
""")]),
    ("N3 (iii) the key is the hash of [name1, name2, domain].concat()", "fail",
     [(KEY_BLOCK, "            [name1, name2, domain.unwrap_or(DEFAULT_DOMAIN)].concat().hash(&mut hasher);\n")]),
    ("N4 (iii) the key is the hash of format!(\"{}{}{}\", name1, name2, domain)", "fail",
     [(KEY_BLOCK, "            format!(\"{}{}{}\", name1, name2, domain.unwrap_or(DEFAULT_DOMAIN)).hash(&mut hasher);\n")]),
    ("N5 (iv) the key uses domain.unwrap_or_default() (None and Some(\"\") collide)", "fail",
     [(KEY, "            domain.unwrap_or_default().hash(&mut hasher);\n")]),
    ("N6 the key omits the domain", "fail", [(KEY, "")]),
    ("N7 (vi) add_link leaves the clearing to get_or_create_role's `added`", "fail",
     [(ADD_TAIL, """        if add_link {
            graph.add_edge(role1, role2, EdgeVariant::Link);
        }
""")]),
    ("N8 get_or_create_role never clears (Match edges are added silently)", "fail", [(GOC_TAIL, "")]),
    ("N9 has_link stores the NEGATED answer", "fail",
     [(SET, "        #[cfg(feature = \"cached\")]\n        self.cache.set(cache_key, !res);\n")]),
    ("N10 has_link stores its answer under the key BEFORE looking it up (set, then get)", "fail",
     [(GET, "        #[cfg(feature = \"cached\")]\n        self.cache.set(cache_key, false);\n\n" + GET)]),
    ("N11 add_link clears BEFORE the early return only (if name1 == name2 { clear; return })", "fail",
     [("""        if name1 == name2 {
            return;
        }

        let role1 = self.get_or_create_role(name1, domain);""", """        if name1 == name2 {
            #[cfg(feature = "cached")]
            self.cache.clear();
            return;
        }

        let role1 = self.get_or_create_role(name1, domain);"""),
      (ADD_TAIL, """        if add_link {
            graph.add_edge(role1, role2, EdgeVariant::Link);
        }
""")]),
    ("H6 (vii) matching_fn clears the cache (a FIX of finding F1: the refinement holds, the finding is gone)", "pass",
     [(MFN, MFN + "        #[cfg(feature = \"cached\")]\n        self.cache.clear();\n")]),
    ("N12 has_link never reads the cache (no get): no answer changes and every theorem holds, but the example of a HIT fails", "fail",
     [(GET, "")]),
    ("N13 the cache field has another type (DefaultCache<String, bool>)", "fail",
     [("cache: DefaultCache<u64, bool>,", "cache: DefaultCache<String, bool>,")]),
    ("N15 DefaultHasher is another type (use std::collections::hash_map::RandomState as DefaultHasher)", "fail",
     [("collections::hash_map::DefaultHasher,", "collections::hash_map::RandomState as DefaultHasher,")]),
    ("N14 self.cache used other than by get / set / clear / has (self.cache.invalidate(..))", "fail",
     [(SET, "        #[cfg(feature = \"cached\")]\n        self.cache.invalidate(cache_key);\n")]),
]


def run(cmd, **kw):
    return subprocess.run(cmd, stdout=subprocess.PIPE, stderr=subprocess.STDOUT, text=True, **kw)


def regenerate(repo):
    env = dict(os.environ, VERIF_REPO=repo)
    out = ""
    for mod in ("rs2coq_rm.py", "rs2coq_rmcache.py"):
        out += run([sys.executable, os.path.join(HERE, mod), os.path.join(COQ, "Gen")], env=env).stdout
    return out


def failing_theorem(out):
    m = re.search(r'File "\./((?:PinChecks|Properties|Gen|Proofs)/\w+\.v)", line (\d+).*?\n(Error:.*?)(?:\n\n|\nmake)', out, re.S)
    if not m:
        return " ".join(out.strip().split("\n")[-3:])[:200]
    thm = ""
    try:
        lines = open(os.path.join(COQ, m.group(1))).read().split("\n")
        for k in range(int(m.group(2)) - 1, -1, -1):
            mm = re.match(r"\s*(?:Theorem|Lemma|Example|Corollary|Definition)\s+(\w+)", lines[k])
            if mm:
                thm = mm.group(1)
                break
    except OSError:
        pass
    return "%s, %s: %s" % (m.group(1), thm, " ".join(m.group(3).split())[:100])


def main():
    only = sys.argv[1:]
    results = []
    for label, expect, edits in VARIANTS:
        if only and not any(label.startswith(o) for o in only):
            continue
        shutil.rmtree(SCRATCH, ignore_errors=True)
        shutil.copytree("/repo/src", os.path.join(SCRATCH, "src"))
        path = os.path.join(SCRATCH, RM)
        src = open(path, encoding="utf-8").read()
        for old, new in edits:
            assert src.count(old) == 1, (label, old)
            src = src.replace(old, new)
        open(path, "w", encoding="utf-8").write(src)
        regenerate(SCRATCH)
        mk = run(["timeout", "1500", "make", TARGET], cwd=COQ)
        ok = mk.returncode == 0
        why = "" if ok else failing_theorem(mk.stdout)
        note = ""
        for gen in ("RmCacheGen.v", "RoleManagerGen.v"):
            g = open(os.path.join(COQ, "Gen", gen)).read()
            fm = re.search(r"\(\* translation (?:of (\w+) )?failed: (.*?) \*\)", g, re.S)
            if fm:
                note += " [%s: untranslatable %s: %s]" % (gen, fm.group(1) or "", " ".join(fm.group(2).split())[:110])
        if ok:
            fk = run(["timeout", "1500", "make", FINDINGS], cwd=COQ)
            note += " [findings: %s]" % ("still reproduce" if fk.returncode == 0
                                         else "no longer reproduce (%s)" % failing_theorem(fk.stdout).split(":")[0])
        verdict = "pass" if ok else "fail"
        flag = "as expected" if verdict == expect else "UNEXPECTED"
        print("%-4s (%s) %s%s%s" % (verdict.upper(), flag, label, (" -> " + why) if why else "", note))
        sys.stdout.flush()
        results.append(verdict == expect)
    regenerate("/repo")
    mk = run(["timeout", "1500", "make", TARGET, FINDINGS], cwd=COQ)
    print("restored from /repo:", "build ok" if mk.returncode == 0 else "BUILD FAILED")
    shutil.rmtree(SCRATCH, ignore_errors=True)
    print("%d/%d variants behaved as expected" % (sum(results), len(results)))
    return 0 if all(results) and mk.returncode == 0 else 1


if __name__ == "__main__":
    sys.exit(main())
