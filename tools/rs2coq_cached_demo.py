#!/usr/bin/env python3
"""Robustness / sensitivity demonstration for part 6 of rs2coq (the CachedEnforcer).

For every variant: copy /repo/src to a scratch directory (tempfile.mkdtemp()),
replace the body of ONE function of src/cached_enforcer.rs, run
tools/rs2coq_cached.py on the scratch copy, rebuild PinChecks/PcCachedGen.vo
and compare with the expectation (meaning-preserving rewrite -> the proofs
pass; change of meaning / outside the subset -> a proof fails).  The pristine
generated file is restored at the end.

usage: python3 tools/rs2coq_cached_demo.py [label prefix ..]
(also run at the end of tools/rs2coq_demo.py)
"""
import os
import re
import shutil
import subprocess
import sys
import tempfile

HERE = os.path.dirname(os.path.abspath(__file__))
ROOT = os.path.dirname(HERE)
COQ = os.path.join(ROOT, "coq")
sys.path.insert(0, HERE)
import pins  # noqa: E402

CHECK = "PinChecks/PcCachedGen"
CORE = r"impl\s+CoreApi\s+for\s+CachedEnforcer"
INH = r"impl\s+CachedEnforcer\s*\{"


# (label, expectation, impl block, function, new body)
VARIANTS = [
    ("Q0 unmodified sources", "pass", None, None, None),
    # ---- meaning-preserving
    ("Q1 enable_enforce: clear() BEFORE the (infallible) delegated call", "pass", CORE, "enable_enforce", """{
        self.cache.clear();
        self.enforcer.enable_enforce(enabled);
    }"""),
    ("Q2 set_effector: clear() before, delegated call as the final expression", "pass", CORE, "set_effector", """{
        self.cache.clear();
        self.enforcer.set_effector(e)
    }"""),
    ("Q3 set_model: clear(); delegate?; Ok(())", "pass", CORE, "set_model", """{
        self.cache.clear();
        self.enforcer.set_model(m).await?;
        Ok(())
    }"""),
    ("Q4 load_policy: result bound to a variable and returned", "pass", CORE, "load_policy", """{
        self.cache.clear();
        let r = self.enforcer.load_policy().await;
        r
    }"""),
    ("Q5 clear_policy: clear() twice (before and after the call)", "pass", CORE, "clear_policy", """{
        self.cache.clear();
        let r = self.enforcer.clear_policy().await;
        self.cache.clear();
        r
    }"""),
    ("Q6 private_enforce: early return on a hit, Ok(..) per path", "pass", INH, "private_enforce", """{
        if let Some(authorized) = self.cache.get(&cache_key) {
            return Ok((authorized, true, None));
        }
        let (authorized, indices) = self.enforcer.private_enforce(&rvals)?;
        self.cache.set(cache_key, authorized);
        Ok((authorized, false, indices))
    }"""),
    ("Q7 private_enforce_with_context: match instead of if let, `?` on a bound result", "pass", INH,
     "private_enforce_with_context", """{
        match self.cache.get(&cache_key) {
            Some(a) => Ok((a, true, None)),
            None => {
                let res = self.enforcer.private_enforce_with_context(ctx, &rvals);
                let (authorized, indices) = res?;
                self.cache.set(cache_key, authorized);
                Ok((authorized, false, indices))
            }
        }
    }"""),
    ("Q8 enforce_with_context: the two hash() statements swapped (they commute)", "pass", CORE, "enforce_with_context", """{
        let cache_key = {
            let mut hasher = DefaultHasher::new();
            rvals.cache_key().hash(&mut hasher);
            ctx.get_cache_key().hash(&mut hasher);
            hasher.finish()
        };
        let rvals = rvals.try_into_vec()?;
        let (authorized, _cached, _indices) =
            self.private_enforce_with_context(ctx, &rvals, cache_key)?;
        Ok(authorized)
    }"""),
    ("Q9 enforce_mut: unwraps and re-wraps the decision", "pass", CORE, "enforce_mut", """{
        let authorized = self.enforce(rvals)?;
        Ok(authorized)
    }"""),
    ("Q10 enforce: key bound after a renaming let, tuple pattern with wildcards", "pass", CORE, "enforce", """{
        let key = rvals.cache_key();
        let values = rvals.try_into_vec()?;
        let (authorized, _, _) = self.private_enforce(&values, key)?;
        Ok(authorized)
    }"""),
    ("Q11 enforce_with_context: the four names of the context hashed one by one", "pass", CORE, "enforce_with_context", """{
        let cache_key = {
            let mut hasher = DefaultHasher::new();
            ctx.r_type.hash(&mut hasher);
            ctx.p_type.hash(&mut hasher);
            ctx.e_type.hash(&mut hasher);
            ctx.m_type.hash(&mut hasher);
            rvals.cache_key().hash(&mut hasher);
            hasher.finish()
        };
        let rvals = rvals.try_into_vec()?;
        let (authorized, _cached, _indices) =
            self.private_enforce_with_context(ctx, &rvals, cache_key)?;
        Ok(authorized)
    }"""),
    # ---- meaning-changing
    ("R1 (i) set_model: delegate?; clear(); Ok(())  - a failed set_model leaves a stale cache", "fail", CORE, "set_model", """{
        self.enforcer.set_model(m).await?;
        self.cache.clear();
        Ok(())
    }"""),
    ("R2 (ii) add_function: cache.clear() dropped", "fail", CORE, "add_function", """{
        self.enforcer.add_function(fname, f);
    }"""),
    ("R3 (iii) set_role_manager: cache.clear() dropped", "fail", CORE, "set_role_manager", """{
        self.enforcer.set_role_manager(rm)
    }"""),
    ("R4 (iv) private_enforce: cache.set(.., false) before the `?` (an error is cached as false)", "fail", INH,
     "private_enforce", """{
        Ok(if let Some(authorized) = self.cache.get(&cache_key) {
            (authorized, true, None)
        } else {
            let res = self.enforcer.private_enforce(&rvals);
            self.cache.set(cache_key, false);
            let (authorized, indices) = res?;
            self.cache.set(cache_key, authorized);
            (authorized, false, indices)
        })
    }"""),
    ("R5 (iv) private_enforce: Err(_) => false stored, then the error returned", "fail", INH, "private_enforce", """{
        Ok(if let Some(authorized) = self.cache.get(&cache_key) {
            (authorized, true, None)
        } else {
            let res = self.enforcer.private_enforce(&rvals);
            let stored = match res {
                Ok((a, _)) => a,
                Err(_) => false,
            };
            self.cache.set(cache_key, stored);
            let (authorized, indices) = res?;
            (authorized, false, indices)
        })
    }"""),
    ("R6 (v) enforce_with_context: only rvals.cache_key() is hashed", "fail", CORE, "enforce_with_context", """{
        let cache_key = {
            let mut hasher = DefaultHasher::new();
            rvals.cache_key().hash(&mut hasher);
            hasher.finish()
        };
        let rvals = rvals.try_into_vec()?;
        let (authorized, _cached, _indices) =
            self.private_enforce_with_context(ctx, &rvals, cache_key)?;
        Ok(authorized)
    }"""),
    ("R7 (v) enforce_with_context: the key is rvals.cache_key() itself (the code before commit 448e9a9)", "fail", CORE,
     "enforce_with_context", """{
        let cache_key = rvals.cache_key();
        let rvals = rvals.try_into_vec()?;
        let (authorized, _cached, _indices) =
            self.private_enforce_with_context(ctx, &rvals, cache_key)?;
        Ok(authorized)
    }"""),
    ("R8 (vi) private_enforce: the hit path returns !authorized", "fail", INH, "private_enforce", """{
        Ok(if let Some(authorized) = self.cache.get(&cache_key) {
            (!authorized, true, None)
        } else {
            let (authorized, indices) =
                self.enforcer.private_enforce(&rvals)?;
            self.cache.set(cache_key, authorized);
            (authorized, false, indices)
        })
    }"""),
    ("R9 clear_policy: delegate?; clear(); Ok(())", "fail", CORE, "clear_policy", """{
        self.enforcer.clear_policy().await?;
        self.cache.clear();
        Ok(())
    }"""),
    ("R10 save_policy: clears the cache (the model keeps it)", "fail", CORE, "save_policy", """{
        self.cache.clear();
        self.enforcer.save_policy().await
    }"""),
    ("R11 set_adapter: the result of the delegated call is dropped, Ok(()) returned", "fail", CORE, "set_adapter", """{
        self.cache.clear();
        let _ = self.enforcer.set_adapter(a).await;
        Ok(())
    }"""),
    ("R12 private_enforce_with_context: the miss path does not store the decision", "fail", INH,
     "private_enforce_with_context", """{
        Ok(if let Some(authorized) = self.cache.get(&cache_key) {
            (authorized, true, None)
        } else {
            let (authorized, indices) =
                self.enforcer.private_enforce_with_context(ctx, &rvals)?;
            (authorized, false, indices)
        })
    }"""),
    ("R13 enforce_mut: negates the decision", "fail", CORE, "enforce_mut", """{
        let authorized = self.enforce(rvals)?;
        Ok(!authorized)
    }"""),
    ("R14 new_raw: clear_cache not registered for Event::ClearCache", "fail", CORE, "new_raw", """{
        let enforcer = Enforcer::new_raw(m, a).await?;
        let cache = Box::new(DefaultCache::new(200));

        let mut cached_enforcer = CachedEnforcer {
            enforcer,
            cache,
            events: HashMap::new(),
        };

        #[cfg(any(feature = "logging", feature = "watcher"))]
        cached_enforcer.on(Event::PolicyChange, notify_logger_and_watcher);

        Ok(cached_enforcer)
    }"""),
    ("R15 new_raw: the registration is compiled only with feature logging (off)", "fail", CORE, "new_raw", """{
        let enforcer = Enforcer::new_raw(m, a).await?;
        let cache = Box::new(DefaultCache::new(200));

        let mut cached_enforcer = CachedEnforcer {
            enforcer,
            cache,
            events: HashMap::new(),
        };

        #[cfg(feature = "logging")]
        cached_enforcer.on(Event::ClearCache, clear_cache);

        Ok(cached_enforcer)
    }"""),
    ("R16 load_policy: clears only when the load succeeded (outside the subset: if on the result)", "fail", CORE,
     "load_policy", """{
        let r = self.enforcer.load_policy().await;
        if r.is_ok() {
            self.cache.clear();
        }
        r
    }"""),
    # ---- the seeded defects of /verif/seeded that touch src/cached_enforcer.rs (applied with patch -p1 when present)
    ("S1 seeded C11-set-model-error-skips-cache-clear", "fail", "patch",
     "/verif/seeded/C11-set-model-error-skips-cache-clear/patch.diff", None),
    ("S2 seeded C11b-context-cache-key-drops-effect-section", "fail", "patch",
     "/verif/seeded/C11b-context-cache-key-drops-effect-section/patch.diff", None),
    ("S3 seeded C14d-cached-enforcer-notify-toggle-drops-callback (outside the subset)", "fail", "patch",
     "/verif/seeded/C14d-cached-enforcer-notify-toggle-drops-callback/patch.diff", None),
    ("R17 enable_enforce: cache.clear() compiled only with feature logging (off)", "fail", CORE, "enable_enforce", """{
        self.enforcer.enable_enforce(enabled);
        #[cfg(feature = "logging")]
        self.cache.clear();
    }"""),
]


def run(cmd, **kw):
    return subprocess.run(cmd, stdout=subprocess.PIPE, stderr=subprocess.STDOUT, text=True, **kw)


def why_failed(out):
    m = re.search(r'File "\./%s\.v", line (\d+).*?\n(Error:.*?)(?:\n\n|\nmake)' % re.escape(CHECK), out, re.S)
    if not m:
        return " | ".join(out.strip().split("\n")[-3:])
    lines = open(os.path.join(COQ, CHECK + ".v")).read().split("\n")
    thm = ""
    for k in range(int(m.group(1)) - 1, -1, -1):
        mm = re.match(r"\s*(?:Theorem|Lemma|Example|Corollary)\s+(\w+)", lines[k])
        if mm:
            thm = mm.group(1)
            break
    return "%s: %s" % (thm, " ".join(m.group(2).split())[:100])


def main(only=()):
    scratch = tempfile.mkdtemp(prefix="rs2coq_cached_demo_")   # outside /repo and /verif; removed at the end
    results = []
    gen = os.path.join(COQ, "Gen", "CachedGen.v")
    try:
        for label, expect, impl, fn, body in VARIANTS:
            if only and not any(label.startswith(o) for o in only):
                continue
            shutil.rmtree(scratch, ignore_errors=True)
            shutil.copytree("/repo/src", os.path.join(scratch, "src"))
            if impl == "patch":
                if not os.path.exists(fn):
                    print("SKIP %s (no %s)" % (label, fn))
                    continue
                pr = run(["patch", "-p1", "-s", "-i", fn], cwd=scratch)
                assert pr.returncode == 0, pr.stdout
            elif fn is not None:
                path = os.path.join(scratch, "src", "cached_enforcer.rs")
                src = open(path, encoding="utf-8").read()
                start = re.search(impl, src).start()
                old = pins.fn_body(src, r"fn\s+%s\s*(?:<[^>]*>)?\s*\(" % fn, start)
                at = src.find(old, start)
                assert old is not None and at >= 0, fn
                open(path, "w", encoding="utf-8").write(src[:at] + body + src[at + len(old):])
            env = dict(os.environ, VERIF_REPO=scratch)
            run([sys.executable, os.path.join(HERE, "rs2coq_cached.py"), os.path.join(COQ, "Gen")], env=env)
            mk = run(["timeout", "900", "make", CHECK + ".vo"], cwd=COQ)
            ok = mk.returncode == 0
            why = "" if ok else why_failed(mk.stdout)
            note = ""
            fm = re.search(r"\(\* (?:translation|classification) of (\w+) failed: (.*?) \*\)", open(gen).read(), re.S)
            if fm:
                note = " [untranslatable %s: %s]" % (fm.group(1), fm.group(2))
            verdict = "pass" if ok else "fail"
            flag = "as expected" if verdict == expect else "UNEXPECTED"
            print("%-4s (%s) %s%s%s" % (verdict.upper(), flag, label, (" -> " + why) if why else "", note))
            sys.stdout.flush()
            results.append(verdict == expect)
    finally:
        env = dict(os.environ, VERIF_REPO="/repo")
        run([sys.executable, os.path.join(HERE, "rs2coq_cached.py"), os.path.join(COQ, "Gen")], env=env)
        mk = run(["timeout", "900", "make", CHECK + ".vo"], cwd=COQ)
        print("restored from /repo:", "build ok" if mk.returncode == 0 else "BUILD FAILED")
        shutil.rmtree(scratch, ignore_errors=True)
    print("%d/%d cached-enforcer variants behaved as expected" % (sum(results), len(results)))
    return 0 if all(results) and mk.returncode == 0 else 1


if __name__ == "__main__":
    sys.exit(main(sys.argv[1:]))
