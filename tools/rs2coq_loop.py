#!/usr/bin/env python3
"""rs2coq, part 10: the two enforcement loops `Enforcer::private_enforce` and
`Enforcer::private_enforce_with_context` of src/enforcer.rs -> coq/Gen/EnforceGen.v over
coq/Gen/RustVec.v (loop combinators) and coq/Gen/RustEnf.v (scope / zip / position); proved equal
to the model's `enforce_core` (Model/Enforce.v) for all inputs in coq/PinChecks/PcEnforceGen.v
(lemmas in coq/Proofs/RustLoopP.v).  Kept in its own module; rs2coq.py's main() calls main() here.

What is READ from the text (nothing below is assumed): the order of the checks (enabled, the four
lookups - their section / key and error class come from the macro definitions in src/macros.rs and
the macro arguments -, the request arity), what is pushed into the scope and when, the capacity
expression of the effect stream, the whole empty-policy branch, and per rule: rewind, arity check,
pushes, evaluation, the effect mapping (literals, searched token, arms and guards of the match in
their order), the `if push_effect(..) { break }`, the final `next()`.

What is NOT translated but named (abstract primitives, in the model's vocabulary):
  self.get_model().get_model().get(sec)?.get(key)?      get_ast md sec key     (None = the `?`)
  self.eft.new_stream(text, cap)                         new_stream text cap    (None = its panic)
  <stream>.push_effect(e)                                st := push st e; the returned flag = done st
                                                         (PcEffectorGen.gen_push_effect_ok: the flag the
                                                          translated push_effect returns IS done (push s e))
  <stream>.next()                                        next st                (None = assert!(done) fails)
  self.engine.compile_expression(escape_eval(&M.value)).map_err(..)?   with M fetched from section "m" by key k
                                                         assoc k mexprs         (None = Err EEvalc)
  self.engine.eval_ast_with_scope::<bool>(&mut scope, &compiled)?
                                                         eval_matcher ptab fs compiled scope
      "compile + later evaluate" is ONE abstract primitive of the model: `eval_matcher fs m scope` with m the
      expression registered (mexprs) for the matcher key; a compile error is an evaluation-class error.  The
      evaluation does not change the scope (constants only).
  Scope::new() / push_constant / push_constant_dynamic / len / rewind     sc_new / sc_push / sc_len / sc_rewind
  error values: <X>Error::..(..).into()  ->  Err E<X>     (ModelError -> EModel, RequestError -> ERequest,
                                                           PolicyError -> EPolicy; the payload is not modelled)

Supported subset (anything else: Untranslatable -> stubs + `gen_enforce_translated := false`)
  statements   let [mut] x [: T] = e;   let (x, y) = (e1, e2);   let x = e?;   let x = <lookup macro>!(..);
               if c { .. } [else ..]   if let Some(x) = e { .. } [else ..]    for x in e { .. }
               for (x, y) in e.zip(e2) { .. }    break;   return e;   x.m(..);   #[cfg(..)] { .. }   { .. }
               a final expression
  expressions  locals, parameters, self.enabled, ctx.<r|p|e|m>_type, "str", integers, true, false,
               ! && || == != < > <= >=, &e, *e, (e), e.len(), e.is_empty(), e[i], e.tokens, e.value,
               e.get_policy(), e.iter(), e.to_owned(), e.clone(), a.zip(b), max(a, b),
               e.iter().position(|x| <bool expression in x>), format!("..{}..", e), String::new(),
               EffectKind::{Allow, Indeterminate, Deny}, if c { e } else { e },
               match e { Some(x) [if g] => e, None [if g] => e, _ [if g] => e }, { let ..; e },
               Ok((e, None)), Err(<X>Error::V(..).into())
  cfg          resolved as in part 4 (FEATURES of rs2coq.py; `explain` is off)

Translation: continuation-passing, as in part 3: a block is a term of type `flow S (outcome bool)`; a `for`
is `rs_for` over the tuple (sorted by name) of the mutable locals that the body changes; an expression that
can panic (index, next, new_stream) has type `option T`; the function is `rs_result` of its body."""
import os
import re
import sys

sys.path.insert(0, os.path.dirname(os.path.abspath(__file__)))
import pins  # noqa: E402
import rs2coq  # noqa: E402
from rs2coq import Untranslatable, coq_text, FEATURES  # noqa: E402

ENF_FILE = "src/enforcer.rs"
MACRO_FILE = "src/macros.rs"

LTOK = re.compile(r"""\s*(?:(//[^\n]*)|(/\*.*?\*/)|("(?:[^"\\]|\\.)*")|(\d+)|([A-Za-z_]\w*!?)"""
                  r"""|(::|=>|->|\|\||&&|==|!=|<=|>=|[#{}()\[\];=!&.,<>?|:*+\-])|(\S))""", re.S)
KEYWORDS = ("let", "return", "else", "match", "while", "for", "loop", "mut", "fn", "async", "move", "ref", "in", "as",
            "if", "break", "continue")


def llex(src):
    out = []
    i = 0
    while i < len(src):
        if src[i:].strip() == "":
            break
        m = LTOK.match(src, i)
        if not m:
            raise Untranslatable("cannot tokenise at: %r" % src[i:i + 30])
        i = m.end()
        if m.group(1) or m.group(2):
            continue
        if m.group(7) is not None:
            raise Untranslatable("unexpected character %r" % m.group(7))
        for k, kind in ((3, "str"), (4, "int"), (5, "id"), (6, "op")):
            if m.group(k) is not None:
                out.append((kind, m.group(k)))
                break
    return out


# ---------------------------------------------------------------------- parser
class LP:
    """AST
       block = (stmts, final expression | None)
       stmt  = ("let", pattern, e) | ("ret", e) | ("break",) | ("if", cond, block, block | None) | ("for", pattern, e, block)
             | ("expr", e) | ("block", block)
       cond  = ("c", e) | ("iflet", x, e)                         pattern = ("v", x, mutable) | ("tup", [x])
       e     = ("var", x) | ("str", s) | ("int", n) | ("lit", b) | ("not", e) | ("and", a, b) | ("or", a, b)
             | ("cmp", op, a, b) | ("field", e, f) | ("mcall", e, m, args, turbofish | None) | ("index", e, i)
             | ("try", e) | ("path", name, args | None) | ("macro", name, args) | ("tuple", es)
             | ("ifx", cond, block, block) | ("match", e, [(pat, guard | None, e)]) | ("blockv", block)
             | ("closure", [x], e)                                 pat = ("some", x) | ("none",) | ("wild",)"""

    def __init__(self, toks, features):
        self.t = toks
        self.i = 0
        self.features = features
        self.nostruct = 0

    def peek(self, k=0):
        return self.t[self.i + k] if self.i + k < len(self.t) else ("eof", "")

    def eat(self, val=None):
        tk = self.peek()
        if val is not None and tk[1] != val:
            raise Untranslatable("expected %r, found %r" % (val, tk[1] or "end of body"))
        if tk[0] == "eof":
            raise Untranslatable("unexpected end of the body")
        self.i += 1
        return tk

    def name(self, what):
        kind, x = self.eat()
        if kind != "id" or x.endswith("!") or x in KEYWORDS:
            raise Untranslatable("%s %s" % (what, x))
        return x

    # ---- cfg (as in part 4)
    def cfg(self):
        self.eat("#")
        self.eat("[")
        if self.peek() != ("id", "cfg"):
            raise Untranslatable("attribute #[%s..]" % self.peek()[1])
        self.eat()
        self.eat("(")
        v = self.pred()
        if self.peek() == ("op", ","):
            self.eat()
        self.eat(")")
        self.eat("]")
        return v

    def pred(self):
        kind, v = self.eat()
        if (kind, v) == ("id", "feature"):
            self.eat("=")
            k2, lit = self.eat()
            if k2 != "str":
                raise Untranslatable("cfg(feature = %s)" % lit)
            name = lit[1:-1]
            if name not in self.features:
                raise Untranslatable("cfg on the unknown feature %r" % name)
            return self.features[name]
        if kind == "id" and v in ("any", "all", "not"):
            self.eat("(")
            vals = []
            while self.peek() != ("op", ")"):
                vals.append(self.pred())
                if self.peek() == ("op", ","):
                    self.eat()
                elif self.peek() != ("op", ")"):
                    raise Untranslatable("cfg predicate near %r" % self.peek()[1])
            self.eat(")")
            if v == "not":
                if len(vals) != 1:
                    raise Untranslatable("cfg(not(..)) with %d operands" % len(vals))
                return not vals[0]
            return any(vals) if v == "any" else all(vals)
        raise Untranslatable("cfg predicate %r" % v)

    # ---- expressions
    def expr(self):
        e = self.and_()
        while self.peek() == ("op", "||"):
            self.eat()
            e = ("or", e, self.and_())
        return e

    def and_(self):
        e = self.cmp()
        while self.peek() == ("op", "&&"):
            self.eat()
            e = ("and", e, self.cmp())
        return e

    def cmp(self):
        a = self.unary()
        if self.peek()[0] == "op" and self.peek()[1] in ("==", "!=", "<", ">", "<=", ">="):
            op = self.eat()[1]
            return ("cmp", op, a, self.unary())
        return a

    def unary(self):
        if self.peek() == ("op", "!"):
            self.eat()
            return ("not", self.unary())
        if self.peek() in (("op", "&"), ("op", "*")):       # reference / dereference: identity
            self.eat()
            if self.peek() == ("id", "mut"):
                self.eat()
            return self.unary()
        return self.postfix()

    def args(self, closer=")"):
        out = []
        while self.peek() != ("op", closer):
            out.append(self.expr())
            if self.peek() == ("op", ","):
                self.eat()
            elif self.peek() != ("op", closer):
                raise Untranslatable("argument list near %r" % self.peek()[1])
        self.eat(closer)
        return out

    def generics(self):
        """< .. > balanced, as text"""
        self.eat("<")
        depth, out = 1, ["<"]
        while depth:
            kind, v = self.eat()
            if v == "<":
                depth += 1
            elif v == ">":
                depth -= 1
            out.append(v)
        return "".join(out)

    def postfix(self):
        e = self.primary()
        while True:
            if self.peek() == ("op", "."):
                self.eat()
                name = self.name("method / field name")
                turbofish = None
                if self.peek() == ("op", "::"):
                    self.eat()
                    turbofish = self.generics()
                if self.peek() != ("op", "("):
                    if turbofish:
                        raise Untranslatable("generic field access")
                    e = ("field", e, name)
                    continue
                self.eat("(")
                save, self.nostruct = self.nostruct, 0
                a = self.args()
                self.nostruct = save
                e = ("mcall", e, name, a, turbofish)
            elif self.peek() == ("op", "["):
                self.eat()
                save, self.nostruct = self.nostruct, 0
                ix = self.expr()
                self.nostruct = save
                self.eat("]")
                e = ("index", e, ix)
            elif self.peek() == ("op", "?"):
                self.eat()
                e = ("try", e)
            else:
                return e

    def path(self):
        parts = [self.name("path segment")]
        while self.peek() == ("op", "::"):
            self.eat()
            if self.peek() == ("op", "<"):
                parts[-1] += "::" + self.generics()
            else:
                parts.append(self.name("path segment"))
        return "::".join(parts)

    def primary(self):
        kind, v = self.peek()
        if kind == "str":
            self.eat()
            return ("str", pins.rust_unescape(v[1:-1]))
        if kind == "int":
            self.eat()
            return ("int", v)
        if kind == "op" and v == "(":
            self.eat()
            save, self.nostruct = self.nostruct, 0
            es, trailing = [], False
            while self.peek() != ("op", ")"):
                es.append(self.expr())
                trailing = False
                if self.peek() == ("op", ","):
                    self.eat()
                    trailing = True
                elif self.peek() != ("op", ")"):
                    raise Untranslatable("parenthesised expression near %r" % self.peek()[1])
            self.eat(")")
            self.nostruct = save
            if len(es) == 1 and not trailing:
                return es[0]
            return ("tuple", es)
        if kind == "op" and v == "{":
            save, self.nostruct = self.nostruct, 0
            b = self.block()
            self.nostruct = save
            return ("blockv", b)
        if kind == "op" and v in ("|", "||"):
            params = []
            if v == "|":
                self.eat()
                while self.peek() != ("op", "|"):
                    if self.peek() in (("op", "&"), ("id", "mut")):
                        raise Untranslatable("closure parameter pattern")
                    params.append(self.name("closure parameter"))
                    if self.peek() == ("op", ","):
                        self.eat()
                self.eat("|")
            else:
                self.eat()
            return ("closure", params, self.expr())
        if kind == "id":
            if v == "if":
                return self.if_(True)
            if v == "match":
                return self.match_()
            if v in ("true", "false"):
                self.eat()
                return ("lit", v)
            if v.endswith("!"):
                self.eat()
                closer = {"(": ")", "[": "]"}.get(self.peek()[1])
                if closer is None:
                    raise Untranslatable("macro %s with a {..} body" % v)
                self.eat()
                save, self.nostruct = self.nostruct, 0
                a = self.args(closer)
                self.nostruct = save
                return ("macro", v[:-1], a)
            if v in KEYWORDS:
                raise Untranslatable("unsupported %s in an expression" % v)
            p = self.path()
            if self.peek() == ("op", "("):
                self.eat()
                save, self.nostruct = self.nostruct, 0
                a = self.args()
                self.nostruct = save
                return ("path", p, a)
            if "::" in p or p in ("None",):
                return ("path", p, None)
            return ("var", p)
        raise Untranslatable("unexpected token " + (v or "end of body"))

    def match_(self):
        self.eat("match")
        self.nostruct += 1
        scrut = self.expr()
        self.nostruct -= 1
        self.eat("{")
        arms = []
        while self.peek() != ("op", "}"):
            kind, v = self.peek()
            if (kind, v) == ("id", "Some"):
                self.eat()
                self.eat("(")
                pat = ("some", self.name("pattern variable"))
                self.eat(")")
            elif (kind, v) == ("id", "None"):
                self.eat()
                pat = ("none",)
            elif (kind, v) == ("id", "_"):
                self.eat()
                pat = ("wild",)
            else:
                raise Untranslatable("match pattern starting with %r" % v)
            guard = None
            if self.peek() == ("id", "if"):
                self.eat()
                guard = self.expr()
            self.eat("=>")
            body = self.expr()
            if self.peek() == ("op", ","):
                self.eat()
            elif self.peek() != ("op", "}") and body[0] != "blockv":
                raise Untranslatable("match arm not followed by a comma")
            arms.append((pat, guard, body))
        self.eat("}")
        return ("match", scrut, arms)

    # ---- statements
    def block(self):
        self.eat("{")
        b = self.seq()
        self.eat("}")
        return b

    def if_(self, as_expr=False):
        self.eat("if")
        if self.peek() == ("id", "let"):
            self.eat()
            self.eat("Some")
            self.eat("(")
            x = self.name("pattern variable")
            self.eat(")")
            self.eat("=")
            self.nostruct += 1
            cond = ("iflet", x, self.expr())
            self.nostruct -= 1
        else:
            self.nostruct += 1
            cond = ("c", self.expr())
            self.nostruct -= 1
        th = self.block()
        el = None
        if self.peek() == ("id", "else"):
            self.eat()
            if self.peek() == ("id", "if"):
                inner = self.if_(as_expr)
                el = ([], inner) if as_expr else ([inner], None)
            else:
                el = self.block()
        if as_expr:
            if el is None:
                raise Untranslatable("if without else used as a value")
            return ("ifx", cond, th, el)
        return ("if", cond, th, el)

    def pattern(self):
        if self.peek() == ("op", "("):
            self.eat()
            names = []
            while self.peek() != ("op", ")"):
                names.append(self.name("pattern variable"))
                if self.peek() == ("op", ","):
                    self.eat()
            self.eat(")")
            return ("tup", names)
        mutable = False
        if self.peek() == ("id", "mut"):
            self.eat()
            mutable = True
        return ("v", self.name("pattern variable"), mutable)

    def seq(self):
        stmts, final = [], None
        while self.peek() != ("op", "}") and self.peek()[0] != "eof":
            if final is not None:
                raise Untranslatable("statement after the value of a block")
            kind, v = self.peek()
            if (kind, v) == ("op", "#"):
                keep = self.cfg()
                if self.peek() != ("op", "{"):
                    raise Untranslatable("#[cfg] on something that is not a block")
                b = self.block()
                if keep:
                    stmts.append(("block", b))
            elif (kind, v) == ("op", "{"):
                stmts.append(("block", self.block()))
            elif (kind, v) == ("id", "let"):
                self.eat()
                pat = self.pattern()
                if self.peek() == ("op", ":"):           # a type annotation: skipped
                    self.eat()
                    depth = 0
                    while not (depth == 0 and self.peek() == ("op", "=")):
                        tk = self.eat()
                        depth += (tk[1] in "<([") - (tk[1] in ">)]") if tk[0] == "op" and len(tk[1]) == 1 else 0
                self.eat("=")
                e = self.expr()
                self.eat(";")
                stmts.append(("let", pat, e))
            elif (kind, v) == ("id", "return"):
                self.eat()
                e = self.expr()
                if self.peek() == ("op", ";"):
                    self.eat()
                stmts.append(("ret", e))
            elif (kind, v) == ("id", "break"):
                self.eat()
                self.eat(";")
                stmts.append(("break",))
            elif (kind, v) == ("id", "if"):
                start = self.i
                st = self.if_(False)
                if self.peek() == ("op", ";"):
                    self.eat()
                    stmts.append(st)
                elif self.peek() == ("op", "}") and st[3] is not None and (st[2][1] is not None):
                    self.i = start                      # an if with a value in last position: the value of the block
                    final = self.if_(True)
                else:
                    stmts.append(st)
            elif (kind, v) == ("id", "for"):
                self.eat()
                pat = self.pattern()
                self.eat("in")
                self.nostruct += 1
                it = self.expr()
                self.nostruct -= 1
                stmts.append(("for", pat, it, self.block()))
            else:
                e = self.expr()
                if self.peek() == ("op", ";"):
                    self.eat()
                    stmts.append(("expr", e))
                elif e[0] == "match" and self.peek() != ("op", "}"):
                    stmts.append(("expr", e))
                else:
                    final = e
        if final is None and stmts and stmts[-1][0] == "block" and stmts[-1][1][1] is not None:
            final = ("blockv", stmts[-1][1])
            stmts = stmts[:-1]
        return (stmts, final)


def nodes(node):
    if isinstance(node, tuple):
        if node and isinstance(node[0], str):
            yield node
        for x in node:
            for y in nodes(x):
                yield y
    elif isinstance(node, list):
        for x in node:
            for y in nodes(x):
                yield y


# ---------------------------------------------------------------------- the lookup macros
def read_lookup_macros():
    """name -> (parameter names, index of the section parameter, of the key parameter, of the error parameter, of `self`)
       for every macro of src/macros.rs of the form
         $this.get_model().get_model().get($A).ok_or_else(|| Error::from($E(..)))?.get($B).ok_or_else(|| Error::from($E(..)))?"""
    src = pins.strip_rust_comments(pins.read(MACRO_FILE) or "")
    out = {}
    for m in re.finditer(r"macro_rules!\s*(\w+)\s*\{", src):
        body = pins.balanced(src, m.end() - 1)
        if body is None:
            continue
        mm = re.match(r"\{\s*\(([^)]*)\)\s*=>\s*\{\{(.*)\}\}\s*;?\s*\}$", body, re.S)
        if not mm:
            continue
        params = [re.sub(r"\s+", "", x) for x in mm.group(1).split(",") if x.strip()]
        if not all(re.match(r"\$\w+:(ident|expr)$", x) for x in params):
            continue
        names = [x[1:].split(":")[0] for x in params]
        text = re.sub(r"\s+", "", mm.group(2))
        err = r"\.ok_or_else\(\|\|\{\$crate::error::Error::from\(\$(\w+)\(format!\(\"[^\"]*\",\$\w+\)\)\)\}\)\?"
        t = re.match(r"^\$(\w+)\.get_model\(\)\.get_model\(\)\.get\(\$(\w+)\)" + err + r"\.get\(\$(\w+)\)" + err + "$", text)
        if not t:
            continue
        this, sec, e1, key, e2 = t.groups()
        if e1 != e2 or any(x not in names for x in (this, sec, key, e1)):
            continue
        out[m.group(1)] = (names, names.index(sec), names.index(key), names.index(e1), names.index(this))
    return out


ERR_CLASS = {"ModelError": "EModel", "RequestError": "ERequest", "PolicyError": "EPolicy"}
EFFECTS = {"EffectKind::Allow": "Allow", "EffectKind::Indeterminate": "Indet", "EffectKind::Deny": "Deny"}
IDENTITY = ("iter", "to_owned", "clone", "to_string", "into_iter", "as_str")
SCOPE_MUT = ("push_constant", "push_constant_dynamic", "rewind")
CTX_FIELDS = {"r_type": "rk", "p_type": "pk", "e_type": "ek", "m_type": "mk"}


def tyname(t):
    if isinstance(t, tuple):
        if t[0] == "vec":
            return "Vec<%s>" % tyname(t[1])
        if t[0] == "opt":
            return "Option<%s>" % tyname(t[1])
        if t[0] == "tuple":
            return "(%s)" % ", ".join(tyname(x) for x in t[1])
        if t[0] == "ast":
            return "Assertion"
        if t[0] == "result":
            return "Result<%s>" % tyname(t[1])
    return str(t)


RULE = ("vec", "text")


def mutated(block, declared=()):
    """names declared outside the block that the block may change (assignment is outside the subset: only
       through the mutating methods of Scope and push_effect)"""
    out = set()
    declared = set(declared)

    def expr_muts(e):
        for n in nodes(e):
            if n[0] == "mcall" and n[1][0] == "var" and (n[2] in SCOPE_MUT or n[2] == "push_effect"):
                if n[1][1] not in declared:
                    out.add(n[1][1])
    for st in block[0]:
        k = st[0]
        if k == "let":
            expr_muts(st[2])
            declared.update([st[1][1]] if st[1][0] == "v" else st[1][1])
        elif k in ("ret", "expr"):
            expr_muts(st[1])
        elif k == "if":
            expr_muts(st[1][-1])
            inner = set(declared)
            if st[1][0] == "iflet":
                inner.add(st[1][1])
            out |= mutated(st[2], inner)
            if st[3] is not None:
                out |= mutated(st[3], declared)
        elif k == "for":
            expr_muts(st[2])
            inner = set(declared)
            inner.update([st[1][1]] if st[1][0] == "v" else st[1][1])
            out |= mutated(st[3], inner)
        elif k == "block":
            out |= mutated(st[1], declared)
    if block[1] is not None:
        expr_muts(block[1])
    return out


def let_names(block):
    """names bound by `let` / `if let` anywhere in the statements of a block (not in nested closures / match arms)"""
    out = set()
    for st in block[0]:
        k = st[0]
        if k == "let":
            out.update([st[1][1]] if st[1][0] == "v" else st[1][1])
        elif k == "if":
            if st[1][0] == "iflet":
                out.add(st[1][1])
            out |= let_names(st[2])
            if st[3] is not None:
                out |= let_names(st[3])
        elif k == "for":
            out |= let_names(st[3])
        elif k == "block":
            out |= let_names(st[1])
    return out


def no_shadow(block, env, pattern=()):
    """what follows a nested block is emitted INSIDE its Coq scope: a local of the block must not hide an outer name"""
    if block is None:
        return
    bad = sorted((let_names(block) | set(pattern)) & set(env))
    if bad:
        raise Untranslatable("a nested block rebinds the outer name %s" % bad[0])


class EmitL:
    """env: Rust name -> [type, term, mutable]"""

    def __init__(self, macros):
        self.macros = macros
        self.loops = []
        self.n = 0

    def fresh(self, base="x"):
        self.n += 1
        return "%s%d_" % (base, self.n)

    def tup(self, names):
        if not names:
            return "tt"
        if len(names) == 1:
            return "v_" + names[0]
        return "(%s)" % ", ".join("v_" + x for x in names)

    def lam_pat(self, names):
        if not names:
            return "(_ : unit)"
        if len(names) == 1:
            return "v_" + names[0]
        return "'" + self.tup(names)

    # ------------------------------------------------------------ expressions: (type, term, partial)
    def binds(self, parts, build):
        names, wrap = [], []
        for term, partial in parts:
            if partial:
                x = self.fresh("ix")
                wrap.append((x, term))
                names.append(x)
            else:
                names.append(term)
        body = build(names)
        if not wrap:
            return body, False
        out = "(Some %s)" % body
        for x, term in reversed(wrap):
            out = "(match %s with Some %s => %s | None => None end)" % (term, x, out)
        return out, True

    def total(self, e, env, what):
        t, a, p = self.ex(e, env)
        if p:
            raise Untranslatable("%s can panic" % what)
        return t, a

    def ex(self, e, env):
        k = e[0]
        if k == "var":
            if e[1] not in env:
                raise Untranslatable("identifier " + e[1])
            return env[e[1]][0], env[e[1]][1], False
        if k == "int":
            return "nat", e[1], False
        if k == "lit":
            return "bool", e[1], False
        if k == "str":
            return "text", coq_text(e[1]), False
        if k == "tuple":
            subs = [self.ex(x, env) for x in e[1]]
            term, partial = self.binds([(s[1], s[2]) for s in subs], lambda xs: "(%s)" % ", ".join(xs))
            return ("tuple", tuple(s[0] for s in subs)), term, partial
        if k == "not":
            t, a, p = self.ex(e[1], env)
            if t != "bool":
                raise Untranslatable("! on a " + tyname(t))
            term, partial = self.binds([(a, p)], lambda xs: "(negb %s)" % xs[0])
            return "bool", term, partial
        if k in ("and", "or"):
            ta, a = self.total(e[1], env, "an operand of && / ||")
            tb, b = self.total(e[2], env, "an operand of && / ||")
            if ta != "bool" or tb != "bool":
                raise Untranslatable("%s on non-booleans" % k)
            return "bool", "(%s %s %s)" % (a, "&&" if k == "and" else "||", b), False
        if k == "cmp":
            op = e[1]
            ta, a, pa = self.ex(e[2], env)
            tb, b, pb = self.ex(e[3], env)
            if ta != tb:
                raise Untranslatable("comparison of %s with %s" % (tyname(ta), tyname(tb)))
            if op in ("==", "!="):
                fn = {"text": "rs_eq", "bool": "Bool.eqb", "nat": "Nat.eqb"}.get(ta) if isinstance(ta, str) else None
                if fn is None:
                    raise Untranslatable("comparison of two %s" % tyname(ta))
                fmt = "(negb (%s %%s %%s))" % fn if op == "!=" else "(%s %%s %%s)" % fn
                term, partial = self.binds([(a, pa), (b, pb)], lambda xs: fmt % (xs[0], xs[1]))
                return "bool", term, partial
            if ta != "nat":
                raise Untranslatable("%s on two %s" % (op, tyname(ta)))
            fmt = {"<": "(Nat.ltb %s %s)", "<=": "(Nat.leb %s %s)"}.get(op)
            if fmt is None:                                    # a > b is b < a, a >= b is b <= a
                fmt = {">": "(Nat.ltb %s %s)", ">=": "(Nat.leb %s %s)"}[op]
                term, partial = self.binds([(a, pa), (b, pb)], lambda xs: fmt % (xs[1], xs[0]))
            else:
                term, partial = self.binds([(a, pa), (b, pb)], lambda xs: fmt % (xs[0], xs[1]))
            return "bool", term, partial
        if k == "index":
            tv, v, pv = self.ex(e[1], env)
            ti, i, pi = self.ex(e[2], env)
            if not (isinstance(tv, tuple) and tv[0] == "vec") or ti != "nat":
                raise Untranslatable("index of a %s by a %s" % (tyname(tv), tyname(ti)))
            if pv or pi:
                raise Untranslatable("index whose operands can panic")
            return tv[1], "(rs_index %s %s)" % (v, i), True
        if k == "field":
            if e[1] == ("var", "self"):
                if e[2] == "enabled":
                    return "bool", "enabled", False
                if e[2] == "eft":
                    return "effector", "", False
                if e[2] == "engine":
                    return "engine", "", False
                raise Untranslatable("self." + e[2])
            t, a, p = self.ex(e[1], env)
            if p:
                raise Untranslatable("field of an expression that can panic")
            if t == "ctx" and e[2] in CTX_FIELDS:
                return "text", CTX_FIELDS[e[2]], False
            if isinstance(t, tuple) and t[0] == "ast" and e[2] == "tokens":
                return ("vec", "text"), "(a_tokens %s)" % a, False
            if isinstance(t, tuple) and t[0] == "ast" and e[2] == "value":
                return ("astvalue", t), "(a_value %s)" % a, False
            raise Untranslatable("field .%s of a %s" % (e[2], tyname(t)))
        if k == "path":
            return self.path(e, env)
        if k == "macro":
            return self.macro(e, env)
        if k == "mcall":
            return self.mcall(e, env)
        if k == "ifx":
            return self.ifx(e, env)
        if k == "match":
            return self.match(e, env)
        if k == "blockv":
            return self.blockv(e[1], env)
        if k == "try":
            raise Untranslatable("`?` outside `let x = ..?;`")
        if k == "closure":
            raise Untranslatable("closure outside .position(..)")
        raise Untranslatable("expression " + k)

    def path(self, e, env):
        name, args = e[1], e[2]
        if name in EFFECTS and args is None:
            return "eff", EFFECTS[name], False
        if name == "Scope::new" and args == []:
            return "scope", "sc_new", False
        if name == "String::new" and args == []:
            return "text", "rs_string_new", False
        if name in ("max", "std::cmp::max", "cmp::max") and args is not None and len(args) == 2:
            ta, a, pa = self.ex(args[0], env)
            tb, b, pb = self.ex(args[1], env)
            if ta != "nat" or tb != "nat":
                raise Untranslatable("max of %s and %s" % (tyname(ta), tyname(tb)))
            term, partial = self.binds([(a, pa), (b, pb)], lambda xs: "(Nat.max %s %s)" % (xs[0], xs[1]))
            return "nat", term, partial
        if name == "None" and args is None:
            return "none", "", False
        raise Untranslatable("path / call " + name)

    def macro(self, e, env):
        name, args = e[1], e[2]
        if name == "format":
            if not args or args[0][0] != "str":
                raise Untranslatable("format! without a literal template")
            tpl = args[0][1]
            pieces = tpl.split("{}")
            if len(pieces) != 2 or "{" in tpl.replace("{}", "") or "}" in tpl.replace("{}", "") or len(args) != 2:
                raise Untranslatable("format! template %r (exactly one {} is supported)" % tpl)
            t, a = self.total(args[1], env, "a format! argument")
            if t != "text":
                raise Untranslatable("format! of a " + tyname(t))
            return "text", "(rs_format1 %s %s %s)" % (coq_text(pieces[0]), coq_text(pieces[1]), a), False
        raise Untranslatable("macro %s! in an expression" % name)

    def mcall(self, e, env):
        recv, name, args, turbofish = e[1], e[2], e[3], e[4]
        # self.eft.new_stream(text, cap)
        if recv == ("field", ("var", "self"), "eft") and name == "new_stream" and len(args) == 2 and turbofish is None:
            tt, a = self.total(args[0], env, "the effect expression")
            tc, c = self.total(args[1], env, "the capacity")
            if not (isinstance(tt, tuple) and tt[0] == "astvalue") or tc != "nat":
                raise Untranslatable("new_stream(%s, %s)" % (tyname(tt), tyname(tc)))
            return "stream", "(new_stream %s %s)" % (a, c), True
        if recv == ("field", ("var", "self"), "engine"):
            return self.engine(name, args, turbofish, env)
        if name == "map_err":
            t, a, p = self.ex(recv, env)
            if t == ("result", "compiled") and len(args) == 1 and args[0][0] == "path" and \
                    re.sub(r"\s+", "", args[0][1]) == "Into::<Box<EvalAltResult>>::into" and args[0][2] is None:
                return ("result", "compiled:evalerr"), a, p
            raise Untranslatable("map_err on a %s / with another conversion" % tyname(t))
        if name == "position" and len(args) == 1 and args[0][0] == "closure" and turbofish is None:
            t, a = self.total(recv, env, "the receiver of position")
            if t != ("vec", "text"):
                raise Untranslatable("position on a " + tyname(t))
            params, body = args[0][1], args[0][2]
            if len(params) != 1:
                raise Untranslatable("position closure with %d parameters" % len(params))
            env2 = dict(env)
            env2[params[0]] = ["text", "v_" + params[0], False]
            tb, b = self.total(body, env2, "the position predicate")
            if tb != "bool":
                raise Untranslatable("position predicate of type " + tyname(tb))
            return ("opt", "nat"), "(rs_position (fun v_%s => %s) %s)" % (params[0], b, a), False
        if name == "push_effect":
            raise Untranslatable("push_effect inside a larger expression")
        t, a, p = self.ex(recv, env)
        if turbofish is not None:
            raise Untranslatable("generic method ." + name)
        isvec = isinstance(t, tuple) and t[0] == "vec"
        if name in IDENTITY and not args and (isvec or t in ("text", "value") or (isinstance(t, tuple) and t[0] == "astvalue")):
            return t, a, p
        if name == "len" and not args and (isvec or t == "scope"):
            fn = "sc_len" if t == "scope" else "length"
            term, partial = self.binds([(a, p)], lambda xs: "(%s %s)" % (fn, xs[0]))
            return "nat", term, partial
        if name == "is_empty" and not args and (isvec or t == "text"):
            fn = "rs_is_empty" if t == "text" else "rs_vec_is_empty"
            term, partial = self.binds([(a, p)], lambda xs: "(%s %s)" % (fn, xs[0]))
            return "bool", term, partial
        if name == "zip" and len(args) == 1 and isvec:
            tb, b, pb = self.ex(args[0], env)
            if not (isinstance(tb, tuple) and tb[0] == "vec"):
                raise Untranslatable("zip with a " + tyname(tb))
            term, partial = self.binds([(a, p), (b, pb)], lambda xs: "(rs_zip %s %s)" % (xs[0], xs[1]))
            return ("vec", ("tuple", (t[1], tb[1]))), term, partial
        if name == "get_policy" and not args and isinstance(t, tuple) and t[0] == "ast":
            return ("vec", RULE), "(a_policy %s)" % a, p
        if name == "next" and not args and t == "stream":
            if p:
                raise Untranslatable("next() of an expression that can panic")
            return "bool", "(next %s)" % a, True
        raise Untranslatable("method .%s on a %s" % (name, tyname(t)))

    def engine(self, name, args, turbofish, env):
        if name == "compile_expression" and turbofish is None and len(args) == 1:
            a0 = args[0]
            if a0[0] == "path" and a0[1] == "escape_eval" and a0[2] is not None and len(a0[2]) == 1:
                t, a = self.total(a0[2][0], env, "the matcher text")
                if isinstance(t, tuple) and t[0] == "astvalue":
                    sec, key = t[1][1], t[1][2]
                    if sec != "m":
                        raise Untranslatable("the compiled text is the value of a %r assertion: only the parsed form of "
                                             "the matchers (section \"m\") is in the model" % sec)
                    return ("result", "compiled"), "(assoc %s mexprs)" % key, False
            raise Untranslatable("compile_expression of something else than escape_eval(&<m assertion>.value)")
        if name == "eval_ast_with_scope" and len(args) == 2:
            if turbofish is None or re.sub(r"\s+", "", turbofish) != "<bool>":
                raise Untranslatable("eval_ast_with_scope::%s (the model evaluates the matcher to a bool)" % turbofish)
            ts, s = self.total(args[0], env, "the scope")
            tm, m = self.total(args[1], env, "the compiled matcher")
            if ts != "scope" or tm != "compiled":
                raise Untranslatable("eval_ast_with_scope(%s, %s)" % (tyname(ts), tyname(tm)))
            return ("result", "bool"), "(eval_matcher ptab fs %s %s)" % (m, s), False
        raise Untranslatable("self.engine.%s" % name)

    def lift(self, val, partial):
        return val[1] if val[2] or not partial else "(Some %s)" % val[1]

    def join(self, vals, what):
        ts = [v[0] for v in vals]
        if any(t != ts[0] for t in ts):
            raise Untranslatable("%s of different types: %s" % (what, ", ".join(tyname(t) for t in ts)))
        partial = any(v[2] for v in vals)
        return ts[0], partial

    def ifx(self, e, env):
        cond, th, el = e[1], e[2], e[3]
        if cond[0] == "iflet":
            return self.match(("match", cond[2], [(("some", cond[1]), None, ("blockv", th)),
                                                   (("wild",), None, ("blockv", el))]), env)
        tc, c = self.total(cond[1], env, "the condition of an if expression")
        if tc != "bool":
            raise Untranslatable("condition of type " + tyname(tc))
        a = self.blockv(th, env)
        b = self.blockv(el, env)
        t, partial = self.join([a, b], "branches of an if")
        return t, "(if %s then %s else %s)" % (c, self.lift(a, partial), self.lift(b, partial)), partial

    def match(self, e, env):
        ts, s = self.total(e[1], env, "the scrutinee of a match")
        if not (isinstance(ts, tuple) and ts[0] == "opt"):
            raise Untranslatable("match on a " + tyname(ts))
        sm = self.fresh("sm")
        vals = []

        def chain(arms, which):
            """the arms in order: the first whose pattern fits and whose guard holds"""
            for idx, (pat, guard, body) in enumerate(arms):
                fits = pat[0] == "wild" or pat[0] == which
                if not fits:
                    continue
                env2 = dict(env)
                if pat[0] == "some":
                    env2[pat[1]] = [ts[1], sm, False]
                v = self.ex(body, env2)
                if guard is None:
                    vals.append(v)
                    return ("val", v)
                tg, g = self.total(guard, env2, "a match guard")
                if tg != "bool":
                    raise Untranslatable("guard of type " + tyname(tg))
                vals.append(v)
                return ("if", g, v, chain(arms[idx + 1:], which))
            raise Untranslatable("match without an arm for every %s value" % ("Some" if which == "some" else "None"))
        cs = chain(e[2], "some")
        cn = chain(e[2], "none")
        t, partial = self.join(vals, "arms of a match")

        def render(c):
            if c[0] == "val":
                return self.lift(c[1], partial)
            return "(if %s then %s else %s)" % (c[1], self.lift(c[2], partial), render(c[3]))
        return t, "(match %s with Some %s => %s | None => %s end)" % (s, sm, render(cs), render(cn)), partial

    def blockv(self, blk, env):
        """{ let x = e; .. ; e }   as a value"""
        stmts, final = blk
        if final is None:
            raise Untranslatable("block without a value in expression position")
        if not stmts:
            return self.ex(final, env)
        st = stmts[0]
        if st[0] != "let" or st[1][0] != "v":
            raise Untranslatable("statement %s in a block used as a value" % st[0])
        t, a, p = self.ex(st[2], env)
        if isinstance(t, tuple) and t[0] == "result" or t in ("none", "effector", "engine"):
            raise Untranslatable("let of a %s in a block used as a value" % tyname(t))
        env2 = dict(env)
        env2[st[1][1]] = [t, "v_" + st[1][1], False]
        rt, r, rp = self.blockv((stmts[1:], final), env2)
        if p:
            return rt, "(match %s with Some v_%s => %s | None => None end)" % (a, st[1][1], r if rp else "(Some %s)" % r), True
        return rt, "(let v_%s := %s in %s)" % (st[1][1], a, r), rp

    # ------------------------------------------------------------ results
    def outcome(self, e, env):
        """Ok((e, None)) / Err(X.into()) -> a term of type flow _ (outcome bool)"""
        if e[0] == "path" and e[1] == "Ok" and e[2] is not None and len(e[2]) == 1:
            inner = e[2][0]
            if inner[0] != "tuple" or len(inner[1]) != 2:
                raise Untranslatable("Ok of something that is not a pair")
            t2 = self.ex(inner[1][1], env)
            if t2[0] != "none":
                raise Untranslatable("the explanation component is not None (feature `explain` is off)")
            t, a, p = self.ex(inner[1][0], env)
            if t != "bool":
                raise Untranslatable("Ok((%s, ..))" % tyname(t))
            if p:
                x = self.fresh("r")
                return "(match %s with Some %s => LReturn (Ok %s) | None => LPanic end)" % (a, x, x)
            return "(LReturn (Ok %s))" % a
        if e[0] == "path" and e[1] == "Err" and e[2] is not None and len(e[2]) == 1:
            inner = e[2][0]
            if inner[0] == "mcall" and inner[2] == "into" and not inner[3] and inner[1][0] == "path":
                cls = inner[1][1].split("::")[0]
                if cls in ERR_CLASS:
                    for a in inner[1][2] or []:
                        self.total(a, env, "an error payload")
                    return "(LReturn (Err %s))" % ERR_CLASS[cls]
            raise Untranslatable("Err of something that is not <X>Error::V(..).into()")
        raise Untranslatable("the function returns something that is not Ok((b, None)) / Err(..)")

    # ------------------------------------------------------------ statements
    def carried(self, env, names):
        out = []
        for x in sorted(names):
            if x not in env:
                raise Untranslatable("mutation of an unknown variable " + x)
            if not env[x][2]:
                raise Untranslatable("mutation of %s, which is not `let mut`" % x)
            out.append(x)
        return out

    def push_effect(self, e, env):
        """e = [!] X.push_effect(eft)  ->  (X, term of the new stream, term of the value) | None"""
        neg = False
        while e[0] == "not":
            neg = not neg
            e = e[1]
        if not (e[0] == "mcall" and e[2] == "push_effect"):
            return None
        if e[1][0] != "var" or e[1][1] not in env or env[e[1][1]][0] != "stream" or len(e[3]) != 1 or e[4] is not None:
            raise Untranslatable("push_effect on something that is not a local effect stream")
        x = e[1][1]
        self.carried(env, [x])
        t, a = self.total(e[3][0], env, "the pushed effect")
        if t != "eff":
            raise Untranslatable("push_effect(%s)" % tyname(t))
        val = "(done v_%s)" % x
        return x, "(push v_%s %s)" % (x, a), ("(negb %s)" % val if neg else val)

    def bind_value(self, name, val, rest):
        t, a, p = val
        if p:
            return "(match %s with\n | Some %s => %s\n | None => LPanic end)" % (a, name, rest)
        return "(let %s := %s in\n %s)" % (name, a, rest)

    def seq(self, stmts, final, env, k):
        """k(env, final) is the term of what follows the block"""
        if not stmts:
            return k(env, final)
        st, rest = stmts[0], stmts[1:]
        kind = st[0]

        def cont(en):
            return self.seq(rest, final, en, k)
        if kind == "block":
            if st[1][1] is not None:
                raise Untranslatable("nested block with an unused value")
            no_shadow(st[1], env)
            return self.seq(st[1][0], None, env, lambda en, _f: cont({x: en[x] for x in en if x in env}))
        if kind == "let":
            return self.let(st, env, cont)
        if kind == "ret":
            if rest or final is not None:
                raise Untranslatable("code after return")
            return self.outcome(st[1], env)
        if kind == "break":
            if rest or final is not None:
                raise Untranslatable("code after break")
            if not self.loops:
                raise Untranslatable("break outside a for loop")
            return "(LBreak %s)" % self.tup(self.loops[-1])
        if kind == "expr":
            return self.expr_stmt(st[1], env, cont)
        if kind == "if":
            return self.if_(st, env, cont)
        if kind == "for":
            return self.for_(st, env, cont)
        raise Untranslatable("statement " + kind)

    def let(self, st, env, cont):
        pat, e = st[1], st[2]
        if pat[0] == "tup":
            if e[0] == "tuple" and len(e[1]) == len(pat[1]):
                # let (a, b) = (e1, e2): the components in order (none of them mentions a or b: checked)
                for sub in e[1]:
                    if any(n[0] == "var" and n[1] in pat[1] for n in nodes(sub)):
                        raise Untranslatable("let (..) = (..) whose right-hand side mentions a bound name")
                stmts = [("let", ("v", x, False), sub) for x, sub in zip(pat[1], e[1])]
                return self.seq(stmts, None, env, lambda en, _f: cont(en))
            raise Untranslatable("let with a tuple pattern on something that is not a tuple")
        x, mutable = pat[1], pat[2]
        # the lookup macros
        if e[0] == "macro" and e[1] in self.macros:
            names, isec, ikey, ierr, ithis = self.macros[e[1]]
            if len(e[2]) != len(names):
                raise Untranslatable("%s! with %d arguments" % (e[1], len(e[2])))
            if e[2][ithis] != ("var", "self"):
                raise Untranslatable("%s! on something else than self" % e[1])
            if e[2][isec][0] != "str":
                raise Untranslatable("%s!: the section is not a literal" % e[1])
            sec = e[2][isec][1]
            tk, key = self.total(e[2][ikey], env, "the key of a lookup")
            if tk != "text":
                raise Untranslatable("%s!: key of type %s" % (e[1], tyname(tk)))
            err = e[2][ierr]
            cls = err[1].split("::")[0] if err[0] == "path" and err[2] is None else None
            if cls not in ERR_CLASS:
                raise Untranslatable("%s!: error constructor" % e[1])
            env2 = dict(env)
            env2[x] = [("ast", sec, key), "v_" + x, False]
            return "(match get_ast md %s %s with\n | Some v_%s => %s\n | None => LReturn (Err %s) end)" % (
                coq_text(sec), key, x, cont(env2), ERR_CLASS[cls])
        if e[0] == "try":
            t, a, p = self.ex(e[1], env)
            if p:
                raise Untranslatable("`?` on an expression that can panic")
            env2 = dict(env)
            if t == ("result", "compiled:evalerr"):
                env2[x] = ["compiled", "v_" + x, mutable]
                return "(match %s with\n | Some v_%s => %s\n | None => LReturn (Err EEvalc) end)" % (a, x, cont(env2))
            if t == ("result", "compiled"):
                raise Untranslatable("compile_expression(..)? without .map_err(Into::<Box<EvalAltResult>>::into): "
                                     "a parse error, not an evaluation error")
            if t == ("result", "bool"):
                env2[x] = ["bool", "v_" + x, mutable]
                return "(match %s with\n | Ok v_%s => %s\n | Err e_ => LReturn (Err e_)\n | Panic => LPanic end)" % (a, x, cont(env2))
            raise Untranslatable("`?` on a " + tyname(t))
        pe = self.push_effect(e, env)
        if pe is not None:
            sx, snew, val = pe
            env2 = dict(env)
            env2[x] = ["bool", "v_" + x, mutable]
            return "(let v_%s := %s in\n (let v_%s := %s in\n %s))" % (sx, snew, x, val, cont(env2))
        val = self.ex(e, env)
        t = val[0]
        if isinstance(t, tuple) and t[0] == "result" or t in ("none", "effector", "engine"):
            raise Untranslatable("let of a %s" % tyname(t))
        env2 = dict(env)
        env2[x] = [t, "v_" + x, mutable]
        return self.bind_value("v_" + x, val, cont(env2))

    def expr_stmt(self, e, env, cont):
        pe = self.push_effect(e, env)
        if pe is not None:
            sx, snew, _val = pe
            return "(let v_%s := %s in\n %s)" % (sx, snew, cont(env))
        if e[0] == "mcall" and e[1][0] == "var" and e[2] in SCOPE_MUT and e[4] is None:
            x = e[1][1]
            if x not in env or env[x][0] != "scope":
                raise Untranslatable(".%s on something that is not a local Scope" % e[2])
            self.carried(env, [x])
            if e[2] == "rewind" and len(e[3]) == 1:
                t, a = self.total(e[3][0], env, "the rewind length")
                if t != "nat":
                    raise Untranslatable("rewind(%s)" % tyname(t))
                return "(let v_%s := sc_rewind v_%s %s in\n %s)" % (x, x, a, cont(env))
            if e[2] in ("push_constant", "push_constant_dynamic") and len(e[3]) == 2:
                tn, n = self.total(e[3][0], env, "the name of a constant")
                tv, v = self.total(e[3][1], env, "the value of a constant")
                want = "text" if e[2] == "push_constant" else "value"
                if tn != "text" or tv != want:
                    raise Untranslatable("%s(%s, %s)" % (e[2], tyname(tn), tyname(tv)))
                return "(let v_%s := sc_push v_%s %s %s in\n %s)" % (x, x, n, "(VStr %s)" % v if want == "text" else v, cont(env))
        raise Untranslatable("expression statement")

    def if_(self, st, env, cont):
        cond, th, el = st[1], st[2], st[3]
        if th[1] is not None or (el is not None and el[1] is not None):
            raise Untranslatable("if with a value in statement position")
        els = el[0] if el is not None else []
        no_shadow(th, env, [cond[1]] if cond[0] == "iflet" else ())
        no_shadow(el, env)
        if cond[0] == "iflet":
            ts, s = self.total(cond[2], env, "the scrutinee of if let")
            if not (isinstance(ts, tuple) and ts[0] == "opt"):
                raise Untranslatable("if let Some(..) on a " + tyname(ts))
            env2 = dict(env)
            env2[cond[1]] = [ts[1], "v_" + cond[1], False]
            a = self.seq(th[0], None, env2, lambda en, _f: cont(env))
            b = self.seq(els, None, dict(env), lambda en, _f: cont(env))
            return "(match %s with\n | Some v_%s => %s\n | None => %s end)" % (s, cond[1], a, b)
        pre = ""
        post = ""
        pe = self.push_effect(cond[1], env)
        if pe is not None:
            sx, snew, c = pe
            pre, post = "(let v_%s := %s in\n " % (sx, snew), ")"
            p = False
        else:
            t, c, p = self.ex(cond[1], env)
            if t != "bool":
                raise Untranslatable("condition of type " + tyname(t))
        a = self.seq(th[0], None, dict(env), lambda en, _f: cont(env))
        b = self.seq(els, None, dict(env), lambda en, _f: cont(env))
        if p:
            return "(match %s with\n | Some true => %s\n | Some false => %s\n | None => LPanic end)" % (c, a, b)
        return "%s(if %s\n then %s\n else %s)%s" % (pre, c, a, b, post)

    def for_(self, st, env, cont):
        pat, it, body = st[1], st[2], st[3]
        if body[1] is not None:
            raise Untranslatable("loop body with a value")
        t, a = self.total(it, env, "the iterated expression")
        if not (isinstance(t, tuple) and t[0] == "vec"):
            raise Untranslatable("for over a " + tyname(t))
        env2 = dict(env)
        if pat[0] == "tup":
            if not (isinstance(t[1], tuple) and t[1][0] == "tuple" and len(t[1][1]) == len(pat[1]) == 2):
                raise Untranslatable("for pattern does not fit the iterator")
            for x, tx in zip(pat[1], t[1][1]):
                env2[x] = [tx, "v_" + x, False]
            lp = "'(v_%s, v_%s)" % (pat[1][0], pat[1][1])
            bound = set(pat[1])
        else:
            if isinstance(t[1], tuple) and t[1][0] == "tuple":
                raise Untranslatable("for over pairs without a pair pattern")
            env2[pat[1]] = [t[1], "v_" + pat[1], False]
            lp = "v_" + pat[1]
            bound = {pat[1]}
        no_shadow(body, env)
        names = self.carried(env, mutated(body, bound))
        self.loops.append(names)
        b = self.seq(body[0], None, env2, lambda en, _f: "(LNext %s)" % self.tup(names))
        self.loops.pop()
        return ("(match rs_for (fun %s %s =>\n %s)\n %s %s with\n | Done %s => %s\n | Returned ret_ => LReturn ret_\n | Panicked => LPanic end)"
                % (lp, self.lam_pat(names), b, a, self.tup(names), self.tup(names) if names else "_", cont(env)))

    def function(self, blk, env):
        def end(en, final):
            if final is None:
                raise Untranslatable("control reaches the end of the function without a value")
            return self.outcome(final, en)
        return self.seq(blk[0], blk[1], env, end)


# name, has a context parameter
ENF_FUNCS = (("private_enforce", False), ("private_enforce_with_context", True))
COMMON_BINDERS = "(ptab : text -> option expr) (enabled : bool) (md : model) (mexprs : list (text * expr)) (fs : fstate)"


def binders(with_ctx):
    return COMMON_BINDERS + (" (rk pk ek mk : text)" if with_ctx else "") + " (v_rvals : list value)"


def indent(term, base=2):
    """re-indent by parenthesis depth (readability of the generated file only)"""
    out, depth = [], 0
    for line in term.split("\n"):
        s = line.strip()
        out.append(" " * (base + min(depth, 40)) + s)
        in_str = False
        for c in s:
            if c == '"':
                in_str = not in_str
            elif not in_str:
                depth += (c == "(") - (c == ")")
    return "\n".join(out)


def translate_enforce_fn(src, start, name, with_ctx, macros):
    hdr = r"fn\s+%s\s*\(([^)]*)\)\s*->\s*([^{;]+?)\s*(?=\{)" % name
    m = re.compile(hdr).search(src, start)
    if not m:
        raise Untranslatable("%s: signature not found" % name)
    params = [re.sub(r"\s+", "", x) for x in m.group(1).split(",") if x.strip()]
    want = ["&self"] + (["ctx:EnforceContext"] if with_ctx else []) + ["rvals:&[Dynamic]"]
    if params != want:
        raise Untranslatable("%s: parameters %s" % (name, ", ".join(params)))
    if re.sub(r"\s+", "", m.group(2)) != "Result<(bool,Option<Vec<usize>>)>":
        raise Untranslatable("%s: return type %s" % (name, m.group(2)))
    if with_ctx:
        st = re.search(r"pub\s+struct\s+EnforceContext\s*\{([^}]*)\}", src)
        fields = re.findall(r"pub\s+(\w+)\s*:\s*String", st.group(1)) if st else []
        if sorted(fields) != sorted(CTX_FIELDS):
            raise Untranslatable("struct EnforceContext: fields %s" % fields)
    body = pins.balanced(src, m.end())
    if body is None:
        raise Untranslatable("%s: body not found" % name)
    p = LP(llex(pins.strip_rust_comments(body.strip()[1:-1])), FEATURES)
    blk = p.seq()
    if p.peek()[0] != "eof":
        raise Untranslatable("%s: trailing tokens" % name)
    env = {"rvals": [("vec", "value"), "v_rvals", False]}
    if with_ctx:
        env["ctx"] = ["ctx", "", False]
    term = EmitL(macros).function(blk, env)
    return "Definition gen_%s %s : outcome bool :=\n rs_result\n%s.\n" % (name, binders(with_ctx), indent(term))


def generate():
    out = ["(* GENERATED on every run by tools/rs2coq.py (part 10: tools/rs2coq_loop.py) from /repo/src/enforcer.rs",
           "   (Enforcer::private_enforce, Enforcer::private_enforce_with_context; the lookup macros of src/macros.rs;",
           "   cfg resolved for the features %s) - do not edit." % (
               ", ".join("%s%s" % ("" if v else "!", f) for f, v in sorted(FEATURES.items()))),
           "   eval_matcher ptab fs m scope stands for `compile_expression(escape_eval(<matcher text>))` followed by",
           "   `eval_ast_with_scope::<bool>`, with m = the expression registered in mexprs for the matcher key. *)",
           "From CV Require Import Model.Base Model.Effector Model.Expr Model.Enforce Gen.RustStr Gen.RustVec Gen.RustEnf.", ""]
    ok = True
    src = pins.read(ENF_FILE)
    imp = re.search(r"\nimpl\s+Enforcer\s*\{", src or "")
    try:
        macros = read_lookup_macros()
    except Exception:   # noqa
        macros = {}
    for name, with_ctx in ENF_FUNCS:
        try:
            if imp is None:
                raise Untranslatable("impl Enforcer not found in " + ENF_FILE)
            out.append(translate_enforce_fn(src, imp.end(), name, with_ctx, macros))
        except Exception as ex:   # noqa
            ok = False
            msg = str(ex) if isinstance(ex, Untranslatable) else "%s: %s" % (type(ex).__name__, ex)
            out.append("(* translation of %s failed: %s *)" % (name, msg.replace("*)", "* )").replace("(*", "( *")))
            out.append("Definition gen_%s %s : outcome bool := Panic.\n" % (name, binders(with_ctx)))
    out.append("Definition gen_enforce_translated : bool := %s." % ("true" if ok else "false"))
    return "\n".join(out) + "\n", ok


def main(dst_dir=None):
    dst_dir = dst_dir or "/verif/coq/Gen"
    txt, ok = generate()
    rs2coq.write_if_changed(os.path.join(dst_dir, "EnforceGen.v"), txt, ok)


if __name__ == "__main__":
    main(sys.argv[1] if len(sys.argv) > 1 else None)
