#!/usr/bin/env python3
"""writes seeded/INDEX.md from seeded/*/meta.json (what each seeded change is, what it needs, which check caught it and how)"""
import json, os, glob
V = os.path.dirname(os.path.dirname(os.path.abspath(__file__)))
rows = []
for d in sorted(glob.glob(os.path.join(V, "seeded", "*", "meta.json"))):
    m = json.load(open(d))
    name = os.path.basename(os.path.dirname(d))
    res = []
    for c, r in (m.get("checks_run") or {}).items():
        if not isinstance(r, dict):
            continue
        lines = r.get("lines", [])
        v = [l for l in lines if l.startswith("VIOLATION")]
        stat = [l for l in lines if " quick:" in l]
        info = ""
        if stat:
            import re
            mm = re.search(r"mismatches=(\d+) pred_false=(\d+)", stat[0])
            if mm:
                info = " (%s mismatching, %s failing cases)" % (mm.group(1), mm.group(2))
        if not v:
            res.append("%s: not noticed" % c)
        elif "no-failing-input-found" in v[0]:
            res.append("%s: obligation only (no-failing-input-found)%s" % (c, info))
        else:
            res.append("%s: FAILING INPUT%s" % (c, info))
    rows.append((name, m.get("property", "?"), (m.get("summary") or "").replace("\n", " ")[:260], (m.get("needs") or "").replace("\n", " ")[:260],
                 "; ".join(res), m.get("note", "")))
with open(os.path.join(V, "seeded", "INDEX.md"), "w") as f:
    f.write("# Seeded changes (written by independent sub-agents from the property text only)\n\n")
    f.write("Each directory holds `patch.diff`, `seeded_demo.rs` (fails with the change, passes without), `meta.json` (confirmation runs and the check results recorded by `tools/seedtest`).\n\n")
    f.write("| seeded change | property | what it is | what it needs | quick-tier result |\n|---|---|---|---|---|\n")
    for r in rows:
        f.write("| %s | %s | %s | %s | %s%s |\n" % (r[0], r[1], r[2].replace("|", "\\|"), r[3].replace("|", "\\|"), r[4], (" - " + r[5]) if r[5] else ""))
print("INDEX.md: %d seeded changes" % len(rows))
