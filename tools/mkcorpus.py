#!/usr/bin/env python3
"""collects the failing cases recorded in seeded/*/replay_<Cxx>.json (what each seeded change was caught on) into
gen/corpus/<Cxx>.txt; tools/check runs the corpus before the generated cases on every run"""
import glob, json, os
V = os.path.dirname(os.path.dirname(os.path.abspath(__file__)))
by = {}
for f in sorted(glob.glob(os.path.join(V, "seeded", "*", "replay_*.json"))):
    pid = os.path.basename(f)[7:-5]
    name = os.path.basename(os.path.dirname(f))
    r = json.load(open(f))
    cs = []
    if r.get("case"):
        cs.append(r["case"])
    cs += (r.get("other_failing_cases") or [])[:2]
    for c in cs:
        if c.startswith("stress") or c.startswith("savecrash"):
            continue
        by.setdefault(pid, [])
        if c not in [x[1] for x in by[pid]]:
            by[pid].append((name, c))
os.makedirs(os.path.join(V, "gen", "corpus"), exist_ok=True)
for pid, items in by.items():
    p = os.path.join(V, "gen", "corpus", pid + ".txt")
    keep = []
    if os.path.exists(p):
        # hand-written entries (before the generated marker) are kept
        txt = open(p, encoding="utf-8").read()
        keep = txt.split("# ---- generated from seeded replays ----")[0].rstrip("\n").split("\n") if txt.strip() else []
    with open(p, "w", encoding="utf-8") as f:
        if keep and keep != [""]:
            f.write("\n".join(keep) + "\n")
        f.write("# ---- generated from seeded replays ----\n")
        last = None
        for name, c in items:
            if name != last:
                f.write("# %s\n" % name)
                last = name
            f.write(c + "\n")
print({k: len(v) for k, v in by.items()})
