#!/usr/bin/env python3
"""Validation of coq/Gen/Regex.v (the trusted restatement of the `regex` crate) against the REAL crate.

For every case of CASES a tiny cargo project (<root>/rx, `regex` from the offline registry with /repo/Cargo.lock)
runs the crate: captures_iter (start, end, groups of every match) or replacen; the output becomes the expected
value of an `Example .. vm_compute. reflexivity.` of coq/Gen/RegexExamples.v on the AST that tools/rs2coq_regex.py
parses from the same literal (so the literal parser is validated too).

usage: python3 tools/rx_crate_examples.py            (rewrites coq/Gen/RegexExamples.v; needs cargo, offline)
"""
import os
import subprocess
import sys

HERE = os.path.dirname(os.path.abspath(__file__))
ROOT = os.path.dirname(HERE)
sys.path.insert(0, HERE)
import rs2coq_regex as R  # noqa: E402

ESC_A = r"\b(r\d*|p\d*)\."
ESC_C = r'''(\s*"[^"]*"?\s*|\s*[^,]*)'''
ESC_E = r"\beval\(([^)]*)\)"
ESC_G = r"\b(g\d*)\(((?:\s*[r|p]\d*\.\w+\s*,\s*){1,2}\s*[r|p]\d*\.\w+\s*)\)"

# ("find", pattern, haystack) | ("repl", pattern, haystack, limit, replacement) | ("find", pattern, haystack, hand-written AST)
CASES = [
    # --- the empty-match rule of find_iter
    ("find", r"a*", "baaab"),
    ("find", r"", "abc"),
    ("find", r"a|", "bab"),
    ("find", r"\b", "ab cd"),
    ("find", r"b*", "abba"),
    ("find", r".*", "ab\ncd"),
    ("find", r"a*?", "aa"),
    ("find", r"^", "ab"),
    ("find", r"$", "ab"),
    ("find", r"\s*", " a  b "),
    # --- leftmost-first preference
    ("find", r"a|ab", "ab"),
    ("find", r"ab|a", "ab"),
    ("find", r"(a|ab)(c|bcd)", "abcd"),
    ("find", r"(a|ab)(c|bcd)?", "abcd"),
    ("find", r"a+?", "aaa"),
    ("find", r'"[^"]*?"', 'x "a" "b"'),
    ("find", r"(a*)(a*)", "aaa"),
    ("find", r"(a*?)(a*)", "aaa"),
    ("find", r"(?:(a)|b)*", "abb"),
    ("find", r"(a)|b", "ba"),
    ("find", r"x*(a|b)*c", "xabacab"),
    # --- classes, assertions, counted repetition
    ("find", r"\b\w+\b", "hello, wor_ld 42"),
    ("find", r"\B.", "ab c"),
    ("find", r"^ab$", "ab"),
    ("find", r"^ab$", "abc"),
    ("find", r"\S+", " ab\tc\n d "),
    ("find", r"\D+|\d", "ab12c"),
    ("find", r"\W", "a-b_c d"),
    ("find", r"[a-c0-2_-]+", "ab3-_2d0"),
    ("find", r"[^\s,]+", "a b,c\td"),
    ("find", r"a{2,3}", "aaaaaaa"),
    ("find", r"a{2}", "aaaaa"),
    ("find", r"a{2,}", "a aa aaaa"),
    ("find", r"(ab){1,2}?c", "ababc abc"),
    ("find", r"(ab){1,2}c", "abababc"),
    ("find", r"a.c", "abc a\nc axc"),
    ("find", r"^/foo/[^/]+/.*$", "/foo/bar/baz/qux"),
    ("find", r"\.\*\+\?\(\)\[\]\{\}\|\\", r"x.*+?()[]{}|\y"),
    # --- the expressions of src/util.rs
    ("find", ESC_C, 'alice, "domain1, domain2", data1 , action1'),
    ("find", ESC_C, ","),
    ("find", ESC_C, "a,,b"),
    ("find", ESC_C, " a , b "),
    ("find", ESC_C, '"abc'),
    ("find", ESC_C, '"a" "b",c'),
    ("find", ESC_C, 'a"b"'),
    ("find", ESC_C, '"a"  ,b'),
    ("find", ESC_C, '"a" x ,b'),
    ("find", ESC_C, "a, "),
    ("find", ESC_C, '"'),
    ("find", ESC_C, '""'),
    ("find", ESC_C, 'a,"b,c" x,d'),
    ("find", ESC_C, 'a\t,\n"b"\r\n, c'),
    ("find", ESC_C, ""),
    ("find", ESC_A, "g(r.sub, p.sub) && r2.obj == p22.obj"),
    ("find", ESC_A, "xr.y r_.z r.r.r rr.x .r. 3r.x _p.x a.r.b r1p2.x p1 r."),
    ("find", ESC_E, "eval(p.rule) && xeval(a) && eval() || eval(a(b)c) eval(x"),
    ("find", ESC_G, "g(r.sub, p.sub) && g2(r.sub,p.sub , r.dom) && g(r.a) && g3(r.a,r.b,r.c,r.d)"),
    # --- replacement
    ("repl", ESC_A, "g(r.sub, p.sub) && r2.obj == p22.obj", 0, "${1}_"),
    ("repl", ESC_A, "xr.y r_.z r.r.r rr.x .r. 3r.x _p.x a.r.b r1p2.x p1 r.", 0, "${1}_"),
    ("repl", ESC_A, "r.a r.b r.c", 1, "${1}_"),
    ("repl", ESC_A, "r.a r.b r.c", 2, "${1}_"),
    ("repl", ESC_A, "nothing here", 0, "${1}_"),
    ("repl", ESC_E, "eval(p.rule) && xeval(a) && eval() || eval(a(b)c) eval(x", 0, "eval(escape_assertion(${1}))"),
    ("repl", r"(a)|b", "abab", 0, "[$1.$$${0}]"),
    ("repl", r"a*", "baaab", 0, "-"),
    ("repl", r"", "abc", 0, "-"),
    ("repl", r"\{", "a{b}{", 0, r"\{"),
    ("repl", r":[^/]+", "/a/:id/b/:x", 0, "[^/]+"),
    ("repl", r"\{[^/]+\}", "/a/{id}/{x}y", 0, "[^/]+"),
    # --- OUTSIDE the validated subset (unbounded repetition of a nullable body): rs2coq_regex refuses these
    #     literals; the ASTs are written by hand.  Recorded to show where Gen/Regex.v stands.
    ("find", r"(|a)*", "aa", "(RStar true (RGroup 1 (RAlt REps (RChar \"a\"%char))))"),
    ("find", r"(a|)*", "aab", "(RStar true (RGroup 1 (RAlt (RChar \"a\"%char) REps)))"),
    ("find", r"(a*)*", "aab", "(RStar true (RGroup 1 (RStar true (RChar \"a\"%char))))"),
    ("find", r"(|a)+", "aa", "(RPlus true (RGroup 1 (RAlt REps (RChar \"a\"%char))))"),
    ("find", r"(?:|a)+b", "aab", "(RCat (RPlus true (RAlt REps (RChar \"a\"%char))) (RChar \"b\"%char))"),
    ("find", r"(a*)+", "aab", "(RPlus true (RGroup 1 (RStar true (RChar \"a\"%char))))"),
    ("find", r"(a*?)*", "aab", "(RStar true (RGroup 1 (RStar false (RChar \"a\"%char))))"),
    # --- std: str::replace / str::contains / str::trim (Gen/RegexRt.v), ("std", haystack, from, to)
    ("std", "", "/a/*/b/**/*", "/*", "/.*"),
    ("std", "", "aaaa", "aa", "b"),
    ("std", "", "abcabc", "bc", ""),
    ("std", "", " \t a b \r\n", "zz", "y"),
]


def rust_bytes(s):
    return "&[" + ", ".join(str(b) for b in s.encode("ascii")) + "]"


def run_crate():
    rx = os.path.join(ROOT, ".build", "rx")
    os.makedirs(os.path.join(rx, "src"), exist_ok=True)
    if not os.path.exists(os.path.join(rx, "Cargo.lock")):
        import shutil
        shutil.copy(os.path.join(os.environ.get("VERIF_REPO", "/repo"), "Cargo.lock"), os.path.join(rx, "Cargo.lock"))
    open(os.path.join(rx, "Cargo.toml"), "w").write(
        '[package]\nname = "rx"\nversion = "0.1.0"\nedition = "2021"\n\n[dependencies]\nregex = "1.5.4"\n')
    lines = ["use regex::Regex;", "fn s(b: &[u8]) -> String { String::from_utf8(b.to_vec()).unwrap() }",
             "fn bytes(t: &str) -> String { t.bytes().map(|b| b.to_string()).collect::<Vec<_>>().join(\" \") }",
             "fn main() {"]
    for i, c in enumerate(CASES):
        pat, hay = rust_bytes(c[1]), rust_bytes(c[2])
        if c[0] == "std":
            lines.append("""    {{ let h = s({hay}); let f = s({f}); let t = s({t});
      println!("{i} | {{}} | {{}} | {{}}", bytes(&h.replace(f.as_str(), t.as_str())), h.contains(f.as_str()), bytes(h.trim())); }}""".format(
                hay=hay, f=rust_bytes(c[3]), t=rust_bytes(c[4]), i=i))
            continue
        if c[0] == "find":
            lines.append("""    {{ let re = Regex::new(&s({pat})).unwrap(); let h = s({hay}); print!("{i}");
      for c in re.captures_iter(&h) {{ let m = c.get(0).unwrap(); print!(" | {{}} {{}}", m.start(), m.end());
        for g in 1..c.len() {{ match c.get(g) {{ Some(x) => print!(" [{{}}]", bytes(x.as_str())), None => print!(" -") }} }} }}
      println!(); }}""".format(pat=pat, hay=hay, i=i))
        else:
            lines.append("""    {{ let re = Regex::new(&s({pat})).unwrap(); let h = s({hay}); let rep = s({rep});
      println!("{i} | {{}}", bytes(&re.replacen(&h, {lim}, rep.as_str()))); }}""".format(
                pat=pat, hay=hay, i=i, rep=rust_bytes(c[4]), lim=c[3]))
    lines.append("}")
    new_main = "\n".join(lines) + "\n"
    mp = os.path.join(rx, "src", "main.rs")
    if not os.path.exists(mp) or open(mp).read() != new_main:
        open(mp, "w").write(new_main)
    env = dict(os.environ, CARGO_NET_OFFLINE="true")
    p = subprocess.run(["cargo", "run", "--offline", "-q"], cwd=rx, env=env, capture_output=True, text=True, timeout=900)
    if p.returncode != 0:
        sys.exit("cargo failed:\n" + p.stderr)
    return p.stdout.splitlines()


def parse_groups(tokens):
    """tokens after `start end`: `-` or `[b b b]`"""
    out, i = [], 0
    while i < len(tokens):
        if tokens[i] == "-":
            out.append(None)
            i += 1
        else:
            assert tokens[i].startswith("[")
            cur = []
            while True:
                tk = tokens[i].strip("[]")
                if tk:
                    cur.append(int(tk))
                done = tokens[i].endswith("]")
                i += 1
                if done:
                    break
            out.append(bytes(cur).decode("ascii"))
    return out


def coq_holds(stmt):
    """does `stmt` hold by computation?  (only used for the hand-written cases outside the validated subset)"""
    import tempfile
    d = tempfile.mkdtemp(prefix="rx_ex_")
    try:
        f = os.path.join(d, "t.v")
        open(f, "w").write("From CV Require Import Model.Base Gen.Regex.\n"
                           "Definition rx_view (n : nat) (r : regex) (h : text) : list (nat * nat * list (option text)) :=\n"
                           "  map (fun m => (m_start m, m_end m, map (fun g => cap_get g (m_caps m)) (seq 1 n))) (rx_find_iter r h).\n"
                           "Goal %s. Proof. vm_compute. reflexivity. Qed.\n" % stmt)
        p = subprocess.run(["coqc", "-Q", os.path.join(ROOT, "coq"), "CV", f], capture_output=True, text=True, timeout=300)
        return p.returncode == 0
    finally:
        import shutil
        shutil.rmtree(d, ignore_errors=True)


def main():
    outl = run_crate()
    assert len(outl) == len(CASES), (len(outl), len(CASES))
    # run on every check (tools/vlib.py regen_pins): what the REAL crate answers today is compared with what the committed
    # Examples expect; only when it differs is the file rewritten (and then its Examples decide, at the next Coq build,
    # whether Gen/Regex.v still restates the crate)
    import hashlib
    stamp = hashlib.sha256((repr(CASES) + "\n".join(outl)).encode("utf-8")).hexdigest()[:20]
    dst0 = os.path.join(ROOT, "coq", "Gen", "RegexExamples.v")
    try:
        if ("crate-output-stamp: " + stamp) in open(dst0, encoding="utf-8").read():
            print("rx_crate_examples: unchanged")
            return
    except OSError:
        pass
    v = ["(* GENERATED by tools/rx_crate_examples.py: every expected value below is the OUTPUT OF THE REAL `regex` crate",
         "   (regex 1.13.1, offline registry) on the same pattern and haystack; the AST is what tools/rs2coq_regex.py parses",
         "   from the pattern (hand-written for the last group, which is outside the validated subset).",
         "   find: the matches of captures_iter as (start, end, [group 1; ..; group n]);  repl: replacen(h, limit, rep). *)",
         "(* crate-output-stamp: %s *)" % stamp,
         "From CV Require Import Model.Base Gen.RustStr Gen.Regex Gen.RegexRt.", "",
         "Definition rx_view (n : nat) (r : regex) (h : text) : list (nat * nat * list (option text)) :=",
         "  map (fun m => (m_start m, m_end m, map (fun g => cap_get g (m_caps m)) (seq 1 n))) (rx_find_iter r h).", ""]
    for i, (c, line) in enumerate(zip(CASES, outl)):
        parts = [x.strip() for x in line.split("|")]
        assert parts[0] == str(i), line
        hand = c[0] == "find" and len(c) > 3
        if c[0] == "std":
            dec = lambda x: bytes(int(y) for y in x.split()).decode("ascii")   # noqa: E731
            v.append("(* %d: str::replace / contains / trim *)" % i)
            v.append("Example rx_ex%d : (rs_str_replace %s %s %s, rs_contains_str %s %s, rs_trim %s) =\n  (%s, %s, %s).\n"
                     "Proof. vm_compute. reflexivity. Qed.\n" % (
                         i, R.coq_text(c[2]), R.coq_text(c[3]), R.coq_text(c[4]), R.coq_text(c[2]), R.coq_text(c[3]),
                         R.coq_text(c[2]), R.coq_text(dec(parts[1])), parts[2], R.coq_text(dec(parts[3]))))
            continue
        if hand:
            ast, ngroups = c[3], c[3].count("RGroup")
        else:
            prs = R.RxParser(c[1])
            ast, ngroups = R.rx_coq(prs.parse()), prs.ngroups
        wf = "true" if not hand else "false"
        v.append("(* %d: %s   on   %s *)" % (i, R.comment_safe(repr(c[1])), R.comment_safe(repr(c[2]))))
        if i == 0 or True:
            v.append("Example rx_ex%d_wf : rx_wf %s = %s. Proof. vm_compute. reflexivity. Qed." % (i, ast, wf))
        if c[0] == "find":
            ms = []
            for p in parts[1:]:
                tk = p.split()
                gs = parse_groups(tk[2:])
                assert len(gs) == ngroups, (c, gs)
                ms.append("(%s, %s, [%s])" % (tk[0], tk[1], "; ".join(
                    "None" if g is None else "Some %s" % R.coq_text(g) for g in gs)))
            stmt = "rx_view %d %s %s =\n  [%s]" % (ngroups, ast, R.coq_text(c[2]), ";\n   ".join(ms))
            if hand and not coq_holds(stmt):
                v.append("(* DISAGREES with the crate (outside the validated subset) *)")
                v.append("Example rx_ex%d_differs : ~ (%s).\nProof. vm_compute. discriminate. Qed.\n" % (i, stmt))
            else:
                v.append("Example rx_ex%d : %s.\nProof. vm_compute. reflexivity. Qed.\n" % (i, stmt))
        else:
            res = bytes(int(x) for x in parts[1].split()).decode("ascii") if len(parts) > 1 and parts[1] else ""
            v.append("Example rx_ex%d : rx_replacen %s %s %d %s =\n  %s.\nProof. vm_compute. reflexivity. Qed.\n" % (
                i, ast, R.coq_text(c[2]), c[3], R.template_to_coq(c[4]), R.coq_text(res)))
    dst = os.path.join(ROOT, "coq", "Gen", "RegexExamples.v")
    open(dst, "w").write("\n".join(v) + "\n")
    print("rx_crate_examples: %d cases written to %s" % (len(CASES), dst))


if __name__ == "__main__":
    main()
