#!/usr/bin/env python3
"""tools/mutproof.py --results SWEEP/results.jsonl --out DIR [--jobs N] [--all] [--report]

Development tool (not a registered check), the PROOF-SIDE companion of
tools/mutsweep.py.  mutsweep.py measures only the correspondence side (the
differential run and the predicates); this tool takes the mutants that side did
NOT notice (or, with --all, every mutant that survives the unit tests) and asks
what the source tie says about them:
  * the mutant is applied to a private copy of /repo/src under DIR;
  * tools/pins.py and tools/rs2coq.py are run against that copy (VERIF_REPO)
    into a private copy of /verif/coq under DIR;
  * every PinChecks/*.vo (and Properties/*Gen.vo) is rebuilt with `make -k`.
One JSON line per mutant goes to DIR/proofs.jsonl:
  "untranslatable": generated files that fell outside the translator's subset,
  "broken":        obligation files that no longer compile,
  "kind":          "translation-proof" (a Pc*Gen.v equality proof broke or the
                   translation failed), "hash-pin" (only frozen-text pins broke),
                   "none" (the tie does not see the edit at all).
Nothing here touches /repo, /verif/coq or the registered checks; DIR must be
outside /repo and /verif and is removed by the caller.
"""
import argparse
import json
import os
import re
import shutil
import subprocess
import sys
import threading

V = os.path.dirname(os.path.dirname(os.path.abspath(__file__)))


def sh(cmd, cwd=None, env=None, timeout=3000):
    e = dict(os.environ)
    if env:
        e.update(env)
    try:
        # own process group, killed as a whole on timeout: a mutant can make a test binary spin forever, and killing only the
        # shell would leave it running
        pr = subprocess.Popen(cmd, cwd=cwd, shell=isinstance(cmd, str), stdout=subprocess.PIPE, stderr=subprocess.STDOUT, env=e,
                              start_new_session=True)
        try:
            out, _ = pr.communicate(timeout=timeout)
            return pr.returncode, out.decode("utf-8", "replace")
        except subprocess.TimeoutExpired:
            import signal
            try:
                os.killpg(pr.pid, signal.SIGKILL)
            except OSError:
                pass
            out, _ = pr.communicate()
            return 124, (out or b"").decode("utf-8", "replace") + "\nTIMEOUT"
    except OSError as ex:
        return 125, str(ex)


def targets(coqdir):
    ts = []
    for l in open(os.path.join(coqdir, "_CoqProject"), encoding="utf-8"):
        l = l.strip()
        if l.startswith("PinChecks/") or re.match(r"Properties/\w+Gen\.v$", l):
            ts.append(l[:-2] + ".vo")
    return ts


class Worker:
    def __init__(self, out, idx, makejobs):
        self.dir = os.path.join(out, "pw%d" % idx)
        self.repo = os.path.join(self.dir, "repo")
        self.coq = os.path.join(self.dir, "coq")
        self.makejobs = makejobs
        if os.path.exists(self.dir):
            shutil.rmtree(self.dir)
        os.makedirs(self.repo)
        shutil.copytree("/repo/src", os.path.join(self.repo, "src"))
        for f in ("Cargo.toml",):
            shutil.copy(os.path.join("/repo", f), os.path.join(self.repo, f))
        shutil.copytree(os.path.join(V, "coq"), self.coq, ignore=shutil.ignore_patterns(".*.aux", "*.glob"))
        os.makedirs(os.path.join(self.dir, "extracted"), exist_ok=True)
        sh("coq_makefile -f _CoqProject -o Makefile", cwd=self.coq)
        self.targets = targets(self.coq)

    def regen(self):
        env = {"VERIF_REPO": self.repo}
        rc1, o1 = sh([sys.executable, os.path.join(V, "tools", "pins.py"), os.path.join(self.coq, "Pins.v")], env=env)
        rc2, o2 = sh([sys.executable, os.path.join(V, "tools", "rs2coq.py"), os.path.join(self.coq, "Gen", "EffectorGen.v")], env=env)
        return rc1, rc2, o1 + o2

    def build(self):
        rc, out = sh("timeout 2400 make -k -j%d %s" % (self.makejobs, " ".join(self.targets)), cwd=self.coq, timeout=2600)
        broken = sorted(set(re.findall(r"\*\*\* \[Makefile[^\]]*: ([\w/]+)\.vo\] Error", out)))
        return rc, broken, out

    def run(self, m):
        path = os.path.join(self.repo, m["file"])
        orig = open(os.path.join("/repo", m["file"]), encoding="utf-8").read()
        lines = orig.split("\n")
        res = {"file": m["file"], "line": m["line"], "op": m["op"], "old": m["old"], "new": m["new"]}
        if lines[m["line"] - 1] != m["old"]:
            res["kind"] = "stale-mutant"
            return res
        lines[m["line"] - 1] = m["new"]
        open(path, "w", encoding="utf-8").write("\n".join(lines))
        try:
            rc1, rc2, o = self.regen()
            res["untranslatable"] = re.findall(r"rewritten \S*/(\w+\.v) \(UNTRANSLATABLE\)", o)
            if rc1 != 0 or rc2 != 0:
                res["generator_error"] = o[-600:]
            rc, broken, out = self.build()
            res["broken"] = broken
            gen = [b for b in broken if re.search(r"Gen$", b)] + res["untranslatable"]
            other = [b for b in broken if not re.search(r"Gen$", b)]
            res["kind"] = "translation-proof" if gen or res.get("generator_error") else ("hash-pin" if other else "none")
            if rc != 0 and not broken:
                res["kind"] = "build-error"
                res["tail"] = out[-800:]
        finally:
            open(path, "w", encoding="utf-8").write(orig)
        return res


def report(out):
    rs = [json.loads(l) for l in open(os.path.join(out, "proofs.jsonl"), encoding="utf-8")]
    cnt = {}
    for r in rs:
        cnt[r["kind"]] = cnt.get(r["kind"], 0) + 1
    print(cnt)
    for k in ("none", "hash-pin", "translation-proof", "build-error", "stale-mutant"):
        for r in rs:
            if r["kind"] == k:
                print("%-18s %s:%d | %s => %s | %s" % (k, r["file"], r["line"], r["old"].strip()[:70], r["new"].strip()[:70],
                                                      ",".join(os.path.basename(b) for b in r.get("broken", []) + r.get("untranslatable", []))))


def main():
    ap = argparse.ArgumentParser()
    ap.add_argument("--results")
    ap.add_argument("--out", required=True)
    ap.add_argument("--jobs", type=int, default=2)
    ap.add_argument("--makejobs", type=int, default=4)
    ap.add_argument("--all", action="store_true")
    ap.add_argument("--report", action="store_true")
    a = ap.parse_args()
    if a.report:
        report(a.out)
        return
    ab = os.path.abspath(a.out)
    if ab.startswith("/repo") or ab.startswith("/verif"):
        sys.exit("--out must be outside /repo and /verif")
    os.makedirs(a.out, exist_ok=True)
    muts = []
    for l in open(a.results, encoding="utf-8"):
        r = json.loads(l)
        if r.get("unit") != "survives":
            continue
        if a.all or not r.get("noticed"):
            muts.append(r)
    done = set()
    pj = os.path.join(a.out, "proofs.jsonl")
    if os.path.exists(pj):
        for l in open(pj, encoding="utf-8"):
            r = json.loads(l)
            done.add((r["file"], r["line"], r["op"], r["new"]))
    muts = [m for m in muts if (m["file"], m["line"], m["op"], m["new"]) not in done]
    print("mutproof:", len(muts), "mutants to examine")
    lock = threading.Lock()
    it = iter(muts)

    def work(idx):
        w = Worker(a.out, idx, a.makejobs)
        while True:
            with lock:
                m = next(it, None)
            if m is None:
                break
            r = w.run(m)
            with lock:
                with open(pj, "a", encoding="utf-8") as f:
                    f.write(json.dumps(r) + "\n")
                print(r["kind"], r["file"], r["line"], r.get("broken"), flush=True)
        shutil.rmtree(w.dir, ignore_errors=True)

    ths = [threading.Thread(target=work, args=(i,)) for i in range(a.jobs)]
    for t in ths:
        t.start()
    for t in ths:
        t.join()
    report(a.out)


if __name__ == "__main__":
    main()
